(** Sequential key-value facts in the kernel model ([sem]), for every
    filesystem state, fault position and response the model can give:

    - a successful plain [set] leaves the key's name bound to the inode its
      source file named; a successful plain [put] leaves it bound to that inode or
      to whatever it was bound to before (never to anything else);
    - a lookup that hits returns a descriptor on the inode the key's name was
      bound to, and changes no binding at all;
    - any other entry of the directory keeps its binding or disappears.

    Method: a trace monitor proved for all responses (weakest preconditions,
    [wpv]), then an invariant relating monitor states to filesystem states
    carried along the steps of the sequential run ([sane_run]). *)
From Coq Require Import List NArith ZArith String Ascii Bool Arith Lia Permutation.
From Kismet Require Import Gen.Constants Pure.SecondChance Pure.Hash Pure.Trigger FS.Fs FS.Prog Spec.Wp Spec.ClassMon Spec.Calm Ops.Ops
  Conc.Effect Proofs.SecondChanceProofs Proofs.HashProofs Proofs.PutNeverOverwrites Proofs.MaintScope Proofs.NeverMasked
  Seq.Plain Seq.Steps Seq.Bind Seq.Sane.
Import ListNotations.

(** every name the call may rebind is plain and satisfies [P] *)
Definition okm (P : path -> bool) (c : call) : bool := forallb (fun p => (plainp p && P p)%bool) (rebind_paths c).
Lemma okm_nr P c : rebind_paths c = [] -> okm P c = true.
Proof. unfold okm. intros ->. reflexivity. Qed.

(** * Maintenance inside a set of monitor states *)
Section Maint.
  Context {S : Type} (m : S -> event -> option S).
  Variable G : S -> Prop.
  Variable ok : call -> bool.
  Hypothesis Hnr : forall c, rebind_paths c = [] -> ok c = true.   (* calls that rebind nothing are in the class *)

  Hypothesis Hcall : forall s c r, G s -> ok c = true -> exists s', m s (EvCall c r) = Some s' /\ G s'.
  Hypothesis Hsil : forall s ev, G s -> match ev with EvCall _ _ => True | _ => exists s', m s ev = Some s' /\ G s' end.

  Notation gc := (allc ok).
  Hint Extern 1 (ok _ = true) => (apply Hnr; reflexivity) : allc.
  Hint Extern 2 (ok _ = true) => assumption : allc.
  Hint Resolve allc_call : allc.

  Lemma gc_unit_call c : ok c = true -> gc (unit_call c) anyc. Proof. intros H. unfold unit_call. allc_auto. Qed.
  Lemma gc_fd_call c : ok c = true -> gc (fd_call c) anyc. Proof. intros H. unfold fd_call. allc_auto. Qed.
  Lemma gc_stat_call c : ok c = true -> gc (stat_call c) anyc. Proof. intros H. unfold stat_call. allc_auto. Qed.
  Lemma gc_quiet c : ok c = true -> gc (quiet c) anyc. Proof. intros H. unfold quiet. allc_auto. Qed.
  Hint Resolve gc_unit_call gc_fd_call gc_stat_call gc_quiet : allc.
  Lemma gc_set_times p a b : gc (set_times p a b) anyc. Proof. unfold set_times. allc_auto. Qed.
  Hint Resolve gc_set_times : allc.
  Lemma gc_move_to_back p : gc (move_to_back_of_list p) anyc. Proof. unfold move_to_back_of_list. allc_auto. Qed.
  Lemma gc_touch p : gc (touch p) anyc. Proof. unfold touch. allc_auto. Qed.
  Lemma gc_set_read_only p : gc (set_read_only p) anyc. Proof. unfold set_read_only, try. allc_auto. Qed.
  Lemma gc_ensure_file_removed p : ok (CUnlink p) = true -> gc (ensure_file_removed p) anyc.
  Proof. intros H. unfold ensure_file_removed. allc_auto. Qed.
  Hint Resolve gc_move_to_back gc_touch gc_set_read_only gc_ensure_file_removed : allc.

  Lemma gc_maybe_sync_path cfg p : gc (maybe_sync_path cfg p) anyc.
  Proof. unfold maybe_sync_path, try, quiet. allc_auto. Qed.

  Definition plain_files (files : list cfile) : Prop := Forall (fun f => plain_comp (cf_name f) = true) files.

  Lemma gc_collect_loop dir dh names : forall acc count,
    Forall (fun n => plain_comp n = true) names -> plain_files acc ->
    gc (collect_loop dir dh names acc count) (fun r => match r with Ok (files, _) => plain_files files | _ => True end).
  Proof.
    induction names as [|n rest IH]; intros acc count Hn Ha; cbn [collect_loop].
    - apply allc_ret. unfold plain_files. apply Forall_rev. exact Ha.
    - inversion Hn as [|? ? Hn1 Hn2]; subst.
      destruct (dot_prefixed n); [apply IH; assumption|].
      eapply allc_bind; [apply allc_call; apply Hnr; reflexivity|]. intros r _. cbn beta.
      destruct r as [| |st| | |e]; try (unfold quiet; allc_auto).
      destruct (st_dir st); apply IH; try assumption. constructor; [exact Hn1|exact Ha].
  Qed.

  Lemma gc_evict_loop dir names : Forall (fun n => ok (CUnlink (dir ++ [n])) = true) names -> gc (evict_loop dir names) anyc.
  Proof.
    induction names as [|n rest IH]; intros H; cbn [evict_loop]; [apply allc_ret; exact I|].
    inversion H as [|? ? H1 H2]; subst. specialize (IH H2). unfold try. allc_auto.
  Qed.
  Lemma gc_move_back_loop dir names : gc (move_back_loop dir names) anyc.
  Proof. induction names as [|n rest IH]; cbn [move_back_loop]; allc_auto. Qed.
  Lemma gc_cleanup_temp_loop temp names thr : Forall (fun n => ok (CUnlink (temp ++ [n])) = true) names -> gc (cleanup_temp_loop temp names thr) anyc.
  Proof.
    induction names as [|n rest IH]; intros H; cbn [cleanup_temp_loop]; [apply allc_ret; exact I|].
    inversion H as [|? ? H1 H2]; subst. specialize (IH H2). unfold skip. allc_auto.
  Qed.

  Lemma gc_create_dir_all_rev target rp :
    (forall a b, target = a ++ b -> ok (CMkdir a) = true) -> (exists q, rev target = q ++ rp) ->
    gc (create_dir_all_rev rp) anyc.
  Proof.
    intros Hmk. induction rp as [|x rp IH]; intros (q & Hq); cbn [create_dir_all_rev]; [apply allc_ret; exact I|].
    assert (Hm : ok (CMkdir (rev (x :: rp))) = true).
    { apply (Hmk _ (rev q)). rewrite <- rev_app_distr, <- Hq. symmetry. apply rev_involutive. }
    assert (IH' : gc (create_dir_all_rev rp) anyc).
    { apply IH. exists (q ++ [x]). rewrite <- app_assoc. exact Hq. }
    unfold try, is_dir_follow. allc_auto.
  Qed.
  Lemma gc_create_dir_all target : (forall a b, target = a ++ b -> ok (CMkdir a) = true) -> gc (create_dir_all target) anyc.
  Proof. intros H. unfold create_dir_all. eapply gc_create_dir_all_rev; [exact H|]. exists []. reflexivity. Qed.

  (** helpers for the silent nodes *)
  Lemma wpv_sil {A} (ev : event) (p : prog A) (Q : A -> S -> Prop) s :
    G s -> (match ev with EvCall _ _ => False | _ => True end) ->
    (forall s', G s' -> wpv m p Q s') ->
    after (lift m) (Some s) ev (wp (lift m) p (vpost Q)).
  Proof.
    intros Hg Hev H. unfold after. cbn [lift]. assert (Hs : sane_ev ev = true) by (destruct ev; try reflexivity; destruct Hev).
    rewrite Hs. pose proof (Hsil s ev Hg) as Hx. destruct ev; try destruct Hev; destruct Hx as (s' & -> & Hg'); cbn [option_map]; apply H, Hg'.
  Qed.

  Lemma g_collect dir s : G s ->
    wpv m (collect_cached_files dir) (fun r s' => G s' /\ match r with Ok (_, files, _) => plain_files files | _ => True end) s.
  Proof.
    intros Hg. unfold collect_cached_files. apply wpv_try.
    eapply wpv_mono; [|apply (gclass m G ok Hcall Hsil _ _ (gc_fd_call (COpenDir dir) (Hnr (COpenDir dir) eq_refl)) s Hg)].
    intros [dh|e|] s1 (_ & Hg1); [|auto..]. cbn [bind call1]. apply wpv_call. intros r Hsane.
    destruct (Hcall s1 (CReadDir dh) r Hg1 (Hnr (CReadDir dh) eq_refl)) as (s2 & -> & Hg2).
    assert (Hq : forall x : outcome (nat * list cfile * N), (match x with Ok _ => False | _ => True end) ->
                 wpv m (quiet (CCloseDir dh) ;;; Ret x) (fun r0 s' => G s' /\ match r0 with Ok (_, files, _) => plain_files files | _ => True end) s2).
    { intros x Hx. eapply wpv_mono; [|apply (gclass m G ok Hcall Hsil (quiet (CCloseDir dh) ;;; Ret x) (fun r0 => r0 = x))]; [|unfold quiet; allc_auto|exact Hg2].
      intros a s' (-> & Hg'). split; [exact Hg'|]. destruct x; [destruct Hx|exact I..]. }
    destruct r as [| | | |names|e]; try (apply Hq; exact I).
    cbn [sane_ev] in Hsane. apply wpv_try.
    eapply wpv_mono; [|apply (gclass m G ok Hcall Hsil _ _ (gc_collect_loop dir dh names [] 0%N ltac:(apply Forall_forall; intros n Hn; eapply forallb_forall in Hsane; eassumption) ltac:(constructor)) s2 Hg2)].
    intros [[files cnt]|e|] s3 (Hf & Hg3); cbn; auto.
  Qed.

  Lemma plan_names_plain files cap ev mb : plain_files files -> plan (entries_of files) cap = Some (ev, mb) ->
    Forall (fun n => plain_comp n = true) (map (name_at files) ev).
  Proof.
    intros Hf Hp. apply Forall_forall. intros n Hn. apply in_map_iff in Hn. destruct Hn as (e & <- & He).
    assert (Hin : In e (entries_of files)).
    { eapply Permutation_in; [apply (plan_partition _ _ _ _ Hp)|]. apply in_or_app. left. exact He. }
    destruct (name_at_in files e Hin) as (f & Hff & ->). unfold plain_files in Hf. rewrite Forall_forall in Hf. apply Hf, Hff.
  Qed.

  Lemma g_prune dir cap s :
    (forall n, plain_comp n = true -> ok (CUnlink (dir ++ [n])) = true) -> G s ->
    wpv m (prune dir cap) (fun _ s' => G s') s.
  Proof.
    intros Hu Hg. unfold prune. apply wpv_try. eapply wpv_mono; [|apply (g_collect dir s Hg)].
    intros [[[dh files] cnt]|e|] s1 (Hg1 & Hf); [|exact Hg1..].
    destruct (plan (entries_of files) cap) as [[ev mb]|] eqn:Hp.
    - eapply wpv_mono; [|apply (gclass m G ok Hcall Hsil _ anyc)]; [intros a s' (_ & Hg'); exact Hg'| |exact Hg1].
      assert (He : gc (evict_loop dir (map (name_at files) ev)) anyc).
      { apply gc_evict_loop. pose proof (plan_names_plain files cap ev mb Hf Hp) as Hn. rewrite Forall_forall in *. intros n Hin. apply Hu, Hn, Hin. }
      pose proof (gc_move_back_loop dir (map (name_at files) mb)) as Hm.
      unfold try, quiet. allc_auto.
    - eapply wpv_mono; [|apply (gclass m G ok Hcall Hsil _ anyc)]; [intros a s' (_ & Hg'); exact Hg'| |exact Hg1]. unfold quiet. allc_auto.
  Qed.

  Lemma g_cleanup_temp temp s :
    (forall n, plain_comp n = true -> ok (CUnlink (temp ++ [n])) = true) -> G s ->
    wpv m (cleanup_temporary_directory temp) (fun _ s' => G s') s.
  Proof.
    intros Hu Hg. unfold cleanup_temporary_directory, wpv. cbn [wp]. intros t. apply wpv_sil; [exact Hg|exact I|]. intros s1 Hg1.
    destruct (t <? MAX_AGE_NS)%Z; [exact Hg1|]. cbn [bind call1]. apply wpv_call. intros r _.
    destruct (Hcall s1 (COpenDir temp) r Hg1 (Hnr (COpenDir temp) eq_refl)) as (s2 & -> & Hg2).
    destruct r as [|dh| | | |e]; try exact Hg2.
    cbn [bind call1]. apply wpv_call. intros l Hsane. destruct (Hcall s2 (CReadDir dh) l Hg2 (Hnr (CReadDir dh) eq_refl)) as (s3 & -> & Hg3).
    eapply wpv_mono; [|apply (gclass m G ok Hcall Hsil _ anyc)]; [intros a s' (_ & Hg'); exact Hg'| |exact Hg3].
    destruct l as [| | | |names|]; try (unfold skip, quiet; allc_auto).
    assert (Hl : gc (cleanup_temp_loop temp names (t - MAX_AGE_NS)) anyc).
    { apply gc_cleanup_temp_loop. cbn [sane_ev] in Hsane. apply Forall_forall. intros n Hn. apply Hu. eapply forallb_forall in Hsane; eassumption. }
    unfold quiet. allc_auto.
  Qed.

  Lemma g_definitely_cleanup d base s :
    (forall n, plain_comp n = true -> ok (CUnlink (base ++ [n])) = true) ->
    (forall n, plain_comp n = true -> ok (CUnlink (cd_temp d ++ [n])) = true) -> G s ->
    wpv m (definitely_cleanup d base) (fun _ s' => G s') s.
  Proof.
    intros H1 H2 Hg. unfold definitely_cleanup. apply wpv_bind. eapply wpv_mono; [|apply (g_prune base (cd_cap d) s H1 Hg)].
    intros [[est nev]|e|] s1 Hg1; [|exact Hg1..].
    apply wpv_try. eapply wpv_mono; [|apply (g_cleanup_temp (cd_temp d) s1 H2 Hg1)]. intros [u|e|] s2 Hg2; exact Hg2.
  Qed.

  Lemma g_maybe_cleanup d s :
    (forall n, plain_comp n = true -> ok (CUnlink (cd_base d ++ [n])) = true) ->
    (forall n, plain_comp n = true -> ok (CUnlink (cd_temp d ++ [n])) = true) -> G s ->
    wpv m (maybe_cleanup d) (fun _ s' => G s') s.
  Proof.
    intros H1 H2 Hg. unfold maybe_cleanup, wpv. cbn [wp]. intros b. apply wpv_sil; [exact Hg|exact I|]. intros s1 Hg1.
    destruct b; [|exact Hg1]. apply wpv_try. eapply wpv_mono; [|apply (g_definitely_cleanup d (cd_base d) s1 H1 H2 Hg1)].
    intros [est|e|] s2 Hg2; exact Hg2.
  Qed.
End Maint.

(** * A plain cache directory: set *)
Lemma okm_and P1 P2 c : okm (fun p => (P1 p && P2 p)%bool) c = true -> okm P1 c = true /\ okm P2 c = true.
Proof.
  unfold okm. induction (rebind_paths c) as [|p l IH]; cbn [forallb]; [auto|].
  rewrite !andb_true_iff. intros ((Hp & H1 & H2) & Hl). destruct (IH Hl) as (Ha & Hb). repeat split; auto.
Qed.
Lemma okm_spares x c : okm (fun p => negb (path_eqb p x)) c = spares x c.
Proof. reflexivity. Qed.

Lemma temp_plain : plain_comp temp_subdir = true. Proof. reflexivity. Qed.

Definition accepted (r : res) : bool := match r with RErr _ => false | _ => true end.

Section PlainSet.
  Variable d : cdir.
  Variable name : string.
  Variable v : path.
  Notation dst := (cd_base d ++ [name]).
  Hypothesis Hbase : plainp (cd_base d) = true.
  Hypothesis Hname : valid_name name = true.
  Hypothesis Hv : plainp v = true.
  Hypothesis Hout : forall q, v <> cd_base d ++ q.     (* the source is not inside the cache directory *)
  Hypothesis Hnanc : forall q, cd_base d <> v ++ q.    (* ... and is not one of its ancestors *)

  Definition Pv (p : path) : bool := negb (path_eqb p v).
  Definition Pvd (p : path) : bool := (negb (path_eqb p v) && negb (path_eqb p dst))%bool.
  Definition is_pub (c : call) : bool := match c with CRename a b => (path_eqb a v && path_eqb b dst)%bool | _ => false end.

  (** [false]: not yet published; [true]: the publishing rename was accepted *)
  Definition ps_step (s : bool) (ev : event) : option bool :=
    match ev with
    | EvCall c r =>
        if is_pub c then Some (s || accepted r)%bool
        else if s then
          if (okm Pvd c || match c with CUnlink p => path_eqb p v | _ => false end)%bool then Some true else None
        else if okm Pv c then Some false else None
    | _ => Some s
    end.

  Lemma pub_not_Pv c : okm Pv c = true -> is_pub c = false.
  Proof.
    destruct c; try reflexivity. unfold okm, Pv. cbn [rebind_paths forallb is_pub].
    destruct (path_eqb p v); [|reflexivity]. cbn. rewrite andb_false_r. discriminate.
  Qed.

  Lemma ps_call_false c r : okm Pv c = true -> exists s', ps_step false (EvCall c r) = Some s' /\ s' = false.
  Proof. intros H. cbn [ps_step]. rewrite (pub_not_Pv c H), H. eauto. Qed.
  Lemma ps_call_true c r : okm Pvd c = true -> exists s', ps_step true (EvCall c r) = Some s' /\ s' = true.
  Proof. intros H. cbn [ps_step]. destruct (okm_and _ _ c H) as (H1 & _). rewrite (pub_not_Pv c H1), H. cbn [orb]. eauto. Qed.
  Lemma ps_sil s ev : match ev with EvCall _ _ => True | _ => exists s', ps_step s ev = Some s' /\ s' = s end.
  Proof. destruct ev; cbn; eauto. Qed.

  Definition Ps (s : bool) : path -> bool := if s then Pvd else Pv.
  Lemma ps_call s c r : okm (Ps s) c = true -> exists s', ps_step s (EvCall c r) = Some s' /\ s' = s.
  Proof. destruct s; [apply ps_call_true|apply ps_call_false]. Qed.

  Lemma ps_class s {A} (p : prog A) Q : allc (okm (Ps s)) p Q -> wpv ps_step p (fun a s' => Q a /\ s' = s) s.
  Proof.
    intros H. apply (gclass ps_step (fun s' => s' = s) (okm (Ps s))); [| |exact H|reflexivity].
    - intros s0 c r -> Hc. destruct (ps_call s c r Hc) as (s' & -> & ->). eauto.
    - intros s0 ev ->. pose proof (ps_sil s ev) as Hs. destruct ev; auto. all: destruct Hs as (s' & -> & ->); eauto.
  Qed.

  Lemma v_ne_dst : v <> dst. Proof. apply Hout. Qed.

  Lemma ps_insert s :
    wpv ps_step (insert_or_update v dst) (fun r s' => (is_ok r = true -> s' = true) /\ (s = true -> s' = true)) s.
  Proof.
    unfold insert_or_update. apply wpv_try.
    eapply wpv_mono; [|apply (ps_class s _ _ (gc_move_to_back (okm (Ps s)) (okm_nr _) v))]. intros [u|e|] s1 (_ & ->); [|split; [discriminate|auto]..].
    apply wpv_try. eapply wpv_mono; [|apply (ps_class s _ _ (gc_set_read_only (okm (Ps s)) (okm_nr _) v))]. intros [u1|e|] s1 (_ & ->); [|split; [discriminate|auto]..].
    apply wpv_try. unfold unit_call. cbn [bind call1]. apply wpv_call. intros r _.
    assert (Hp : is_pub (CRename v dst) = true) by (cbn [is_pub]; now rewrite !path_eqb_refl).
    cbn [ps_step]. rewrite Hp. destruct r as [| | | | |er]; cbn [accepted]; rewrite ?orb_true_r, ?orb_false_r;
      try (cbn [bind]; unfold wpv; cbn [wp vpost]; split; [discriminate|auto]).
    all: unfold ensure_file_removed, unit_call; cbn [bind call1]; apply wpv_call; intros r2 _; cbn [ps_step is_pub];
      rewrite path_eqb_refl, orb_true_r; unfold wpv; cbn [wp vpost]; split; auto.
  Qed.

  Lemma validate_ok : validate name = Ok tt. Proof. unfold validate. now rewrite Hname. Qed.

  Lemma okm_unlink_base P n : plain_comp n = true -> P (cd_base d ++ [n]) = true -> okm P (CUnlink (cd_base d ++ [n])) = true.
  Proof. intros Hn HP. unfold okm. cbn [rebind_paths forallb]. rewrite plainp_app, Hbase, HP. cbn. now rewrite Hn. Qed.
  Lemma okm_unlink_temp P n : plain_comp n = true -> P (cd_temp d ++ [n]) = true -> okm P (CUnlink (cd_temp d ++ [n])) = true.
  Proof. intros Hn HP. unfold okm. cbn [rebind_paths forallb]. unfold cd_temp in *. rewrite !plainp_app, Hbase, HP. cbn. now rewrite Hn. Qed.

  Lemma Pv_under q : Pv (cd_base d ++ q) = true.
  Proof. unfold Pv. apply negb_true_iff. destruct (path_eqb _ v) eqn:He; [|reflexivity]. apply path_eqb_eq in He. symmetry in He. exfalso. exact (Hout q He). Qed.

  Lemma Ps_mkdir s a b : cd_base d = a ++ b -> okm (Ps s) (CMkdir a) = true.
  Proof.
    intros Hab. unfold okm. cbn [rebind_paths forallb]. rewrite andb_true_r.
    assert (Hpa : plainp a = true) by (rewrite Hab, plainp_app in Hbase; apply andb_true_iff in Hbase; tauto).
    assert (Hav : negb (path_eqb a v) = true).
    { apply negb_true_iff. destruct (path_eqb a v) eqn:He; [|reflexivity]. apply path_eqb_eq in He. subst a. exfalso. exact (Hnanc b Hab). }
    rewrite Hpa. cbn. destruct s; unfold Ps, Pvd, Pv; rewrite Hav; [|reflexivity]. cbn.
    apply negb_true_iff. destruct (path_eqb a dst) eqn:He; [|reflexivity]. apply path_eqb_eq in He. exfalso.
    apply (f_equal (@List.length string)) in He. apply (f_equal (@List.length string)) in Hab. rewrite !app_length in *. cbn in He. lia.
  Qed.

  Theorem ps_cd_set : wpv ps_step (cd_set d name v) (fun r s' => is_ok r = true -> s' = true) false.
  Proof.
    unfold cd_set, cd_publish. rewrite validate_ok. apply wpv_try.
    eapply wpv_mono; [|apply (g_maybe_cleanup ps_step (fun s' => s' = false) (okm Pv) (okm_nr _))].
    - intros [ret|e|] s1 ->; [|discriminate..].
      apply wpv_bind. eapply wpv_mono; [|apply (ps_insert false)]. intros r s2 (Hok & _).
      destruct r as [u|e|]; [apply wpv_ret; intros _; apply Hok; reflexivity|..].
      all: apply wpv_try; rewrite removelast_last;
        (eapply wpv_mono; [|apply (ps_class s2 _ _ (gc_create_dir_all (okm (Ps s2)) (okm_nr _) (cd_base d) (Ps_mkdir s2)))]);
        intros [u|e2|] s3 (_ & ->); try discriminate;
        apply wpv_try; (eapply wpv_mono; [|apply (ps_insert s2)]); intros [u2|e3|] s4 (Hok2 & _); try discriminate;
        apply wpv_ret; intros _; apply Hok2; reflexivity.
    - intros s0 c r -> Hc. destruct (ps_call_false c r Hc) as (s' & -> & ->). eauto.
    - intros s0 ev ->. pose proof (ps_sil false ev) as Hs. destruct ev; auto. all: destruct Hs as (s' & -> & ->); eauto.
    - intros n Hn. apply okm_unlink_base; [exact Hn|apply Pv_under].
    - intros n Hn. apply okm_unlink_temp; [exact Hn|]. unfold cd_temp. rewrite <- app_assoc. apply Pv_under.
    - reflexivity.
  Qed.

  (** ** what the monitor states mean for the filesystem *)
  Variable i0 : nat.
  Definition ps_inv (s : bool) (f : fs) : Prop :=
    if s then name_of f dst = Some i0 /\ (name_of f v = Some i0 \/ name_of f v = None)
    else name_of f v = Some i0.

  Lemma dst_plain : plainp dst = true.
  Proof. rewrite plainp_app, Hbase. cbn. now rewrite (valid_name_plain name Hname). Qed.

  Lemma accepted_answered f c r f' : step1 f (EvCall c r) f' -> accepted r = true ->
    exists e, f' = fst (sem f e c) /\ r = snd (sem f e c).
  Proof. intros H Ha. apply step1_ok; [exact H|]. intros er ->. discriminate. Qed.

  Lemma ps_inv_step s ev s' f f' : ps_step s ev = Some s' -> step1 f ev f' -> names_plain f -> ps_inv s f -> ps_inv s' f'.
  Proof.
    intros Hm H1 _ HI. pose proof v_ne_dst as Hvd. pose proof dst_plain as Hdp.
    destruct ev as [c r|t|wt b|n x|fr|tg pl]; cbn [ps_step] in Hm.
    2-6: injection Hm as <-; destruct s; cbn [ps_inv] in *; rewrite !(step1_spares _ _ _ _ H1 I); exact HI.
    destruct (is_pub c) eqn:Hp.
    - destruct c; try discriminate. cbn [is_pub] in Hp. apply andb_true_iff in Hp. destruct Hp as (Ha & Hb).
      apply path_eqb_eq in Ha. apply path_eqb_eq in Hb. subst p q. injection Hm as <-.
      destruct (accepted r) eqn:Hacc.
      + destruct (accepted_answered _ _ _ _ H1 Hacc) as (e & -> & Hr).
        pose proof (sem_res_unit f e (CRename v dst)) as Hu. cbn beta iota in Hu.
        destruct Hu as [Hu|(er & Hu)]; [|rewrite Hu in Hr; subst r; discriminate].
        destruct (rename_effect f e v dst Hv Hdp Hu) as (Hd & Hn). pose proof (rename_source f e v dst Hv Hdp Hvd Hu) as Hs.
        rewrite orb_true_r. cbn [ps_inv].
        assert (Hv0 : name_of f v = Some i0).
        { destruct s; cbn [ps_inv] in HI; [destruct HI as (_ & [H|H]); [exact H|contradiction]|exact HI]. }
        rewrite Hd, Hv0. split; [reflexivity|]. destruct Hs as [Hs|Hs]; [right; exact Hs|left; rewrite Hs; exact Hv0].
      + destruct r as [| | | | |er]; try discriminate. rewrite orb_false_r.
        destruct s; cbn [ps_inv] in *; rewrite !(step1_err _ _ _ _ _ H1); exact HI.
    - destruct s.
      + destruct (okm Pvd c || match c with CUnlink p => path_eqb p v | _ => false end)%bool eqn:Hc; [|discriminate]. injection Hm as <-.
        apply orb_true_iff in Hc. destruct Hc as [Hc|Hc].
        * destruct (okm_and _ _ c Hc) as (Hc1 & Hc2). cbn [ps_inv] in *.
          rewrite (step1_spares _ _ _ dst H1 Hc2), (step1_spares _ _ _ v H1 Hc1). exact HI.
        * destruct c; try discriminate. apply path_eqb_eq in Hc. subst p. cbn [ps_inv] in *. destruct HI as (Hd & Hsrc).
          assert (Hsp : spares dst (CUnlink v) = true).
          { unfold spares. cbn [rebind_paths forallb]. rewrite Hv. cbn. rewrite andb_true_r. apply negb_true_iff.
            destruct (path_eqb v dst) eqn:He; [apply path_eqb_eq in He; contradiction|reflexivity]. }
          rewrite (step1_spares _ _ _ dst H1 Hsp). split; [exact Hd|].
          destruct (accepted r) eqn:Hacc.
          -- destruct (accepted_answered _ _ _ _ H1 Hacc) as (e & -> & Hr).
             pose proof (sem_res_unit f e (CUnlink v)) as Hu. cbn beta iota in Hu.
             destruct Hu as [Hu|(er & Hu)]; [|rewrite Hu in Hr; subst r; discriminate].
             right. apply unlink_effect; assumption.
          -- destruct r as [| | | | |er]; try discriminate. rewrite (step1_err _ _ _ _ _ H1). exact Hsrc.
      + destruct (okm Pv c) eqn:Hc; [|discriminate]. injection Hm as <-. cbn [ps_inv] in *.
        rewrite (step1_spares _ _ _ v H1 Hc). exact HI.
  Qed.

  (** A plain [set] that reports success has bound the key's name to the
      inode its source named, on every sequential run: whatever the directory
      held, whichever maintenance ran, wherever a fault was injected. *)
  Theorem plain_set_binds w o : names_plain (w_fs w) -> name_of (w_fs w) v = Some i0 ->
    let '(r, w', _, _) := run (cd_set d name v) w o in
    is_ok r = true ->
    name_of (w_fs w') dst = Some i0 /\ (name_of (w_fs w') v = Some i0 \/ name_of (w_fs w') v = None).
  Proof.
    intros Hpl Hv0.
    pose proof (sane_run ps_step (cd_set d name v) _ false ps_inv ps_cd_set ps_inv_step w o Hpl Hv0) as H.
    destruct (run (cd_set d name v) w o) as [[[r w'] o'] tr]. destruct H as (s' & HQ & HI & _).
    intros Hok. rewrite (HQ Hok) in HI. exact HI.
  Qed.
End PlainSet.

(** * A plain cache directory: put *)
Inductive pst := Before | Linked | Existed.

Section PlainPut.
  Variable d : cdir.
  Variable name : string.
  Variable v : path.
  Notation dst := (cd_base d ++ [name]).
  Hypothesis Hbase : plainp (cd_base d) = true.
  Hypothesis Hname : valid_name name = true.
  Hypothesis Hv : plainp v = true.
  Hypothesis Hout : forall q, v <> cd_base d ++ q.
  Hypothesis Hnanc : forall q, cd_base d <> v ++ q.

  Notation PVD := (Pvd d name v).
  Definition is_publ (c : call) : bool := match c with CLink a b => (path_eqb a v && path_eqb b dst)%bool | _ => false end.
  Definition unl (x : path) (c : call) : bool := match c with CUnlink p => path_eqb p x | _ => false end.

  (** the class of each state: calls that spare both names, plus the unlink of
      the entry (maintenance may evict it) before the link, of the source after *)
  Definition pcls (s : pst) (c : call) : bool :=
    (okm PVD c || unl (match s with Before => dst | _ => v end) c)%bool.

  Definition pp_step (s : pst) (ev : event) : option pst :=
    match ev with
    | EvCall c r =>
        if is_publ c then
          Some (match s with
                | Before => match r with RErr EEXIST => Existed | RErr _ => Before | _ => Linked end
                | _ => s
                end)
        else if pcls s c then Some s else None
    | _ => Some s
    end.

  Lemma pcls_nr s c : rebind_paths c = [] -> pcls s c = true.
  Proof. intros H. unfold pcls. now rewrite (okm_nr PVD c H). Qed.

  Lemma publ_not_pcls s c : pcls s c = true -> is_publ c = false.
  Proof.
    destruct c; try reflexivity. unfold pcls, okm, Pvd. cbn [rebind_paths forallb is_publ unl]. rewrite orb_false_r, andb_true_r.
    destruct (path_eqb q dst); [|now rewrite andb_false_r]. cbn. rewrite !andb_false_r. discriminate.
  Qed.

  Lemma pp_call s c r : pcls s c = true -> exists s', pp_step s (EvCall c r) = Some s' /\ s' = s.
  Proof. intros H. cbn [pp_step]. rewrite (publ_not_pcls s c H), H. eauto. Qed.
  Lemma pp_sil s ev : match ev with EvCall _ _ => True | _ => exists s', pp_step s ev = Some s' /\ s' = s end.
  Proof. destruct ev; cbn; eauto. Qed.

  Lemma pp_class s {A} (p : prog A) Q : allc (pcls s) p Q -> wpv pp_step p (fun a s' => Q a /\ s' = s) s.
  Proof.
    intros H. apply (gclass pp_step (fun s' => s' = s) (pcls s)); [| |exact H|reflexivity].
    - intros s0 c r -> Hc. destruct (pp_call s c r Hc) as (s' & -> & ->). eauto.
    - intros s0 ev ->. pose proof (pp_sil s ev) as Hs. destruct ev; auto. all: destruct Hs as (s' & -> & ->); eauto.
  Qed.

  Lemma pp_fin s : s <> Before -> wpv pp_step (ensure_file_removed v) (fun _ s' => s' = s) s.
  Proof.
    intros Hs. eapply wpv_mono; [|apply (pp_class s _ anyc)]; [intros a s' (_ & ->); reflexivity|].
    apply gc_ensure_file_removed. unfold pcls. cbn [unl]. destruct s; [congruence|..]; rewrite path_eqb_refl; apply orb_true_r.
  Qed.

  Lemma pp_insert s :
    wpv pp_step (insert_or_touch v dst) (fun r s' => (is_ok r = true -> s' <> Before) /\ (s <> Before -> s' = s)) s.
  Proof.
    unfold insert_or_touch. apply wpv_try.
    eapply wpv_mono; [|apply (pp_class s _ _ (gc_move_to_back (pcls s) (pcls_nr s) v))]. intros [u|e|] s1 (_ & ->); [|split; [discriminate|auto]..].
    apply wpv_try. eapply wpv_mono; [|apply (pp_class s _ _ (gc_set_read_only (pcls s) (pcls_nr s) v))]. intros [u1|e|] s1 (_ & ->); [|split; [discriminate|auto]..].
    cbn [bind call1]. apply wpv_call. intros r _.
    assert (Hp : is_publ (CLink v dst) = true) by (cbn [is_publ]; now rewrite !path_eqb_refl).
    cbn [pp_step]. rewrite Hp.
    assert (Hfin : forall s2, s2 <> Before -> (s <> Before -> s2 = s) ->
              wpv pp_step (ensure_file_removed v) (fun r0 s' => (is_ok r0 = true -> s' <> Before) /\ (s <> Before -> s' = s)) s2).
    { intros s2 H2 H3. eapply wpv_mono; [|apply (pp_fin s2 H2)]. intros a s' ->. auto. }
    assert (Htouch : forall s2, s2 <> Before -> (s <> Before -> s2 = s) ->
              wpv pp_step (try (touch dst) (fun _ => ensure_file_removed v)) (fun r0 s' => (is_ok r0 = true -> s' <> Before) /\ (s <> Before -> s' = s)) s2).
    { intros s2 H2 H3. apply wpv_try. eapply wpv_mono; [|apply (pp_class s2 _ _ (gc_touch (pcls s2) (pcls_nr s2) dst))].
      intros [b|e|] s3 (_ & ->); [apply Hfin; assumption|split; [discriminate|exact H3]..]. }
    destruct s.
    - destruct r as [| | | | |er]; try (apply Hfin; [discriminate|congruence]).
      destruct er; try (apply wpv_ret; split; [discriminate|congruence]).
      apply Htouch; [discriminate|congruence].
    - destruct r as [| | | | |er]; try (apply Hfin; [discriminate|auto]).
      destruct er; try (apply wpv_ret; split; [discriminate|auto]). apply Htouch; [discriminate|auto].
    - destruct r as [| | | | |er]; try (apply Hfin; [discriminate|auto]).
      destruct er; try (apply wpv_ret; split; [discriminate|auto]). apply Htouch; [discriminate|auto].
  Qed.

  Lemma Pvd_under n : n <> name -> PVD (cd_base d ++ [n]) = true.
  Proof.
    intros Hn. unfold Pvd. rewrite (Pv_under d v Hout [n] : negb _ = true). cbn. apply negb_true_iff.
    destruct (path_eqb (cd_base d ++ [n]) dst) eqn:He; [|reflexivity]. apply path_eqb_eq, app_inv_head in He. congruence.
  Qed.

  Lemma pcls_mkdir s a b : cd_base d = a ++ b -> pcls s (CMkdir a) = true.
  Proof. intros H. unfold pcls. pose proof (Ps_mkdir d name v Hbase Hname Hv Hout Hnanc true a b H) as Hm. cbn [Ps] in Hm. rewrite Hm. reflexivity. Qed.

  Theorem pp_cd_put : wpv pp_step (cd_put d name v) (fun r s' => is_ok r = true -> s' <> Before) Before.
  Proof.
    unfold cd_put, cd_publish. rewrite (validate_ok name Hname). apply wpv_try.
    eapply wpv_mono; [|apply (g_maybe_cleanup pp_step (fun s' => s' = Before) (pcls Before) (pcls_nr Before))].
    - intros [ret|e|] s1 ->; [|discriminate..].
      apply wpv_bind. eapply wpv_mono; [|apply (pp_insert Before)]. intros r s2 (Hok & _).
      destruct r as [u|e|]; [apply wpv_ret; intros _; apply Hok; reflexivity|..].
      all: apply wpv_try; rewrite removelast_last;
        (eapply wpv_mono; [|apply (pp_class s2 _ _ (gc_create_dir_all (pcls s2) (pcls_nr s2) (cd_base d) (pcls_mkdir s2)))]);
        intros [u|e2|] s3 (_ & ->); try discriminate;
        apply wpv_try; (eapply wpv_mono; [|apply (pp_insert s2)]); intros [u2|e3|] s4 (Hok2 & _); try discriminate;
        apply wpv_ret; intros _; apply Hok2; reflexivity.
    - intros s0 c r -> Hc. destruct (pp_call Before c r Hc) as (s' & -> & ->). eauto.
    - intros s0 ev ->. pose proof (pp_sil Before ev) as Hs. destruct ev; auto. all: destruct Hs as (s' & -> & ->); eauto.
    - intros n Hn. unfold pcls. destruct (string_dec n name) as [->|Hne]; [cbn [unl]; rewrite path_eqb_refl; apply orb_true_r|].
      rewrite (okm_unlink_base d Hbase PVD n Hn (Pvd_under n Hne)). reflexivity.
    - intros n Hn. unfold pcls. rewrite (okm_unlink_temp d Hbase PVD n Hn); [reflexivity|].
      unfold Pvd, cd_temp. rewrite <- app_assoc. rewrite (Pv_under d v Hout _ : negb _ = true). cbn. apply negb_true_iff.
      destruct (path_eqb _ dst) eqn:He; [|reflexivity]. apply path_eqb_eq, app_inv_head in He. discriminate.
    - reflexivity.
  Qed.

  (** ** meaning of the states *)
  Variable i0 : nat.           (* the inode the source names *)
  Variable j0 : option nat.    (* what the key's name was bound to when the call started *)

  Definition pp_inv (s : pst) (f : fs) : Prop :=
    match s with
    | Before => name_of f v = Some i0 /\ (name_of f dst = j0 \/ name_of f dst = None)
    | Linked => name_of f dst = Some i0
    | Existed => name_of f dst = j0 /\ j0 <> None
    end.

  Lemma pp_inv_step s ev s' f f' : pp_step s ev = Some s' -> astep f ev f' -> names_plain f -> pp_inv s f -> pp_inv s' f'.
  Proof.
    intros Hm Ha _ HI. pose proof (astep_step1 _ _ _ Ha) as H1.
    pose proof (v_ne_dst d name v Hout) as Hvd. pose proof (dst_plain d name Hbase Hname) as Hdp.
    destruct ev as [c r|t|wt b|n x|fr|tg pl]; cbn [pp_step] in Hm.
    2-6: injection Hm as <-; destruct s; cbn [pp_inv] in *; rewrite !(step1_spares _ _ _ _ H1 I); exact HI.
    destruct Ha as (e & -> & Hr).
    destruct (is_publ c) eqn:Hp.
    - destruct c; try discriminate. cbn [is_publ] in Hp. apply andb_true_iff in Hp. destruct Hp as (Hpa & Hpb).
      apply path_eqb_eq in Hpa. apply path_eqb_eq in Hpb. subst p q. injection Hm as <-.
      pose proof (sem_res_unit f e (CLink v dst)) as Hu. change (snd (sem f e (CLink v dst)) = ROk \/ exists er, snd (sem f e (CLink v dst)) = RErr er) in Hu.
      destruct Hu as [Hu|(er & Hu)].
      + destruct (link_effect f e v dst Hv Hdp Hu) as (Hd & Hn & Habs). rewrite Hu in Hr. subst r.
        destruct s; cbn [pp_inv] in *.
        * destruct HI as (Hv0 & _). rewrite Hd. exact Hv0.
        * congruence.
        * destruct HI as (Hj & Hj0). congruence.
      + rewrite Hu in Hr. subst r. assert (Hsame : forall x, name_of (fst (sem f e (CLink v dst))) x = name_of f x) by (intros x; eapply sem_err_names; exact Hu).
        destruct s; cbn [pp_inv] in *; rewrite ?Hsame; try exact HI.
        destruct er; cbn [pp_inv]; rewrite ?Hsame; try exact HI.
        destruct HI as (Hv0 & Hd).
        assert (Hne : name_of f dst <> None).
        { apply (link_eexist f e v dst Hdp); [destruct (cd_base d); discriminate|exact Hu]. }
        destruct Hd as [Hd|Hd]; [|contradiction]. split; [exact Hd|congruence].
    - destruct (pcls s c) eqn:Hc; [|discriminate]. injection Hm as <-. unfold pcls in Hc. apply orb_true_iff in Hc. destruct Hc as [Hc|Hc].
      + destruct (okm_and _ _ c Hc) as (Hc1 & Hc2).
        destruct s; cbn [pp_inv] in *; rewrite ?(sem_spares f e c dst Hc2), ?(sem_spares f e c v Hc1); exact HI.
      + destruct c; try discriminate. cbn [unl] in Hc. apply path_eqb_eq in Hc.
        assert (Hother : forall x, plainp p = true -> p <> x -> name_of (fst (sem f e (CUnlink p))) x = name_of f x).
        { intros x Hpp Hpx. apply sem_spares. unfold spares. cbn [rebind_paths forallb]. rewrite Hpp. cbn. rewrite andb_true_r. apply negb_true_iff.
          destruct (path_eqb p x) eqn:He; [apply path_eqb_eq in He; contradiction|reflexivity]. }
        destruct s; subst p; cbn [pp_inv] in *.
        * destruct HI as (Hv0 & Hd). rewrite (Hother v Hdp (fun H => Hvd (eq_sym H))). split; [exact Hv0|].
          pose proof (sem_res_unit f e (CUnlink dst)) as Hu. change (snd (sem f e (CUnlink dst)) = ROk \/ exists er, snd (sem f e (CUnlink dst)) = RErr er) in Hu. destruct Hu as [Hu|(er & Hu)].
          -- right. apply unlink_effect; assumption.
          -- rewrite (sem_err_names f e _ er dst Hu). exact Hd.
        * rewrite (Hother dst Hv Hvd). exact HI.
        * rewrite (Hother dst Hv Hvd). exact HI.
  Qed.

  (** A plain [put] that reports success leaves the key's name bound either to
      the inode its source named, or to exactly what it was bound to before the
      call (and then it was bound): it never changes an existing entry.
      (No fault oracle: an injected EEXIST would be a lie about the directory.) *)
  Theorem plain_put_binds w o : o_fault o = None -> names_plain (w_fs w) ->
    name_of (w_fs w) v = Some i0 -> name_of (w_fs w) dst = j0 ->
    let '(r, w', _, _) := run (cd_put d name v) w o in
    is_ok r = true ->
    name_of (w_fs w') dst = Some i0 \/ (name_of (w_fs w') dst = j0 /\ j0 <> None).
  Proof.
    intros Hnf Hpl Hv0 Hj.
    pose proof (sane_run_nf pp_step (cd_put d name v) _ Before pp_inv pp_cd_put pp_inv_step w o Hnf Hpl (conj Hv0 (or_introl Hj))) as H.
    destruct (run (cd_put d name v) w o) as [[[r w'] o'] tr]. destruct H as (s' & HQ & HI & _).
    intros Hok. specialize (HQ Hok). destruct s'; [congruence|left; exact HI|right; exact HI].
  Qed.
End PlainPut.

(** * A plain cache directory: get *)
Lemma fd_calls_keep_fds f e c k :
  match c with CFstat _ | CFutimens _ _ _ => fdino (fst (sem f e c)) k = fdino f k | _ => True end.
Proof. destruct c; try exact I; cbn [sem]; unfold with_inode; sem_split; cbn [fst snd]; autorewrite with fseff; reflexivity. Qed.

Section PlainGet.
  Variable d : cdir.
  Variable name : string.
  Notation dst := (cd_base d ++ [name]).
  Hypothesis Hbase : plainp (cd_base d) = true.
  Hypothesis Hname : valid_name name = true.

  Definition fd_only (c : call) : bool := match c with CFstat _ | CFutimens _ _ _ => true | _ => false end.

  (** state: the answer the open received *)
  Definition pg_step (s : option res) (ev : event) : option (option res) :=
    match s with
    | None => match ev with
              | EvCall (COpen p RDONLY) r => if path_eqb p dst then Some (Some r) else None
              | _ => None
              end
    | Some _ => match ev with EvCall c _ => if fd_only c then Some s else None | _ => Some s end
    end.

  Lemma pg_touched fd r0 : wpv pg_step (ensure_file_touched fd) (fun _ s' => s' = Some r0) (Some r0).
  Proof.
    eapply wpv_mono; [|apply (gclass pg_step (fun s' => s' = Some r0) fd_only) with (Q := anyc)]; [intros a s' (_ & ->); reflexivity| | | |reflexivity].
    - intros s c r -> Hc. cbn [pg_step]. rewrite Hc. eauto.
    - intros s ev ->. destruct ev; cbn; eauto.
    - unfold ensure_file_touched, try, stat_call, unit_call. allc_auto; apply allc_call; reflexivity.
  Qed.

  Theorem pg_cd_get :
    wpv pg_step (cd_get d name)
        (fun r s' => exists r0, s' = Some r0 /\
                     match r with Ok (Some fd) => r0 = RFd fd | Ok None => exists e, r0 = RErr e | _ => True end) None.
  Proof.
    unfold cd_get. rewrite (validate_ok name Hname). cbn [bind call1]. apply wpv_call. intros r _.
    cbn [pg_step]. rewrite path_eqb_refl.
    destruct r as [|fd| | | |e]; try (apply wpv_ret; eexists; split; [reflexivity|exact I]).
    - apply wpv_bind. eapply wpv_mono; [|apply pg_touched]. intros a s' ->. apply wpv_ret. eexists. split; reflexivity.
    - apply wpv_ret. eexists. split; [reflexivity|]. destruct (is_absent (OsErr e)); [eauto|exact I].
  Qed.

  Variable f0 : fs.
  Definition pg_inv (s : option res) (f : fs) : Prop :=
    match s with
    | None => f = f0
    | Some r0 => (forall x, name_of f x = name_of f0 x) /\
                 match r0 with RFd fd => fdino f fd = name_of f0 dst /\ name_of f0 dst <> None | _ => True end
    end.

  Lemma pg_inv_step s ev s' f f' : pg_step s ev = Some s' -> step1 f ev f' -> names_plain f -> pg_inv s f -> pg_inv s' f'.
  Proof.
    intros Hm H1 _ HI. pose proof (dst_plain d name Hbase Hname) as Hdp. destruct s as [r0|].
    - destruct ev as [c r|t|wt b|n x|fr|tg pl]; cbn [pg_step] in Hm.
      2-6: injection Hm as <-; destruct HI as (Hn & Hr); split; [intros y; rewrite (step1_spares _ _ _ y H1 I); apply Hn|];
           destruct r0; auto; cbn [step1] in H1; subst f'; try exact Hr; autorewrite with fseff; exact Hr.
      destruct (fd_only c) eqn:Hc; [|discriminate]. injection Hm as <-. destruct HI as (Hn & Hr).
      assert (Hsp : forall y, spares y c = true) by (intros y; destruct c; try discriminate; reflexivity).
      split; [intros y; rewrite (step1_spares _ _ _ y H1 (Hsp y)); apply Hn|].
      destruct r0 as [|fd| | | |]; auto. destruct Hr as (Hfd & Hne). split; [|exact Hne]. rewrite <- Hfd.
      cbn [step1] in H1. destruct H1 as [(e & -> & _)|(er & _ & [->|(Hcl & _)])]; [|reflexivity|destruct c; discriminate].
      pose proof (fd_calls_keep_fds f e c fd) as Hk. destruct c; try discriminate; exact Hk.
    - cbn [pg_inv] in HI. subst f. destruct ev as [c r| | | | | ]; cbn [pg_step] in Hm; try discriminate.
      destruct c; try discriminate. destruct a; try discriminate. destruct (path_eqb p dst) eqn:Hp; [|discriminate]. apply path_eqb_eq in Hp. subst p.
      injection Hm as <-. cbn [pg_inv]. split; [intros y; apply (step1_spares _ _ _ y H1); reflexivity|].
      destruct r as [|fd| | | |]; auto.
      apply step1_ok in H1; [|discriminate]. destruct H1 as (e & -> & Hr). symmetry in Hr. apply (open_effect f0 e dst RDONLY fd Hdp Hr).
  Qed.

  (** A lookup changes no binding; when it hits, the descriptor it returns is
      on the inode the key's name was bound to when the call started. *)
  Theorem plain_get_reads w o : w_fs w = f0 -> names_plain f0 ->
    let '(r, w', _, _) := run (cd_get d name) w o in
    (forall x, name_of (w_fs w') x = name_of f0 x) /\
    (forall fd, r = Ok (Some fd) -> fdino (w_fs w') fd = name_of f0 dst /\ name_of f0 dst <> None).
  Proof.
    intros Hw Hpl.
    pose proof (sane_run pg_step (cd_get d name) _ None pg_inv pg_cd_get pg_inv_step w o ltac:(rewrite Hw; exact Hpl) Hw) as H.
    destruct (run (cd_get d name) w o) as [[[r w'] o'] tr]. destruct H as (s' & (r0 & -> & HQ) & HI & _).
    cbn [pg_inv] in HI. destruct HI as (Hn & Hr). split; [exact Hn|]. intros fd ->. subst r0. exact Hr.
  Qed.

  (** Without a fault oracle, a miss means the name was not bound (the cache
      directory exists and the binding is not dangling). *)
  Definition pg_inv_nf (s : option res) (f : fs) : Prop :=
    match s with
    | None => f = f0
    | Some r0 => exists e, r0 = snd (sem f0 e (COpen dst RDONLY))
    end.

  Lemma pg_inv_nf_step s ev s' f f' : pg_step s ev = Some s' -> astep f ev f' -> names_plain f -> pg_inv_nf s f -> pg_inv_nf s' f'.
  Proof.
    intros Hm Ha _ HI. destruct s as [r0|].
    - destruct ev as [c r| | | | | ]; cbn [pg_step] in Hm; try (injection Hm as <-; exact HI).
      destruct (fd_only c); [|discriminate]. injection Hm as <-. exact HI.
    - cbn [pg_inv_nf] in HI. subst f. destruct ev as [c r| | | | | ]; cbn [pg_step] in Hm; try discriminate.
      destruct c; try discriminate. destruct a; try discriminate. destruct (path_eqb p dst) eqn:Hp; [|discriminate]. apply path_eqb_eq in Hp. subst p.
      injection Hm as <-. destruct Ha as (e & _ & Hr). exists e. exact Hr.
  Qed.

  Theorem plain_get_miss w o : w_fs w = f0 -> o_fault o = None -> names_plain f0 ->
    resolve f0 dst = inl dst -> (forall i, name_of f0 dst = Some i -> inode_of f0 i <> None) ->
    let '(r, _, _, _) := run (cd_get d name) w o in
    r = Ok None -> name_of f0 dst = None.
  Proof.
    intros Hw Hnf Hpl Hres Hnd.
    pose proof (sane_run_nf pg_step (cd_get d name) _ None pg_inv_nf pg_cd_get pg_inv_nf_step w o Hnf ltac:(rewrite Hw; exact Hpl) Hw) as H.
    destruct (run (cd_get d name) w o) as [[[r w'] o'] tr]. destruct H as (s' & (r0 & -> & HQ) & HI & _).
    intros ->. destruct HQ as (er & ->). destruct HI as (e & He). revert He. cbn [sem]. rewrite Hres. unfold with_inode.
    destruct (name_of f0 dst) as [i|] eqn:Hi; [|reflexivity]. specialize (Hnd i eq_refl).
    destruct (inode_of f0 i) as [x|]; [|congruence].
    destruct (i_dir x && false)%bool eqn:Hd; [rewrite andb_false_r in Hd; discriminate|].
    rewrite (alloc_fd_eq f0). cbn [snd]. discriminate.
  Qed.
End PlainGet.

(** * Every other entry keeps its binding or disappears *)
Section Others.
  Variable d : cdir.
  Variable name : string.
  Variable v : path.
  Notation dst := (cd_base d ++ [name]).
  Hypothesis Hbase : plainp (cd_base d) = true.
  Hypothesis Hname : valid_name name = true.
  Hypothesis Hv : plainp v = true.

  (** what a write may do to names: unlink anything plain, rename or link only
      its source onto its destination, create directories only above the entries *)
  Definition wr_ok (c : call) : bool :=
    match c with
    | CUnlink p => plainp p
    | CRename p q | CLink p q => (path_eqb p v && path_eqb q dst)%bool
    | CMkdir p => (plainp p && Nat.leb (List.length p) (List.length (cd_base d)))%bool
    | _ => match rebind_paths c with [] => true | _ => false end
    end.

  Lemma wr_nr c : rebind_paths c = [] -> wr_ok c = true.
  Proof. destruct c; cbn; try discriminate; reflexivity. Qed.

  Definition o_step (s : unit) (ev : event) : option unit :=
    match ev with EvCall c _ => if wr_ok c then Some tt else None | _ => Some tt end.

  Lemma o_class {A} (p : prog A) Q : allc wr_ok p Q -> wpv o_step p (fun a _ => Q a) tt.
  Proof.
    intros H. eapply wpv_mono; [|apply (gclass o_step (fun _ => True) wr_ok)]; [intros a s' (Ha & _); exact Ha| | |exact H|exact I].
    - intros [] c r _ Hc. cbn [o_step]. rewrite Hc. eauto.
    - intros [] ev _. destruct ev; cbn; eauto.
  Qed.

  Lemma wr_insert (which : bool) : allc wr_ok ((if which then insert_or_update else insert_or_touch) v dst) anyc.
  Proof.
    assert (Hp : forall c, c = CRename v dst \/ c = CLink v dst -> wr_ok c = true) by (intros c [->| ->]; cbn [wr_ok]; now rewrite !path_eqb_refl).
    assert (Hu : wr_ok (CUnlink v) = true) by exact Hv.
    pose proof (gc_move_to_back wr_ok wr_nr v) as H1. pose proof (gc_set_read_only wr_ok wr_nr v) as H2.
    pose proof (gc_ensure_file_removed wr_ok v Hu) as H3. pose proof (gc_touch wr_ok wr_nr dst) as H4.
    pose proof (Hp _ (or_introl eq_refl)) as H5. pose proof (Hp _ (or_intror eq_refl)) as H6.
    destruct which; unfold insert_or_update, insert_or_touch, try, unit_call; allc_auto; apply allc_call; assumption.
  Qed.

  Theorem o_cd_publish (which : bool) : wpv o_step (cd_publish (if which then insert_or_update else insert_or_touch) d name v) (fun _ _ => True) tt.
  Proof.
    unfold cd_publish. rewrite (validate_ok name Hname). apply wpv_try.
    eapply wpv_mono; [|apply (g_maybe_cleanup o_step (fun _ => True) wr_ok wr_nr)].
    - intros [ret|e|] [] _; [|exact I..].
      eapply wpv_mono; [|apply (o_class _ anyc)]; [auto|].
      pose proof (wr_insert which) as Hi.
      assert (Hc : allc wr_ok (create_dir_all (removelast dst)) anyc).
      { rewrite removelast_last. apply (gc_create_dir_all wr_ok wr_nr (cd_base d)). intros a b Hab. cbn [wr_ok].
        assert (Hpa : plainp a = true) by (rewrite Hab, plainp_app in Hbase; apply andb_true_iff in Hbase; tauto).
        rewrite Hpa. cbn. apply Nat.leb_le. rewrite Hab, app_length. lia. }
      unfold try. allc_auto.
    - intros [] c r _ Hc. cbn [o_step]. rewrite Hc. eauto.
    - intros [] ev _. destruct ev; cbn; eauto.
    - intros n Hn. cbn [wr_ok]. rewrite plainp_app, Hbase. cbn. now rewrite Hn.
    - intros n Hn. cbn [wr_ok]. unfold cd_temp. rewrite !plainp_app, Hbase. cbn. now rewrite Hn.
    - exact I.
  Qed.

  Variable f0 : fs.
  Definition o_inv (_ : unit) (f : fs) : Prop :=
    forall n, n <> name -> name_of f (cd_base d ++ [n]) = name_of f0 (cd_base d ++ [n]) \/ name_of f (cd_base d ++ [n]) = None.

  Lemma o_inv_step s ev s' f f' : o_step s ev = Some s' -> step1 f ev f' -> names_plain f -> o_inv s f -> o_inv s' f'.
  Proof.
    intros Hm H1 _ HI n Hn. specialize (HI n Hn). set (x := cd_base d ++ [n]) in *.
    destruct ev as [c r|t|wt b|m x0|fr|tg pl]; cbn [o_step] in Hm.
    2-6: rewrite (step1_spares _ _ _ x H1 I); exact HI.
    destruct (wr_ok c) eqn:Hc; [|discriminate].
    assert (Hxd : x <> dst) by (unfold x; intros He; apply app_inv_head in He; congruence).
    assert (Hkeep : spares x c = true -> name_of f' x = name_of f0 x \/ name_of f' x = None) by (intros Hs; rewrite (step1_spares _ _ _ x H1 Hs); exact HI).
    destruct c; try (apply Hkeep; reflexivity); cbn [wr_ok] in Hc; try discriminate Hc.
    - (* rename v dst *) apply andb_true_iff in Hc. destruct Hc as (Ha & Hb). apply path_eqb_eq in Ha. apply path_eqb_eq in Hb. subst p q.
      destruct (path_eq_dec v x) as [->|Hvx].
      + (* the source is itself an entry: it keeps its binding or vanishes *)
        destruct r as [| | | | |er]; try (rewrite (step1_err _ _ _ _ x H1); exact HI).
        all: apply step1_ok in H1; [|discriminate]; destruct H1 as (e & -> & Hr); symmetry in Hr;
          pose proof (sem_res_unit f e (CRename x dst)) as Hu; change (snd (sem f e (CRename x dst)) = ROk \/ exists er, snd (sem f e (CRename x dst)) = RErr er) in Hu;
          destruct Hu as [Hu|(er & Hu)]; try congruence;
          destruct (rename_source f e x dst Hv (dst_plain d name Hbase Hname) Hxd Hu) as [Hs|Hs]; first [right; exact Hs|rewrite Hs; exact HI].
      + apply Hkeep. unfold spares. cbn [rebind_paths forallb]. rewrite Hv, (dst_plain d name Hbase Hname). cbn. rewrite andb_true_r.
        apply andb_true_iff. split; apply negb_true_iff; [destruct (path_eqb v x) eqn:He|destruct (path_eqb dst x) eqn:He]; try reflexivity; apply path_eqb_eq in He; congruence.
    - (* link v dst *) apply andb_true_iff in Hc. destruct Hc as (_ & Hb). apply path_eqb_eq in Hb. subst q.
      apply Hkeep. unfold spares. cbn [rebind_paths forallb]. rewrite (dst_plain d name Hbase Hname). cbn. rewrite andb_true_r.
      apply negb_true_iff. destruct (path_eqb dst x) eqn:He; [apply path_eqb_eq in He; congruence|reflexivity].
    - (* unlink p *) destruct (path_eq_dec p x) as [->|Hpx].
      + destruct r as [| | | | |er]; try (rewrite (step1_err _ _ _ _ x H1); exact HI).
        all: apply step1_ok in H1; [|discriminate]; destruct H1 as (e & -> & Hr); symmetry in Hr;
          pose proof (sem_res_unit f e (CUnlink x)) as Hu; change (snd (sem f e (CUnlink x)) = ROk \/ exists er, snd (sem f e (CUnlink x)) = RErr er) in Hu;
          destruct Hu as [Hu|(er & Hu)]; try congruence; right; apply unlink_effect; assumption.
      + apply Hkeep. unfold spares. cbn [rebind_paths forallb]. rewrite Hc. cbn. rewrite andb_true_r.
        apply negb_true_iff. destruct (path_eqb p x) eqn:He; [apply path_eqb_eq in He; congruence|reflexivity].
    - (* mkdir above the entries *) apply andb_true_iff in Hc. destruct Hc as (Hp & Hl). apply Nat.leb_le in Hl.
      apply Hkeep. unfold spares. cbn [rebind_paths forallb]. rewrite Hp. cbn. rewrite andb_true_r.
      apply negb_true_iff. destruct (path_eqb p x) eqn:He; [|reflexivity]. apply path_eqb_eq in He. subst p. unfold x in Hl. rewrite app_length in Hl. cbn in Hl. lia.
  Qed.

  (** A plain [set] or [put], successful or not, faulted or not: every other
      entry of the directory is bound as before or is gone. *)
  Theorem others_keep_or_vanish (which : bool) w o : w_fs w = f0 -> names_plain f0 ->
    let '(_, w', _, _) := run (cd_publish (if which then insert_or_update else insert_or_touch) d name v) w o in
    forall n, n <> name ->
      name_of (w_fs w') (cd_base d ++ [n]) = name_of f0 (cd_base d ++ [n]) \/ name_of (w_fs w') (cd_base d ++ [n]) = None.
  Proof.
    intros Hw Hpl.
    pose proof (sane_run o_step _ _ tt o_inv (o_cd_publish which) o_inv_step w o ltac:(rewrite Hw; exact Hpl) ltac:(intros n _; left; rewrite Hw; reflexivity)) as H.
    destruct (run _ w o) as [[[r w'] o'] tr]. destruct H as ([] & _ & HI & _). exact HI.
  Qed.

  (** The same for ANY program whose calls the monitor accepts (the stack-level
      front ends wrap the directory-level publication in further calls). *)
  Theorem others_gen {A} (p : prog A) Q w o : wpv o_step p Q tt -> w_fs w = f0 -> names_plain f0 ->
    let '(_, w', _, _) := run p w o in
    forall n, n <> name ->
      name_of (w_fs w') (cd_base d ++ [n]) = name_of f0 (cd_base d ++ [n]) \/ name_of (w_fs w') (cd_base d ++ [n]) = None.
  Proof.
    intros Hp Hw Hpl.
    pose proof (sane_run o_step p Q tt o_inv Hp o_inv_step w o ltac:(rewrite Hw; exact Hpl) ltac:(intros n _; left; rewrite Hw; reflexivity)) as H.
    destruct (run p w o) as [[[r w'] o'] tr]. destruct H as ([] & _ & HI & _). exact HI.
  Qed.
End Others.

(** * The same through the stack API, for a plain write cache *)
Section StackPlain.
  Variable cfg : stack_cfg.
  Variable dir : path.
  Variable cap : N.
  Hypothesis Hw : s_writer cfg = Some (FPlain dir cap).
  Variable k : key.
  Variable v : path.
  Notation d := (plain_cdir dir cap).
  Notation dst := (dir ++ [k_name k]).
  Hypothesis Hbase : plainp dir = true.
  Hypothesis Hname : valid_name (k_name k) = true.
  Hypothesis Hv : plainp v = true.
  Hypothesis Hout : forall q, v <> dir ++ q.
  Hypothesis Hnanc : forall q, dir <> v ++ q.

  Lemma ps_cache_set : wpv (ps_step d (k_name k) v) (cache_set cfg k v) (fun r s' => is_ok r = true -> s' = true) false.
  Proof.
    unfold cache_set. apply wpv_try.
    eapply wpv_mono; [|apply (ps_class d (k_name k) v false _ _ (gc_maybe_sync_path (okm (Ps d (k_name k) v false)) (okm_nr _) cfg v))].
    intros [u|e|] s1 (_ & ->); try discriminate.
    unfold write_impl. rewrite Hw. cbn [f_set]. unfold drop_opt. apply wpv_try.
    eapply wpv_mono; [|apply (ps_cd_set d (k_name k) v Hbase Hname Hv Hout Hnanc)].
    intros [x|e|] s2 Hok; try discriminate. apply wpv_ret. intros _. apply Hok. reflexivity.
  Qed.

  Theorem cache_set_binds i0 w o : names_plain (w_fs w) -> name_of (w_fs w) v = Some i0 ->
    let '(r, w', _, _) := run (cache_set cfg k v) w o in
    is_ok r = true -> name_of (w_fs w') dst = Some i0.
  Proof.
    intros Hpl Hv0.
    pose proof (sane_run (ps_step d (k_name k) v) (cache_set cfg k v) _ false (ps_inv d (k_name k) v i0) ps_cache_set
                  (ps_inv_step d (k_name k) v Hbase Hname Hv Hout i0) w o Hpl Hv0) as H.
    destruct (run (cache_set cfg k v) w o) as [[[r w'] o'] tr]. destruct H as (s' & HQ & HI & _).
    intros Hok. rewrite (HQ Hok) in HI. exact (proj1 HI).
  Qed.

  Lemma pp_cache_put : wpv (pp_step d (k_name k) v) (cache_put cfg k v) (fun r s' => is_ok r = true -> s' <> Before) Before.
  Proof.
    unfold cache_put. apply wpv_try.
    eapply wpv_mono; [|apply (pp_class d (k_name k) v Before _ _ (gc_maybe_sync_path (pcls d (k_name k) v Before) (pcls_nr d (k_name k) v Before) cfg v))].
    intros [u|e|] s1 (_ & ->); try discriminate.
    unfold write_impl. rewrite Hw. cbn [f_put]. unfold drop_opt. apply wpv_try.
    eapply wpv_mono; [|apply (pp_cd_put d (k_name k) v Hbase Hname Hv Hout Hnanc)].
    intros [x|e|] s2 Hok; try discriminate. apply wpv_ret. intros _. apply Hok. reflexivity.
  Qed.

  Theorem cache_put_binds i0 j0 w o : o_fault o = None -> names_plain (w_fs w) ->
    name_of (w_fs w) v = Some i0 -> name_of (w_fs w) dst = j0 ->
    let '(r, w', _, _) := run (cache_put cfg k v) w o in
    is_ok r = true -> name_of (w_fs w') dst = Some i0 \/ (name_of (w_fs w') dst = j0 /\ j0 <> None).
  Proof.
    intros Hnf Hpl Hv0 Hj.
    pose proof (sane_run_nf (pp_step d (k_name k) v) (cache_put cfg k v) _ Before (pp_inv d (k_name k) v i0 j0) pp_cache_put
                  (pp_inv_step d (k_name k) v Hbase Hname Hv Hout Hnanc i0 j0) w o Hnf Hpl (conj Hv0 (or_introl Hj))) as H.
    destruct (run (cache_put cfg k v) w o) as [[[r w'] o'] tr]. destruct H as (s' & HQ & HI & _).
    intros Hok. specialize (HQ Hok). destruct s'; [congruence|left; exact HI|right; exact HI].
  Qed.
End StackPlain.

(** * Sequential composition: a lookup after a successful set *)
Theorem set_then_get d name v i0 w o o2 :
  plainp (cd_base d) = true -> valid_name name = true -> plainp v = true ->
  (forall q, v <> cd_base d ++ q) -> (forall q, cd_base d <> v ++ q) ->
  names_plain (w_fs w) -> name_of (w_fs w) v = Some i0 ->
  let '(r, w1, _, _) := run (cd_set d name v) w o in
  is_ok r = true ->
  let '(r2, w2, _, _) := run (cd_get d name) w1 o2 in
  (forall fd, r2 = Ok (Some fd) -> fdino (w_fs w2) fd = Some i0) /\
  (o_fault o2 = None -> resolve (w_fs w1) (cd_base d ++ [name]) = inl (cd_base d ++ [name]) ->
   inode_of (w_fs w1) i0 <> None -> r2 <> Ok None).
Proof.
  intros Hbase Hname Hv Hout Hnanc Hpl Hv0.
  pose proof (plain_set_binds d name v Hbase Hname Hv Hout Hnanc i0 w o Hpl Hv0) as Hset.
  pose proof (run_names_plain (cd_set d name v) w o Hpl) as Hpl1.
  destruct (run (cd_set d name v) w o) as [[[r w1] o1] tr1]. intros Hok. destruct (Hset Hok) as (Hd & _).
  pose proof (plain_get_reads d name Hbase Hname (w_fs w1) w1 o2 eq_refl Hpl1) as Hget.
  pose proof (fun Hnf Hres Hnd => plain_get_miss d name Hname (w_fs w1) w1 o2 eq_refl Hnf Hpl1 Hres Hnd) as Hmiss.
  destruct (run (cd_get d name) w1 o2) as [[[r2 w2] o3] tr2]. destruct Hget as (_ & Hfd). split.
  - intros fd Hr. destruct (Hfd fd Hr) as (H1 & _). rewrite H1. exact Hd.
  - intros Hnf Hres Hino Hr. rewrite Hd in Hmiss. specialize (Hmiss Hnf Hres). 
    assert (Hn : Some i0 = None) by (apply Hmiss; [intros i Hi; injection Hi as <-; exact Hino|exact Hr]). discriminate.
Qed.

(** * A sharded cache: set *)
Lemma hex_digit_noslash dg : (dg < 16)%N -> Ascii.eqb (hex_digit dg) "/"%char = false.
Proof.
  intros H. assert (Hin : In dg (map N.of_nat (seq 0 16))).
  { apply in_map_iff. exists (N.to_nat dg). split; [apply N2Nat.id|apply in_seq; lia]. }
  assert (Hall : forallb (fun x => negb (Ascii.eqb (hex_digit x) "/"%char)) (map N.of_nat (seq 0 16)) = true) by (vm_compute; reflexivity).
  rewrite forallb_forall in Hall. apply negb_true_iff. apply Hall, Hin.
Qed.

Lemma has_slash_app a b : has_slash (a ++ b)%string = (has_slash a || has_slash b)%bool.
Proof. induction a as [|c a IH]; cbn [append has_slash]; [reflexivity|]. rewrite IH. apply orb_assoc. Qed.

Lemma has_slash_list l : Forall (fun c => Ascii.eqb c "/"%char = false) l -> has_slash (string_of_list l) = false.
Proof. induction 1 as [|c l Hc _ IH]; cbn [string_of_list has_slash]; [reflexivity|]. now rewrite Hc, IH. Qed.

Lemma hex_rev_noslash fuel : forall x, Forall (fun c => Ascii.eqb c "/"%char = false) (hex_rev fuel x).
Proof.
  induction fuel as [|fuel IH]; intros x; cbn [hex_rev]; [constructor|].
  destruct (x =? 0)%N; [constructor|]. constructor; [apply hex_digit_noslash, N.mod_lt; discriminate|apply IH].
Qed.

Theorem plain_format_id x : plain_comp (format_id x) = true.
Proof.
  assert (Hs : has_slash (format_id x) = false).
  { unfold format_id. rewrite has_slash_app. replace (has_slash Gen.Constants.SHARD_PREFIX) with false by reflexivity. cbn [orb].
    apply has_slash_list. unfold hex_digits. apply Forall_app. split.
    - apply Forall_forall. intros c Hc. apply repeat_spec in Hc. subst c. reflexivity.
    - apply Forall_rev, hex_rev_noslash. }
  assert (Hk : exists s, format_id x = String "."%char (String "k"%char s)) by (eexists; reflexivity).
  destruct Hk as (s & Hk). unfold plain_comp. rewrite Hs, Hk. reflexivity.
Qed.

Inductive sst := Unprobed | Chosen (sid : N) (st : option bool).

Section ShardedSet.
  Variable dir : path.
  Variable nsh total : N.
  Variable k : key.
  Variable v : path.
  Notation name := (k_name k).
  Notation dcd := (shard_cdir dir nsh total).
  Notation dstp sid := (cd_base (dcd sid) ++ [name]).
  Hypothesis Hdir : plainp dir = true.
  Hypothesis Hname : valid_name name = true.
  Hypothesis Hv : plainp v = true.
  Hypothesis Hout : forall q, v <> dir ++ q.
  Hypothesis Hnanc : forall q, dir <> v ++ q.
  Variable ida idb : N.      (* the key's two shards *)
  Hypothesis Hab : format_id ida <> format_id idb.

  Lemma dcd_base sid : cd_base (dcd sid) = dir ++ [format_id sid]. Proof. reflexivity. Qed.
  Lemma dcd_plain sid : plainp (cd_base (dcd sid)) = true.
  Proof. rewrite dcd_base, plainp_app, Hdir. cbn [plainp forallb andb]. now rewrite plain_format_id. Qed.
  Lemma dcd_out sid q : v <> cd_base (dcd sid) ++ q.
  Proof. rewrite dcd_base, <- app_assoc. apply Hout. Qed.
  Lemma dcd_nanc sid q : cd_base (dcd sid) <> v ++ q.
  Proof.
    rewrite dcd_base. intros H. destruct q as [|x q] using rev_ind.
    - rewrite app_nil_r in H. apply (Hout [format_id sid]). symmetry. exact H.
    - rewrite app_assoc in H. apply app_inj_tail in H. destruct H as (H & _). exact (Hnanc _ H).
  Qed.

  Definition is_rstat (r : res) : bool := match r with RStat _ => true | _ => false end.
  Definition scls (sid : N) (c : call) : bool := (okm (Pvd (dcd sid) name v) c || unl (dstp sid) c)%bool.

  Definition ss_step (s : sst) (ev : event) : option sst :=
    match s with
    | Unprobed =>
        match ev with
        | EvCall (CStat p true) r =>
            if path_eqb p (dstp ida) then Some (Chosen (if is_rstat r then ida else idb) (Some false))
            else if path_eqb p (dstp idb) then Some (Chosen (if is_rstat r then idb else ida) (Some false))
            else Some Unprobed
        | EvCall c _ => if okm (Pv v) c then Some Unprobed else None
        | _ => Some Unprobed
        end
    | Chosen sid (Some b) =>
        if (b && match ev with EvCall c _ => unl (dstp sid) c | _ => false end)%bool
        then Some (Chosen sid (match ev with EvCall _ r => if accepted r then None else Some true | _ => Some true end))
        else option_map (fun b' => Chosen sid (Some b')) (ps_step (dcd sid) name v b ev)
    | Chosen sid None =>
        match ev with EvCall c _ => if scls sid c then Some s else None | _ => Some s end
    end.

  Lemma v_ne_dstp sid : v <> dstp sid. Proof. apply dcd_out. Qed.

  Lemma ps_to_ss sid b ev b' : ps_step (dcd sid) name v b ev = Some b' -> ss_step (Chosen sid (Some b)) ev = Some (Chosen sid (Some b')).
  Proof.
    intros H. cbn [ss_step].
    assert (Hn : (b && match ev with EvCall c _ => unl (dstp sid) c | _ => false end)%bool = false).
    { destruct b; [|reflexivity]. destruct ev as [c r| | | | | ]; try reflexivity. cbn [andb]. destruct (unl (dstp sid) c) eqn:Hu; [|reflexivity].
      exfalso. destruct c; try discriminate. cbn [unl] in Hu. apply path_eqb_eq in Hu. subst p. cbn [ps_step is_pub] in H.
      unfold okm, Pvd in H. cbn [rebind_paths forallb] in H. rewrite path_eqb_refl in H. cbn [negb] in H. rewrite !andb_false_r in H. cbn [orb] in H.
      destruct (path_eqb (dstp sid) v) eqn:He; [apply path_eqb_eq in He; symmetry in He; exact (v_ne_dstp sid He)|discriminate]. }
    rewrite Hn, H. reflexivity.
  Qed.

  Definition Gpub (sid : N) (s : sst) : Prop := s = Chosen sid (Some true) \/ s = Chosen sid None.

  Lemma scls_nr sid c : rebind_paths c = [] -> scls sid c = true.
  Proof. intros H. unfold scls. now rewrite (okm_nr _ c H). Qed.

  Lemma ss_pub_call sid s c r : Gpub sid s -> scls sid c = true -> exists s', ss_step s (EvCall c r) = Some s' /\ Gpub sid s'.
  Proof.
    intros [-> | ->] Hc; cbn [ss_step].
    - unfold scls in Hc. destruct (unl (dstp sid) c) eqn:Hu; cbn [andb]; [eexists; split; [reflexivity|destruct (accepted r); [right|left]; reflexivity]|].
      rewrite orb_false_r in Hc. destruct (ps_call_true (dcd sid) name v c r Hc) as (s' & -> & ->). cbn. eexists; split; [reflexivity|left; reflexivity].
    - rewrite Hc. eexists; split; [reflexivity|right; reflexivity].
  Qed.
  Lemma ss_pub_sil sid s ev : Gpub sid s -> match ev with EvCall _ _ => True | _ => exists s', ss_step s ev = Some s' /\ Gpub sid s' end.
  Proof. intros [-> | ->]; destruct ev; cbn [ss_step andb ps_step option_map]; try exact I; eexists; (split; [reflexivity|]); first [left; reflexivity|right; reflexivity]. Qed.

  Lemma scls_unlink sid id n : plain_comp n = true ->
    scls sid (CUnlink (cd_base (dcd id) ++ [n])) = true /\ scls sid (CUnlink (cd_temp (dcd id) ++ [n])) = true.
  Proof.
    intros Hn. unfold scls. split.
    - destruct (path_eqb (cd_base (dcd id) ++ [n]) (dstp sid)) eqn:He; [cbn [unl]; rewrite He; apply orb_true_r|].
      rewrite (okm_unlink_base (dcd id) (dcd_plain id) _ n Hn); [reflexivity|]. unfold Pvd. rewrite He.
      rewrite (Pv_under (dcd id) v (dcd_out id) [n] : negb _ = true). reflexivity.
    - rewrite (okm_unlink_temp (dcd id) (dcd_plain id) _ n Hn); [reflexivity|]. unfold Pvd, cd_temp. rewrite <- app_assoc.
      rewrite (Pv_under (dcd id) v (dcd_out id) _ : negb _ = true). cbn [andb]. apply negb_true_iff.
      destruct (path_eqb _ (dstp sid)) eqn:He; [|reflexivity]. apply path_eqb_eq in He.
      apply (f_equal (@List.length string)) in He. rewrite !dcd_base, !app_length in He. cbn in He. lia.
  Qed.

  Lemma ss_force_maintain h sid id s : Gpub sid s ->
    wpv ss_step (force_maintain_shard h dir nsh total id) (fun _ s' => Gpub sid s') s.
  Proof.
    intros Hg. unfold force_maintain_shard. apply wpv_try.
    eapply wpv_mono; [|apply (g_definitely_cleanup ss_step (Gpub sid) (scls sid) (scls_nr sid) (ss_pub_call sid) (ss_pub_sil sid) (dcd id) (cd_base (dcd id)) s)];
      [| intros n Hn; apply (scls_unlink sid id n Hn) | intros n Hn; apply (scls_unlink sid id n Hn) | exact Hg].
    intros [est|e|] s1 Hg1; exact Hg1.
  Qed.

  Hypothesis Hids : shard_ids (k_hash k) (k_sec k) nsh = (ida, idb).

  Lemma dstp_ne : dstp ida <> dstp idb.
  Proof. rewrite !dcd_base. intros H. apply app_inj_tail in H. destruct H as (H & _). apply app_inj_tail in H. destruct H as (_ & H). exact (Hab H). Qed.

  Lemma ss_tail h h1 sid upd s : Gpub sid s ->
    wpv ss_step (update_estimate h h1 upd ;;;
                 match upd with
                 | Some _ => RandShard (eff_shards nsh) (fun r0 => force_maintain_shard h dir nsh total (other_shard_id (eff_shards nsh) sid r0))
                 | None => LoadGet h h1 (fun l => if (sharded_shard_capacity nsh total <? l / 2)%N then Mark 20 [] (force_maintain_shard h dir nsh total sid) else Ret (Ok tt))
                 end) (fun _ s' => Gpub sid s') s.
  Proof.
    intros Hg. apply wpv_bind.
    eapply wpv_mono; [|apply (gclass ss_step (Gpub sid) (scls sid) (ss_pub_call sid) (ss_pub_sil sid) (update_estimate h h1 upd) anyc)];
      [|unfold update_estimate; allc_auto|exact Hg].
    intros [] s1 (_ & Hg1). destruct upd as [x|].
    - unfold wpv. cbn [wp]. intros r0. apply (wpv_sil ss_step (Gpub sid) (ss_pub_sil sid)); [exact Hg1|exact I|]. intros s2 Hg2. apply ss_force_maintain, Hg2.
    - unfold wpv. cbn [wp]. intros l. destruct (_ <? _)%N; [|exact Hg1]. cbn [wp].
      apply (wpv_sil ss_step (Gpub sid) (ss_pub_sil sid)); [exact Hg1|exact I|]. intros s2 Hg2. apply ss_force_maintain, Hg2.
  Qed.

  Theorem ss_sh_set h :
    wpv ss_step (sh_publish cd_set h dir nsh total k v)
        (fun r s' => is_ok r = true -> exists sid, (sid = ida \/ sid = idb) /\ Gpub sid s') Unprobed.
  Proof.
    unfold sh_publish, sort_by_load. rewrite Hids. unfold wpv. cbn [bind wp]. intros l1 l2. cbn [bind fst snd].
    set (ids := if (_ <=? _)%N then (ida, idb) else (idb, ida)).
    assert (Hgo : forall h1 h2, (h1 = ida /\ h2 = idb) \/ (h1 = idb /\ h2 = ida) ->
              wpv ss_step (try (file_exists (dir ++ [format_id h2]) name) (fun ex =>
                             let sid := if ex then h2 else h1 in
                             try (cd_set (dcd sid) name v) (fun upd =>
                               update_estimate h h1 upd ;;;
                               match upd with
                               | Some _ => RandShard (eff_shards nsh) (fun r0 => force_maintain_shard h dir nsh total (other_shard_id (eff_shards nsh) sid r0))
                               | None => LoadGet h h1 (fun l => if (sharded_shard_capacity nsh total <? l / 2)%N then Mark 20 [] (force_maintain_shard h dir nsh total sid) else Ret (Ok tt))
                               end)))
                  (fun r s' => is_ok r = true -> exists sid, (sid = ida \/ sid = idb) /\ Gpub sid s') Unprobed).
    { intros h1 h2 Hh. apply wpv_try. unfold file_exists. rewrite (validate_ok name Hname). cbn [bind call1]. apply wpv_call. intros r _.
      assert (Hst : ss_step Unprobed (EvCall (CStat ((dir ++ [format_id h2]) ++ [name]) true) r)
                    = Some (Chosen (if is_rstat r then h2 else h1) (Some false))).
      { cbn [ss_step]. change ((dir ++ [format_id h2]) ++ [name]) with (dstp h2). destruct Hh as [(-> & ->)|(-> & ->)].
        - assert (He : path_eqb (dstp idb) (dstp ida) = false).
          { destruct (path_eqb (dstp idb) (dstp ida)) eqn:He; [|reflexivity]. apply path_eqb_eq in He. symmetry in He. exfalso. exact (dstp_ne He). }
          rewrite He, path_eqb_refl. reflexivity.
        - rewrite path_eqb_refl. reflexivity. }
      rewrite Hst.
      assert (Hsid : forall ex, is_rstat r = ex ->
                wpv ss_step (try (cd_set (dcd (if ex then h2 else h1)) name v) (fun upd =>
                               update_estimate h h1 upd ;;;
                               match upd with
                               | Some _ => RandShard (eff_shards nsh) (fun r0 => force_maintain_shard h dir nsh total (other_shard_id (eff_shards nsh) (if ex then h2 else h1) r0))
                               | None => LoadGet h h1 (fun l => if (sharded_shard_capacity nsh total <? l / 2)%N then Mark 20 [] (force_maintain_shard h dir nsh total (if ex then h2 else h1)) else Ret (Ok tt))
                               end))
                    (fun r0 s' => is_ok r0 = true -> exists sid, (sid = ida \/ sid = idb) /\ Gpub sid s') (Chosen (if is_rstat r then h2 else h1) (Some false))).
      { intros ex <-. set (sid := if is_rstat r then h2 else h1).
        assert (Hsid : sid = ida \/ sid = idb) by (unfold sid; destruct (is_rstat r); destruct Hh as [(-> & ->)|(-> & ->)]; auto).
        apply wpv_try.
        pose proof (wpv_refine (ps_step (dcd sid) name v) ss_step (fun b => Chosen sid (Some b)) (ps_to_ss sid) _ _ _
                      (ps_cd_set (dcd sid) name v (dcd_plain sid) Hname Hv (dcd_out sid) (dcd_nanc sid))) as Href.
        eapply wpv_mono; [|exact Href]. intros [upd|e|] s1 (b1 & -> & Hb); try discriminate.
        specialize (Hb eq_refl). subst b1.
        eapply wpv_mono; [|apply (ss_tail h h1 sid upd _ (or_introl eq_refl))]. intros a s2 Hg2 _. exists sid. split; assumption. }
      destruct r as [| |st| | |er]; cbn [is_rstat]; try (apply wpv_ret; discriminate).
      - apply (Hsid true eq_refl).
      - destruct (is_absent (OsErr er)); [apply (Hsid false eq_refl)|apply wpv_ret; discriminate]. }
    unfold ids. destruct (_ <=? _)%N; apply Hgo; auto.
  Qed.

  (** ** meaning of the states *)
  Variable i0 : nat.
  Definition ss_inv (s : sst) (f : fs) : Prop :=
    match s with
    | Unprobed => name_of f v = Some i0
    | Chosen sid (Some b) => ps_inv (dcd sid) name v i0 b f
    | Chosen sid None => name_of f (dstp sid) = None
    end.

  Lemma ss_inv_step s ev s' f f' : ss_step s ev = Some s' -> step1 f ev f' -> names_plain f -> ss_inv s f -> ss_inv s' f'.
  Proof.
    intros Hm H1 Hpl HI. destruct s as [|sid [b|]].
    - assert (Hkeep : name_of f' v = name_of f v -> ss_inv Unprobed f') by (intros He; cbn [ss_inv]; rewrite He; exact HI).
      destruct ev as [c r|t|wt b|n x|fr|tg pl]; cbn [ss_step] in Hm.
      2-6: injection Hm as <-; apply Hkeep, (step1_spares _ _ _ v H1 I).
      assert (Hstat : forall p fl, c = CStat p fl -> name_of f' v = Some i0) by (intros p fl ->; rewrite (step1_spares _ _ _ v H1 eq_refl); exact HI).
      destruct c; try (destruct (okm (Pv v) _) eqn:Hc; [|discriminate]; injection Hm as <-; apply Hkeep, (step1_spares _ _ _ v H1 Hc)).
      destruct follow.
      + pose proof (Hstat p true eq_refl) as Hv1.
        destruct (path_eqb p (dstp ida)); [injection Hm as <-; exact Hv1|]. destruct (path_eqb p (dstp idb)); injection Hm as <-; exact Hv1.
      + destruct (okm (Pv v) _) eqn:Hc; [|discriminate]. injection Hm as <-. apply Hkeep, (step1_spares _ _ _ v H1 Hc).
    - cbn [ss_step] in Hm.
      destruct (b && match ev with EvCall c _ => unl (dstp sid) c | _ => false end)%bool eqn:Hu.
      + injection Hm as <-. apply andb_true_iff in Hu. destruct Hu as (-> & Hu). destruct ev as [c r| | | | | ]; try discriminate.
        destruct c; try discriminate. cbn [unl] in Hu. apply path_eqb_eq in Hu. subst p. cbn [ss_inv ps_inv] in *.
        destruct (accepted r) eqn:Hacc.
        * destruct (accepted_answered _ _ _ _ H1 Hacc) as (e & -> & Hr).
          pose proof (sem_res_unit f e (CUnlink (dstp sid))) as Hx.
          change (snd (sem f e (CUnlink (dstp sid))) = ROk \/ exists er, snd (sem f e (CUnlink (dstp sid))) = RErr er) in Hx.
          destruct Hx as [Hx|(er & Hx)]; [|rewrite Hx in Hr; subst r; discriminate].
          apply unlink_effect; [apply (dst_plain (dcd sid) name (dcd_plain sid) Hname)|exact Hx].
        * destruct r as [| | | | |er]; try discriminate. cbn [ss_inv ps_inv]. rewrite !(step1_err _ _ _ _ _ H1). exact HI.
      + destruct (ps_step (dcd sid) name v b ev) as [b'|] eqn:Hps; [|discriminate]. injection Hm as <-. cbn [ss_inv] in *.
        eapply (ps_inv_step (dcd sid) name v (dcd_plain sid) Hname Hv (dcd_out sid) i0); eassumption.
    - cbn [ss_step ss_inv] in *. destruct ev as [c r|t|wt b|n x|fr|tg pl].
      2-6: injection Hm as <-; cbn [ss_inv]; rewrite (step1_spares _ _ _ _ H1 I); exact HI.
      destruct (scls sid c) eqn:Hc; [|discriminate]. injection Hm as <-. cbn [ss_inv]. unfold scls in Hc. apply orb_true_iff in Hc. destruct Hc as [Hc|Hc].
      + destruct (okm_and _ _ c Hc) as (_ & Hc2). rewrite (step1_spares _ _ _ (dstp sid) H1 Hc2). exact HI.
      + destruct c; try discriminate. cbn [unl] in Hc. apply path_eqb_eq in Hc. subst p.
        destruct (accepted r) eqn:Hacc.
        * destruct (accepted_answered _ _ _ _ H1 Hacc) as (e & -> & Hr).
          pose proof (sem_res_unit f e (CUnlink (dstp sid))) as Hx.
          change (snd (sem f e (CUnlink (dstp sid))) = ROk \/ exists er, snd (sem f e (CUnlink (dstp sid))) = RErr er) in Hx.
          destruct Hx as [Hx|(er & Hx)]; [|rewrite Hx in Hr; subst r; discriminate].
          apply unlink_effect; [apply (dst_plain (dcd sid) name (dcd_plain sid) Hname)|exact Hx].
        * destruct r as [| | | | |er]; try discriminate. rewrite (step1_err _ _ _ _ _ H1). exact HI.
  Qed.

  (** A sharded [set] that reports success has bound one of the key's two shard
      paths to the inode its source named -- and if the maintenance that follows
      the publication evicted that entry again, the path is unbound: never
      bound to anything else. *)
  Theorem sharded_set_binds h w o : names_plain (w_fs w) -> name_of (w_fs w) v = Some i0 ->
    let '(r, w', _, _) := run (sh_publish cd_set h dir nsh total k v) w o in
    is_ok r = true ->
    exists sid, (sid = ida \/ sid = idb) /\
      (name_of (w_fs w') (dstp sid) = Some i0 \/ name_of (w_fs w') (dstp sid) = None).
  Proof.
    intros Hpl Hv0.
    pose proof (sane_run ss_step _ _ Unprobed ss_inv (ss_sh_set h) ss_inv_step w o Hpl Hv0) as H.
    destruct (run _ w o) as [[[r w'] o'] tr]. destruct H as (s' & HQ & HI & _).
    intros Hok. destruct (HQ Hok) as (sid & Hsid & [-> | ->]); exists sid; (split; [exact Hsid|]); cbn [ss_inv ps_inv] in HI; [left; exact (proj1 HI)|right; exact HI].
  Qed.
End ShardedSet.

(** * A plain cache directory: touch reports presence truthfully *)
Lemma walk_ext f g : (forall x, name_of f x = name_of g x) -> (forall i, inode_of f i = inode_of g i) ->
  forall comps cur, walk f cur comps = walk g cur comps.
Proof.
  intros Hn Hi. assert (Hd : forall p, is_dir_at f p = is_dir_at g p).
  { intros [|x p]; [reflexivity|]. unfold is_dir_at. rewrite Hn. destruct (name_of g (x :: p)); [rewrite Hi|]; reflexivity. }
  induction comps as [|c comps IH]; intros cur; cbn [walk]; [reflexivity|]. rewrite Hd.
  destruct (is_dir_at g cur) as [[|]|]; try reflexivity. destruct (too_long c); [reflexivity|].
  destruct (_ || _)%bool; [apply IH|]. destruct (String.eqb c ".."); apply IH.
Qed.
Lemma resolve_ext f g p : (forall x, name_of f x = name_of g x) -> (forall i, inode_of f i = inode_of g i) -> resolve f p = resolve g p.
Proof. intros Hn Hi. unfold resolve. destruct (has_abs p); [reflexivity|]. destruct (path_max_exceeded p); [reflexivity|]. destruct (flatten p); [|reflexivity]. apply walk_ext; assumption. Qed.

Lemma open_answers f e p a i : resolve f p = inl p -> name_of f p = Some i -> inode_of f i <> None -> a <> RDWR ->
  (a = WRONLY -> forall x, inode_of f i = Some x -> i_dir x = false) ->
  exists d, snd (sem f e (COpen p a)) = RFd d.
Proof.
  intros Hr Hi Hino Ha Hdir. cbn [sem]. rewrite Hr, Hi. unfold with_inode. destruct (inode_of f i) as [x|] eqn:Hx; [|congruence].
  destruct a; try congruence.
  - cbn [andb]. rewrite andb_false_r. rewrite (alloc_fd_eq f). eexists. reflexivity.
  - rewrite (Hdir eq_refl x eq_refl). cbn [andb]. rewrite (alloc_fd_eq f). eexists. reflexivity.
Qed.

Lemma fdof_afd_new f x : fd_of (afd f x) (next_fd f) = Some x.
Proof. Transparent afd. unfold afd, alloc_fd, fd_of. cbn. rewrite Nat.eqb_refl. reflexivity. Qed.
Global Opaque afd.

Inductive tst := T0 | TA1 (r1 : res) | TB1 (ok : bool) | TA2 (r1 r2 : res) | TB2 (ok : bool).

Section PlainTouch.
  Variable d : cdir.
  Variable name : string.
  Notation dst := (cd_base d ++ [name]).
  Hypothesis Hbase : plainp (cd_base d) = true.
  Hypothesis Hname : valid_name name = true.

  Definition is_rfd' (r : res) : bool := match r with RFd _ => true | _ => false end.
  Definition stamps (r0 : res) (c : call) : bool := match r0, c with RFd fd, CFutimens fd' _ _ => Nat.eqb fd fd' | _, _ => false end.
  Definition is_close' (c : call) : bool := match c with CClose _ => true | _ => false end.

  (** TA1 r1: the read-only open was answered r1; TB1 ok: the descriptor it returned was
      stamped (ok = the futimens was accepted); TA2 / TB2: the same for the write-only retry *)
  Definition pt_step (s : tst) (ev : event) : option tst :=
    match s with
    | T0 => match ev with
            | EvNow _ => Some T0
            | EvCall (COpen p RDONLY) r => if path_eqb p dst then Some (TA1 r) else None
            | _ => None
            end
    | TA1 r1 => match ev with
                | EvCall c r =>
                    if stamps r1 c then Some (TB1 (accepted r))
                    else match c with
                         | COpen p WRONLY => if (negb (is_rfd' r1) && path_eqb p dst)%bool then Some (TA2 r1 r) else None
                         | _ => None
                         end
                | _ => Some s
                end
    | TA2 r1 r2 => match ev with
                   | EvCall c r => if stamps r2 c then Some (TB2 (accepted r)) else None
                   | _ => Some s
                   end
    | TB1 _ | TB2 _ => match ev with EvCall c _ => if is_close' c then Some s else None | _ => Some s end
    end.

  Definition tpost (r : outcome bool) (s' : tst) : Prop :=
    match r with
    | Ok true => s' = TB1 true \/ s' = TB2 true
    | Ok false => (exists r1 e, is_rfd' r1 = false /\ s' = TA2 r1 (RErr e)) \/ s' = TB1 false \/ s' = TB2 false
    | _ => True
    end.

  Definition tres (x : outcome unit) : outcome bool :=
    match x with Ok _ => Ok true | Err e => if is_absent e then Ok false else Err e | Panic => Panic end.

  Lemma pt_go fd t s r0 : r0 = RFd fd -> (s = TA1 r0 \/ exists r1, is_rfd' r1 = false /\ s = TA2 r1 r0) ->
    wpv pt_step (x <- unit_call (CFutimens fd (Some t) None) ;; quiet (CClose fd) ;;; Ret x) (fun x s' => tpost (tres x) s') s.
  Proof.
    intros -> Hs. unfold unit_call, quiet. cbn [bind call1]. apply wpv_call. intros r _.
    assert (Hst : pt_step s (EvCall (CFutimens fd (Some t) None) r) = Some (match s with TA1 _ => TB1 (accepted r) | _ => TB2 (accepted r) end)).
    { destruct Hs as [-> |(r1 & _ & ->)]; cbn [pt_step stamps]; rewrite Nat.eqb_refl; reflexivity. }
    rewrite Hst. apply wpv_call. intros r2 _.
    assert (Hcl : forall s1, (exists ok, s1 = TB1 ok \/ s1 = TB2 ok) -> pt_step s1 (EvCall (CClose fd) r2) = Some s1) by (intros s1 (ok & [-> | ->]); reflexivity).
    destruct Hs as [-> |(r1 & _ & ->)].
    - rewrite Hcl by eauto. apply wpv_ret. destruct r as [| | | | |er]; cbn [accepted tres tpost]; auto. destruct (is_absent (OsErr er)); cbn; auto.
    - rewrite Hcl by eauto. apply wpv_ret. destruct r as [| | | | |er]; cbn [accepted tres tpost]; auto. destruct (is_absent (OsErr er)); cbn; auto.
  Qed.

  Theorem pt_cd_touch : wpv pt_step (cd_touch d name) tpost T0.
  Proof.
    unfold cd_touch. rewrite (validate_ok name Hname). unfold touch, wpv. cbn [wp]. intros t. unfold after. cbn [lift sane_ev pt_step option_map].
    change (wpv pt_step (r <- set_times dst (Some t) None ;; Ret (tres r)) tpost T0).
    apply wpv_bind. unfold set_times. cbn [bind call1]. apply wpv_call. intros r1 _. cbn [pt_step]. rewrite path_eqb_refl.
    assert (Hfin : forall x s', tpost (tres x) s' -> wpv pt_step (Ret (tres x)) tpost s') by (intros x s' H; apply wpv_ret, H).
    assert (Hsecond : is_rfd' r1 = false ->
              wpv pt_step (r2 <- call1 (COpen dst WRONLY) ;;
                           match r2 with
                           | RFd fd => x <- unit_call (CFutimens fd (Some t) None) ;; quiet (CClose fd) ;;; Ret x
                           | RErr e => Ret (Err (OsErr e))
                           | _ => Ret (Err (OsErr EINVAL))
                           end)
                (fun a s' => wpv pt_step (Ret (tres a)) tpost s') (TA1 r1)).
    { intros Hr1. cbn [bind call1]. apply wpv_call. intros r2 _. cbn [pt_step stamps]. 
      assert (Hns : stamps r1 (COpen dst WRONLY) = false) by (destruct r1; reflexivity). rewrite Hns, Hr1, path_eqb_refl. cbn [negb andb].
      destruct r2 as [|fd2| | | |e2]; try (apply wpv_ret, wpv_ret; cbn; exact I).
      - eapply wpv_mono; [|apply (pt_go fd2 t (TA2 r1 (RFd fd2)) (RFd fd2) eq_refl)]; [intros x s' H; apply Hfin, H|right; eauto].
      - apply wpv_ret, wpv_ret. cbn [tres]. destruct (is_absent (OsErr e2)); cbn; [left; eauto|exact I]. }
    destruct r1 as [|fd| | | |e]; try (apply Hsecond; reflexivity).
    eapply wpv_mono; [|apply (pt_go fd t (TA1 (RFd fd)) (RFd fd) eq_refl)]; [intros x s' H; apply Hfin, H|left; reflexivity].
  Qed.

  (** ** meaning, without a fault oracle *)
  Variable f0 : fs.
  Hypothesis Hreach : forall i, name_of f0 dst = Some i -> resolve f0 dst = inl dst /\ inode_of f0 i <> None.

  Definition fd_live (f : fs) (fd : nat) : Prop := exists x, fd_of f fd = Some x /\ inode_of f (fd_ino x) <> None.
  Definition same_names (f : fs) : Prop := forall x, name_of f x = name_of f0 x.

  Definition pt_inv (s : tst) (f : fs) : Prop :=
    match s with
    | T0 => same_names f /\ forall i, inode_of f i = inode_of f0 i
    | TA1 r1 => same_names f /\
                match r1 with
                | RFd fd => fd_live f fd /\ name_of f0 dst <> None
                | _ => (forall i, inode_of f i = inode_of f0 i) /\ name_of f0 dst = None
                end
    | TB1 ok => same_names f /\ ok = true /\ name_of f0 dst <> None
    | TA2 r1 r2 => same_names f /\ name_of f0 dst = None /\ is_rfd' r2 = false
    | TB2 _ => False
    end.

  Lemma open_live f e p a fd : snd (sem f e (COpen p a)) = RFd fd -> fd_live (fst (sem f e (COpen p a))) fd.
  Proof.
    cbn [sem]. unfold with_inode. destruct (resolve f p) as [cp|]; [|discriminate]. destruct (name_of f cp) as [i|]; [|discriminate].
    destruct (inode_of f i) as [x|] eqn:Hx; [|discriminate]. destruct (i_dir x && _)%bool; [discriminate|].
    rewrite (alloc_fd_eq f). cbn [fst snd]. intros H. injection H as <-. unfold fd_live.
    eexists. split; [apply fdof_afd_new|]. cbn [fd_ino]. rewrite ino_alloc_fd. congruence.
  Qed.

  Lemma futimens_live f e fd a m : fd_live f fd -> snd (sem f e (CFutimens fd a m)) = ROk.
  Proof. intros (x & Hx & Hi). cbn [sem]. rewrite Hx. unfold with_inode. destruct (inode_of f (fd_ino x)); [reflexivity|congruence]. Qed.

  Lemma pt_inv_step s ev s' f f' : pt_step s ev = Some s' -> astep f ev f' -> names_plain f -> pt_inv s f -> pt_inv s' f'.
  Proof.
    intros Hm Ha _ HI. pose proof (astep_step1 _ _ _ Ha) as H1. pose proof (dst_plain d name Hbase Hname) as Hdp.
    assert (Hsil : forall x, (match ev with EvCall _ _ => False | _ => True end) -> name_of f' x = name_of f x).
    { intros x Hev. apply (step1_spares _ _ _ x H1). destruct ev; try exact I. destruct Hev. }
    destruct s as [|r1|ok|r1 r2|ok].
    - destruct HI as (Hn & Hi). destruct ev as [c r|t| | | | ]; cbn [pt_step] in Hm; try discriminate.
      + destruct c; try discriminate. destruct a; try discriminate. destruct (path_eqb p dst) eqn:Hp; [|discriminate]. apply path_eqb_eq in Hp. subst p.
        injection Hm as <-. destruct Ha as (e & -> & Hr). cbn [pt_inv].
        split; [intros y; rewrite (sem_spares f e (COpen dst RDONLY) y eq_refl); apply Hn|].
        destruct r as [|fd| | | |er].
        2:{ symmetry in Hr. split; [apply open_live, Hr|]. destruct (open_effect f e dst RDONLY fd Hdp Hr) as (_ & H). rewrite Hn in H. exact H. }
        all: assert (Hunb : name_of f0 dst = None)
          by (destruct (name_of f0 dst) as [i|] eqn:Hb; [|reflexivity]; exfalso; destruct (Hreach i eq_refl) as (Hres & Hino);
              destruct (open_answers f e dst RDONLY i) as (dd & Hdd);
              [rewrite (resolve_ext f f0 dst Hn Hi); exact Hres|rewrite Hn; exact Hb|rewrite Hi; exact Hino|discriminate|discriminate|congruence]).
        all: split; [|exact Hunb]; intros i; rewrite <- Hi;
          (assert (Hsame : fst (sem f e (COpen dst RDONLY)) = f); [|rewrite Hsame; reflexivity]);
          cbn [sem]; unfold with_inode; cbn [sem] in Hr; unfold with_inode in Hr;
          destruct (resolve f dst) as [cp|]; [|reflexivity]; destruct (name_of f cp) as [j|]; [|reflexivity]; destruct (inode_of f j) as [y|]; [|reflexivity];
          destruct (i_dir y && _)%bool; [reflexivity|]; rewrite (alloc_fd_eq f) in Hr; discriminate Hr.
      + injection Hm as <-. cbn [astep] in Ha. subst f'. cbn [pt_inv]. split; [intros y; autorewrite with fseff; apply Hn|intros i; autorewrite with fseff; apply Hi].
    - destruct ev as [c r|t|wt b|n x|fr|tg pl]; cbn [pt_step] in Hm.
      2-6: injection Hm as <-; cbn [pt_inv] in *; destruct HI as (Hn & Hr); (split; [intros y; rewrite (Hsil y I); apply Hn|]);
           destruct r1; try exact Hr; cbn [astep] in Ha; subst f'; try exact Hr; (destruct Hr as (Hl & Hb) || idtac);
           try (split; [|exact Hb]; first [exact Hl | intros i; autorewrite with fseff; apply Hl]).
      destruct HI as (Hn & Hr). destruct Ha as (e & -> & Hres).
      destruct (stamps r1 c) eqn:Hst.
      + injection Hm as <-. destruct r1 as [|fd| | | |]; try discriminate. destruct c; try discriminate. cbn [stamps] in Hst. apply Nat.eqb_eq in Hst. subst fd0.
        destruct Hr as (Hl & Hb). cbn [pt_inv]. split; [intros y; rewrite (sem_spares f e (CFutimens fd atime mtime) y eq_refl); apply Hn|].
        rewrite Hres, (futimens_live f e fd atime mtime Hl). split; [reflexivity|exact Hb].
      + destruct c; try discriminate. destruct a; try discriminate.
        destruct (negb (is_rfd' r1) && path_eqb p dst)%bool eqn:Hp; [|discriminate]. apply andb_true_iff in Hp. destruct Hp as (Hnr & Hp).
        apply path_eqb_eq in Hp. subst p. injection Hm as <-. cbn [pt_inv].
        assert (Hunb : name_of f0 dst = None) by (destruct r1; try discriminate; exact (proj2 Hr)).
        split; [intros y; rewrite (sem_spares f e (COpen dst WRONLY) y eq_refl); apply Hn|]. split; [exact Hunb|].
        destruct r as [|fd| | | |]; try reflexivity. exfalso. symmetry in Hres.
        destruct (open_effect f e dst WRONLY fd Hdp Hres) as (_ & H). rewrite Hn in H. contradiction.
    - destruct HI as (Hn & Hok & Hb). destruct ev as [c r|t|wt b|n x|fr|tg pl]; cbn [pt_step] in Hm.
      2-6: injection Hm as <-; cbn [pt_inv]; (split; [intros y; rewrite (Hsil y I); apply Hn|auto]).
      destruct (is_close' c) eqn:Hc; [|discriminate]. injection Hm as <-. cbn [pt_inv]. split; [|auto].
      intros y. rewrite (step1_spares _ _ _ y H1); [apply Hn|]. destruct c; try discriminate; reflexivity.
    - destruct HI as (Hn & Hb & Hr2). destruct ev as [c r|t|wt b|n x|fr|tg pl]; cbn [pt_step] in Hm.
      2-6: injection Hm as <-; cbn [pt_inv]; (split; [intros y; rewrite (Hsil y I); apply Hn|auto]).
      destruct (stamps r2 c) eqn:Hst; [|discriminate]. destruct r2; discriminate.
    - destruct HI.
  Qed.

  (** Without a fault oracle, touch changes no binding and reports presence
      truthfully: "touched" means the name was bound, "absent" that it was not. *)
  Theorem plain_touch_truthful w o : w_fs w = f0 -> o_fault o = None -> names_plain f0 ->
    let '(r, w', _, _) := run (cd_touch d name) w o in
    (forall x, name_of (w_fs w') x = name_of f0 x) /\
    (r = Ok true -> name_of f0 dst <> None) /\ (r = Ok false -> name_of f0 dst = None).
  Proof.
    intros Hw Hnf Hpl.
    assert (Hpl0 : names_plain (w_fs w)) by (rewrite Hw; exact Hpl).
    assert (HI0 : pt_inv T0 (w_fs w)) by (cbn [pt_inv]; rewrite Hw; split; intros ?; reflexivity).
    pose proof (sane_run_nf pt_step (cd_touch d name) _ T0 pt_inv pt_cd_touch pt_inv_step w o Hnf Hpl0 HI0) as H.
    destruct (run (cd_touch d name) w o) as [[[r w'] o'] tr]. destruct H as (s' & HQ & HI & _).
    assert (Hn : same_names (w_fs w')) by (destruct s'; cbn [pt_inv] in HI; try exact (proj1 HI); destruct HI).
    split; [exact Hn|]. split; intros ->; cbn [tpost] in HQ.
    - destruct HQ as [-> | ->]; cbn [pt_inv] in HI; [exact (proj2 (proj2 HI))|destruct HI].
    - destruct HQ as [(r1 & e & _ & ->)|[-> | ->]]; cbn [pt_inv] in HI; [exact (proj1 (proj2 HI))|destruct HI as (_ & Hok & _); discriminate|destruct HI].
  Qed.
End PlainTouch.

(** * The stack API over a plain write cache, no read-only caches, no checker *)
Section StackPlainGet.
  Variable cfg : stack_cfg.
  Variable dir : path.
  Variable cap : N.
  Hypothesis Hw : s_writer cfg = Some (FPlain dir cap).
  Hypothesis Hrd : s_readers cfg = [].
  Hypothesis Hck : s_checker cfg = None.
  Variable k : key.
  Notation d := (plain_cdir dir cap).
  Notation dst := (dir ++ [k_name k]).
  Hypothesis Hbase : plainp dir = true.
  Hypothesis Hname : valid_name (k_name k) = true.

  Lemma pg_cache_get :
    wpv (pg_step d (k_name k)) (cache_get cfg k)
        (fun r s' => exists r0, s' = Some r0 /\
                     match r with Ok (Some fd) => r0 = RFd fd | Ok None => exists e, r0 = RErr e | _ => True end) None.
  Proof.
    unfold cache_get. rewrite Hw, Hrd. cbn [f_get ro_get]. apply wpv_try.
    eapply wpv_mono; [|apply (pg_cd_get d (k_name k) Hname)].
    intros [[fd|]|e|] s' (r0 & -> & Hr); try (eexists; split; [reflexivity|exact I]).
    - unfold with_checked. rewrite Hck. cbn [try bind]. apply wpv_ret. eexists. split; [reflexivity|exact Hr].
    - apply wpv_ret. eexists. split; [reflexivity|exact Hr].
  Qed.

  Theorem cache_get_reads f0 w o : w_fs w = f0 -> names_plain f0 ->
    let '(r, w', _, _) := run (cache_get cfg k) w o in
    (forall x, name_of (w_fs w') x = name_of f0 x) /\
    (forall fd, r = Ok (Some fd) -> fdino (w_fs w') fd = name_of f0 dst /\ name_of f0 dst <> None).
  Proof.
    intros Hw0 Hpl.
    assert (Hpl0 : names_plain (w_fs w)) by (rewrite Hw0; exact Hpl).
    pose proof (sane_run (pg_step d (k_name k)) (cache_get cfg k) _ None (pg_inv d (k_name k) f0) pg_cache_get
                  (pg_inv_step d (k_name k) Hbase Hname f0) w o Hpl0 Hw0) as H.
    destruct (run (cache_get cfg k) w o) as [[[r w'] o'] tr]. destruct H as (s' & (r0 & -> & HQ) & HI & _).
    cbn [pg_inv] in HI. destruct HI as (Hn & Hr). split; [exact Hn|]. intros fd ->. subst r0. exact Hr.
  Qed.

  (** [Cache::set] then [Cache::get]: a hit is the set's inode. *)
  Theorem cache_set_then_get v i0 w o o2 : plainp v = true -> (forall q, v <> dir ++ q) -> (forall q, dir <> v ++ q) ->
    names_plain (w_fs w) -> name_of (w_fs w) v = Some i0 ->
    let '(r, w1, _, _) := run (cache_set cfg k v) w o in
    is_ok r = true ->
    let '(r2, w2, _, _) := run (cache_get cfg k) w1 o2 in
    forall fd, r2 = Ok (Some fd) -> fdino (w_fs w2) fd = Some i0.
  Proof.
    intros Hv Hout Hnanc Hpl Hv0.
    pose proof (cache_set_binds cfg dir cap Hw k v Hbase Hname Hv Hout Hnanc i0 w o Hpl Hv0) as Hset.
    pose proof (run_names_plain (cache_set cfg k v) w o Hpl) as Hpl1.
    destruct (run (cache_set cfg k v) w o) as [[[r w1] o1] tr1]. intros Hok. specialize (Hset Hok).
    pose proof (cache_get_reads (w_fs w1) w1 o2 eq_refl Hpl1) as Hget.
    destruct (run (cache_get cfg k) w1 o2) as [[[r2 w2] o3] tr2]. destruct Hget as (_ & Hfd).
    intros fd Hr. destruct (Hfd fd Hr) as (H1 & _). rewrite H1. exact Hset.
  Qed.
End StackPlainGet.

(** * File contents: the write and lookup paths change none *)
Lemma step1_keeps_data f c r f' i D : calm c = true -> step1 f (EvCall c r) f' ->
  data f i = Some D -> i < next_ino f -> data f' i = Some D /\ i < next_ino f'.
Proof.
  intros Hc H1 HD Hi.
  assert (Hsem : forall e, data (fst (sem f e c)) i = Some D /\ i < next_ino (fst (sem f e c))).
  { intros e. split.
    - apply sem_keeps_data; [exact HD|exact Hi| |destruct c; try reflexivity; discriminate].
      intros dd Hd. destruct c; cbn [data_dst] in Hd; try discriminate Hd; discriminate Hc.
    - pose proof (sem_counters f e c) as (_ & Hn). lia. }
  cbn [step1] in H1. destruct H1 as [(e & -> & _)|(er & _ & [->|(_ & e & ->)])]; [apply Hsem|auto|apply Hsem].
Qed.

Lemma steps_keep_data f tr f' : steps step1 f tr f' ->
  Forall (fun ev => match ev with EvCall c _ => calm c = true | _ => True end) tr ->
  forall i D, data f i = Some D -> i < next_ino f -> data f' i = Some D /\ i < next_ino f'.
Proof.
  induction 1 as [f|f ev f1 tr f2 H1 Hs IH]; intros Hall i D HD Hi; [auto|].
  inversion Hall as [|? ? Hev Hrest]; subst.
  assert (H : data f1 i = Some D /\ i < next_ino f1).
  { destruct ev as [c r|t| | | | ]; [exact (step1_keeps_data f c r f1 i D Hev H1 HD Hi)|cbn [step1] in H1; subst f1; auto..]. }
  destruct H as (H2 & H3). exact (IH Hrest i D H2 H3).
Qed.

Theorem calm_run_keeps_data {A} (p : prog A) Q : allc calm p Q -> forall w o i D,
  data (w_fs w) i = Some D -> i < next_ino (w_fs w) ->
  let '(_, w', _, _) := run p w o in data (w_fs w') i = Some D.
Proof.
  intros Hp w o i D HD Hi. pose proof (allc_run calm p Q Hp w o) as Hr. pose proof (run_steps p w o) as Hs.
  destruct (run p w o) as [[[a w'] o'] tr]. destruct Hr as (_ & Hall).
  exact (proj1 (steps_keep_data _ _ _ Hs Hall i D HD Hi)).
Qed.

(** [Cache::set] then [Cache::get], down to the bytes: a hit is a descriptor on a
    file whose contents are exactly what the source file held when set was called. *)
Theorem cache_set_then_get_bytes cfg dir cap k v i0 D w o o2 :
  s_writer cfg = Some (FPlain dir cap) -> s_readers cfg = [] -> s_checker cfg = None ->
  plainp dir = true -> valid_name (k_name k) = true -> plainp v = true ->
  (forall q, v <> dir ++ q) -> (forall q, dir <> v ++ q) ->
  names_plain (w_fs w) -> name_of (w_fs w) v = Some i0 ->
  data (w_fs w) i0 = Some D -> i0 < next_ino (w_fs w) ->
  let '(r, w1, _, _) := run (cache_set cfg k v) w o in
  is_ok r = true ->
  let '(r2, w2, _, _) := run (cache_get cfg k) w1 o2 in
  forall fd, r2 = Ok (Some fd) -> fdino (w_fs w2) fd = Some i0 /\ data (w_fs w2) i0 = Some D.
Proof.
  intros Hw Hrd Hck Hb Hn Hv Ho Ha Hpl Hv0 HD Hi.
  pose proof (cache_set_then_get cfg dir cap Hw Hrd Hck k Hb Hn v i0 w o o2 Hv Ho Ha Hpl Hv0) as H1.
  pose proof (calm_run_keeps_data _ _ (cm_cache_set cfg k v) w o i0 D HD Hi) as H2.
  assert (H3 : let '(_, w1, _, _) := run (cache_set cfg k v) w o in i0 < next_ino (w_fs w1)).
  { pose proof (allc_run calm _ _ (cm_cache_set cfg k v) w o) as Hr. pose proof (run_steps (cache_set cfg k v) w o) as Hs.
    destruct (run (cache_set cfg k v) w o) as [[[a w1] o1] tr]. destruct Hr as (_ & Hall).
    exact (proj2 (steps_keep_data _ _ _ Hs Hall i0 D HD Hi)). }
  destruct (run (cache_set cfg k v) w o) as [[[r w1] o1] tr1]. intros Hok. specialize (H1 Hok).
  assert (Hcm : allc calm (cache_get cfg k) anyc) by (apply cm_cache_get; rewrite Hck; exact I).
  pose proof (calm_run_keeps_data _ _ Hcm w1 o2 i0 D H2 H3) as H4.
  destruct (run (cache_get cfg k) w1 o2) as [[[r2 w2] o3] tr2]. intros fd Hr. split; [exact (H1 fd Hr)|exact H4].
Qed.

(** * Publication is atomic at every crash point *)
Section Atomic.
  Variable d : cdir.
  Variable name : string.
  Variable v : path.
  Notation dst := (cd_base d ++ [name]).
  Hypothesis Hbase : plainp (cd_base d) = true.
  Hypothesis Hname : valid_name name = true.
  Hypothesis Hv : plainp v = true.
  Hypothesis Hout : forall q, v <> cd_base d ++ q.
  Hypothesis Hnanc : forall q, cd_base d <> v ++ q.
  Notation pc := (pcls d name v).

  (** the set monitor with the entry's own binding tracked before the rename
      ([Before]: not yet renamed; [Linked]: renamed) *)
  Definition pr_step (s : pst) (ev : event) : option pst :=
    match ev with
    | EvCall c r =>
        if is_pub d name v c then match s with Before => Some (if accepted r then Linked else Before) | Linked => Some Linked | Existed => None end
        else if pc s c then Some s else None
    | _ => Some s
    end.

  Lemma pub_not_pc s c : pc s c = true -> is_pub d name v c = false.
  Proof.
    destruct c; try reflexivity. unfold pcls, okm, Pvd. cbn [rebind_paths forallb is_pub unl]. rewrite orb_false_r, andb_true_r.
    destruct (path_eqb p v); [|reflexivity]. cbn [negb andb]. rewrite ?andb_false_r. cbn. discriminate.
  Qed.
  Lemma pr_call s c r : pc s c = true -> exists s', pr_step s (EvCall c r) = Some s' /\ s' = s.
  Proof. intros H. cbn [pr_step]. rewrite (pub_not_pc s c H), H. eauto. Qed.
  Lemma pr_sil s ev : match ev with EvCall _ _ => True | _ => exists s', pr_step s ev = Some s' /\ s' = s end.
  Proof. destruct ev; cbn; eauto. Qed.
  Lemma pr_class s {A} (p : prog A) Q : allc (pc s) p Q -> wpv pr_step p (fun a s' => Q a /\ s' = s) s.
  Proof.
    intros H. apply (gclass pr_step (fun s' => s' = s) (pc s)); [| |exact H|reflexivity].
    - intros s0 c r -> Hc. destruct (pr_call s c r Hc) as (s' & -> & ->). eauto.
    - intros s0 ev ->. pose proof (pr_sil s ev) as Hs. destruct ev; auto. all: destruct Hs as (s' & -> & ->); eauto.
  Qed.
  Lemma pr_fin s : s <> Before -> wpv pr_step (ensure_file_removed v) (fun _ s' => s' = s) s.
  Proof.
    intros Hs. eapply wpv_mono; [|apply (pr_class s _ anyc)]; [intros a s' (_ & ->); reflexivity|].
    apply gc_ensure_file_removed. unfold pcls. cbn [unl]. destruct s; [congruence|..]; rewrite path_eqb_refl; apply orb_true_r.
  Qed.

  Lemma pr_insert s : s <> Existed ->
    wpv pr_step (insert_or_update v dst) (fun r s' => (is_ok r = true -> s' = Linked) /\ (s = Linked -> s' = Linked) /\ s' <> Existed) s.
  Proof.
    intros Hne. unfold insert_or_update. apply wpv_try.
    eapply wpv_mono; [|apply (pr_class s _ _ (gc_move_to_back (pc s) (pcls_nr d name v s) v))]. intros [u|e|] s1 (_ & ->); [|split; [discriminate|auto]..].
    apply wpv_try. eapply wpv_mono; [|apply (pr_class s _ _ (gc_set_read_only (pc s) (pcls_nr d name v s) v))]. intros [u1|e|] s1 (_ & ->); [|split; [discriminate|auto]..].
    apply wpv_try. unfold unit_call. cbn [bind call1]. apply wpv_call. intros r _.
    assert (Hp : is_pub d name v (CRename v dst) = true) by (cbn [is_pub]; now rewrite !path_eqb_refl).
    cbn [pr_step]. rewrite Hp.
    assert (Hfin : wpv pr_step (ensure_file_removed v) (fun r0 s' => (is_ok r0 = true -> s' = Linked) /\ (s = Linked -> s' = Linked) /\ s' <> Existed) Linked).
    { eapply wpv_mono; [|apply (pr_fin Linked)]; [|discriminate]. intros a s' ->. repeat split; auto; discriminate. }
    destruct s; [| |congruence].
    - destruct r as [| | | | |er]; cbn [accepted bind]; first [apply wpv_ret; exact Hfin | apply wpv_ret; repeat split; discriminate].
    - destruct r as [| | | | |er]; cbn [accepted bind]; first [apply wpv_ret; exact Hfin | apply wpv_ret; repeat split; auto; discriminate].
  Qed.

  Theorem pr_cd_set : wpv pr_step (cd_set d name v) (fun r s' => (is_ok r = true -> s' = Linked) /\ s' <> Existed) Before.
  Proof.
    unfold cd_set, cd_publish. rewrite (validate_ok name Hname). apply wpv_try.
    eapply wpv_mono; [|apply (g_maybe_cleanup pr_step (fun s' => s' = Before) (pc Before) (pcls_nr d name v Before))].
    - intros [ret|e|] s1 ->; [|split; discriminate..].
      apply wpv_bind. eapply wpv_mono; [|apply (pr_insert Before)]; [|discriminate]. intros r s2 (Hok & _ & Hne2).
      destruct r as [u|e|]; [apply wpv_ret; split; [intros _; apply Hok; reflexivity|exact Hne2]|..].
      all: apply wpv_try; rewrite removelast_last;
        (eapply wpv_mono; [|apply (pr_class s2 _ _ (gc_create_dir_all (pc s2) (pcls_nr d name v s2) (cd_base d) (pcls_mkdir d name v Hbase Hname Hv Hout Hnanc s2)))]);
        intros [u|e2|] s3 (_ & ->); try (split; [discriminate|exact Hne2]);
        apply wpv_try; (eapply wpv_mono; [|apply (pr_insert s2 Hne2)]); intros [u2|e3|] s4 (Hok2 & _ & Hne4); try (split; [discriminate|exact Hne4]);
        apply wpv_ret; split; [intros _; apply Hok2; reflexivity|exact Hne4].
    - intros s0 c r -> Hc. destruct (pr_call Before c r Hc) as (s' & -> & ->). eauto.
    - intros s0 ev ->. pose proof (pr_sil Before ev) as Hs. destruct ev; auto. all: destruct Hs as (s' & -> & ->); eauto.
    - intros n Hn. unfold pcls. destruct (string_dec n name) as [->|Hne]; [cbn [unl]; rewrite path_eqb_refl; apply orb_true_r|].
      rewrite (okm_unlink_base d Hbase _ n Hn (Pvd_under d name v Hout n Hne)). reflexivity.
    - intros n Hn. unfold pcls. rewrite (okm_unlink_temp d Hbase _ n Hn); [reflexivity|].
      unfold Pvd, cd_temp. rewrite <- app_assoc. rewrite (Pv_under d v Hout _ : negb _ = true). cbn. apply negb_true_iff.
      destruct (path_eqb _ dst) eqn:He; [|reflexivity]. apply path_eqb_eq, app_inv_head in He. discriminate.
    - reflexivity.
  Qed.

  (** ** the key's name is bound to the old inode, to nothing, or to the new inode: never to anything else *)
  Variable i0 : nat.
  Variable j0 : option nat.
  Definition at_inv (s : pst) (f : fs) : Prop :=
    match s with
    | Before => name_of f v = Some i0 /\ (name_of f dst = j0 \/ name_of f dst = None)
    | Linked => name_of f dst = Some i0 /\ (name_of f v = Some i0 \/ name_of f v = None)
    | Existed => (name_of f dst = j0 \/ name_of f dst = None \/ name_of f dst = Some i0) /\ (name_of f v = Some i0 \/ name_of f v = None)
    end.

  Lemma unl_other f c r f' x y : plainp x = true -> x <> y -> unl x c = true -> step1 f (EvCall c r) f' -> name_of f' y = name_of f y.
  Proof.
    intros Hp Hne Hu H1. destruct c; try discriminate. cbn [unl] in Hu. apply path_eqb_eq in Hu. subst p.
    apply (step1_spares _ _ _ y H1). unfold spares. cbn [rebind_paths forallb]. rewrite Hp. cbn. rewrite andb_true_r. apply negb_true_iff.
    destruct (path_eqb x y) eqn:He; [apply path_eqb_eq in He; contradiction|reflexivity].
  Qed.
  Lemma unl_self f c r f' x : plainp x = true -> unl x c = true -> step1 f (EvCall c r) f' -> name_of f' x = name_of f x \/ name_of f' x = None.
  Proof.
    intros Hp Hu H1. destruct c; try discriminate. cbn [unl] in Hu. apply path_eqb_eq in Hu. subst p.
    destruct (accepted r) eqn:Hacc.
    - apply step1_ok in H1; [|intros er ->; discriminate]. destruct H1 as (e & -> & Hr).
      pose proof (sem_res_unit f e (CUnlink x)) as Hx. change (snd (sem f e (CUnlink x)) = ROk \/ exists er, snd (sem f e (CUnlink x)) = RErr er) in Hx.
      destruct Hx as [Hx|(er & Hx)]; [right; apply unlink_effect; assumption|rewrite Hx in Hr; subst r; discriminate].
    - destruct r as [| | | | |er]; try discriminate. left. apply (step1_err _ _ _ _ _ H1).
  Qed.

  Lemma class_step s c r f f' : pc s c = true -> step1 f (EvCall c r) f' -> at_inv s f -> at_inv s f'.
  Proof.
    intros Hc H1 HI. pose proof (v_ne_dst d name v Hout) as Hvd. pose proof (dst_plain d name Hbase Hname) as Hdp.
    unfold pcls in Hc. apply orb_true_iff in Hc. destruct Hc as [Hc|Hc].
    - destruct (okm_and _ _ c Hc) as (Hc1 & Hc2).
      destruct s; cbn [at_inv] in *; rewrite ?(step1_spares _ _ _ dst H1 Hc2), ?(step1_spares _ _ _ v H1 Hc1); exact HI.
    - destruct s; cbn [at_inv] in *.
      + destruct HI as (Hv0 & Hd). rewrite (unl_other f c r f' dst v Hdp (fun H => Hvd (eq_sym H)) Hc H1). split; [exact Hv0|].
        destruct (unl_self f c r f' dst Hdp Hc H1) as [He|He]; [rewrite He; exact Hd|right; exact He].
      + destruct HI as (Hd & Hs). rewrite (unl_other f c r f' v dst Hv Hvd Hc H1). split; [exact Hd|].
        destruct (unl_self f c r f' v Hv Hc H1) as [He|He]; [rewrite He; exact Hs|right; exact He].
      + destruct HI as (Hd & Hs). rewrite (unl_other f c r f' v dst Hv Hvd Hc H1). split; [exact Hd|].
        destruct (unl_self f c r f' v Hv Hc H1) as [He|He]; [rewrite He; exact Hs|right; exact He].
  Qed.

  Lemma rename_at f r f' : step1 f (EvCall (CRename v dst) r) f' -> accepted r = true ->
    name_of f v = Some i0 -> name_of f' dst = Some i0 /\ (name_of f' v = Some i0 \/ name_of f' v = None).
  Proof.
    intros H1 Hacc Hv0. pose proof (v_ne_dst d name v Hout) as Hvd. pose proof (dst_plain d name Hbase Hname) as Hdp.
    destruct (accepted_answered _ _ _ _ H1 Hacc) as (e & -> & Hr).
    pose proof (sem_res_unit f e (CRename v dst)) as Hu. change (snd (sem f e (CRename v dst)) = ROk \/ exists er, snd (sem f e (CRename v dst)) = RErr er) in Hu.
    destruct Hu as [Hu|(er & Hu)]; [|rewrite Hu in Hr; subst r; discriminate].
    destruct (rename_effect f e v dst Hv Hdp Hu) as (Hd & _). pose proof (rename_source f e v dst Hv Hdp Hvd Hu) as Hs.
    rewrite Hd, Hv0. split; [reflexivity|]. destruct Hs as [Hs|Hs]; [right; exact Hs|left; rewrite Hs; exact Hv0].
  Qed.

  Lemma pr_at_step s ev s' f f' : pr_step s ev = Some s' -> step1 f ev f' -> names_plain f -> at_inv s f -> at_inv s' f'.
  Proof.
    intros Hm H1 _ HI.
    destruct ev as [c r|t|wt b|n x|fr|tg pl]; cbn [pr_step] in Hm.
    2-6: injection Hm as <-; destruct s; cbn [at_inv] in *; rewrite !(step1_spares _ _ _ _ H1 I); exact HI.
    destruct (is_pub d name v c) eqn:Hp.
    - destruct c; try discriminate. cbn [is_pub] in Hp. apply andb_true_iff in Hp. destruct Hp as (Ha & Hb).
      apply path_eqb_eq in Ha. apply path_eqb_eq in Hb. subst p q.
      assert (Herr : accepted r = false -> forall x, name_of f' x = name_of f x).
      { intros Hacc x. destruct r as [| | | | |er]; try discriminate. apply (step1_err _ _ _ _ _ H1). }
      destruct s; [| |discriminate]; injection Hm as <-; destruct (accepted r) eqn:Hacc; cbn [at_inv] in *.
      + destruct HI as (Hv0 & _). exact (rename_at f r f' H1 Hacc Hv0).
      + rewrite !(Herr eq_refl). exact HI.
      + destruct HI as (Hd & [Hv0|Hv0]).
        * exact (rename_at f r f' H1 Hacc Hv0).
        * exfalso. destruct (accepted_answered _ _ _ _ H1 Hacc) as (e & _ & Hr).
          pose proof (sem_res_unit f e (CRename v dst)) as Hu. change (snd (sem f e (CRename v dst)) = ROk \/ exists er, snd (sem f e (CRename v dst)) = RErr er) in Hu.
          destruct Hu as [Hu|(er & Hu)]; [|rewrite Hu in Hr; subst r; discriminate].
          destruct (rename_effect f e v dst Hv (dst_plain d name Hbase Hname) Hu) as (_ & Hn). contradiction.
      + rewrite !(Herr eq_refl). exact HI.
    - destruct (pc s c) eqn:Hc; [|discriminate]. injection Hm as <-. exact (class_step s c r f f' Hc H1 HI).
  Qed.

  (** the same invariant, for the put monitor of [PlainPut] under injected faults
      (an injected EEXIST may lie, so "existed" claims no more than "old or nothing") *)
  Lemma pp_at_step s ev s' f f' : pp_step d name v s ev = Some s' -> step1 f ev f' -> names_plain f -> at_inv s f -> at_inv s' f'.
  Proof.
    intros Hm H1 _ HI. pose proof (v_ne_dst d name v Hout) as Hvd. pose proof (dst_plain d name Hbase Hname) as Hdp.
    destruct ev as [c r|t|wt b|n x|fr|tg pl]; cbn [pp_step] in Hm.
    2-6: injection Hm as <-; destruct s; cbn [at_inv] in *; rewrite !(step1_spares _ _ _ _ H1 I); exact HI.
    destruct (is_publ d name v c) eqn:Hp.
    - destruct c; try discriminate. cbn [is_publ] in Hp. apply andb_true_iff in Hp. destruct Hp as (Ha & Hb).
      apply path_eqb_eq in Ha. apply path_eqb_eq in Hb. subst p q. injection Hm as <-.
      assert (Herr : forall er, r = RErr er -> forall x, name_of f' x = name_of f x).
      { intros er -> x. apply (step1_err _ _ _ _ _ H1). }
      assert (Hok : accepted r = true -> name_of f v = Some i0 -> name_of f' dst = Some i0 /\ name_of f' v = Some i0 /\ name_of f dst = None).
      { intros Hacc Hv0. destruct (accepted_answered _ _ _ _ H1 Hacc) as (e & -> & Hr).
        pose proof (sem_res_unit f e (CLink v dst)) as Hu. change (snd (sem f e (CLink v dst)) = ROk \/ exists er, snd (sem f e (CLink v dst)) = RErr er) in Hu.
        destruct Hu as [Hu|(er & Hu)]; [|rewrite Hu in Hr; subst r; discriminate].
        destruct (link_effect f e v dst Hv Hdp Hu) as (Hd & _ & Habs). rewrite Hd. repeat split; [exact Hv0| |exact Habs].
        rewrite (sem_spares f e (CLink v dst) v); [exact Hv0|]. unfold spares. cbn [rebind_paths forallb]. rewrite Hdp. cbn. rewrite andb_true_r.
        apply negb_true_iff. destruct (path_eqb dst v) eqn:He; [apply path_eqb_eq in He; symmetry in He; contradiction|reflexivity]. }
      destruct s; cbn [at_inv] in *.
      + destruct HI as (Hv0 & Hd0). destruct r as [| | | | |er].
        1-5: destruct (Hok eq_refl Hv0) as (H2 & H3 & _); cbn [at_inv]; split; [exact H2|left; exact H3].
        destruct er; cbn [at_inv]; rewrite !(Herr _ eq_refl); try (split; [exact Hv0|exact Hd0]); tauto.
      + destruct r as [| | | | |er]; [..|rewrite !(Herr _ eq_refl); exact HI].
        all: destruct HI as (Hd & [Hv0|Hv0]); [destruct (Hok eq_refl Hv0) as (_ & _ & Habs); congruence|].
        all: exfalso; destruct (accepted_answered _ _ _ _ H1 eq_refl) as (e & _ & Hr);
          pose proof (sem_res_unit f e (CLink v dst)) as Hu; change (snd (sem f e (CLink v dst)) = ROk \/ exists er, snd (sem f e (CLink v dst)) = RErr er) in Hu;
          destruct Hu as [Hu|(er & Hu)]; try congruence; destruct (link_effect f e v dst Hv Hdp Hu) as (_ & Hn & _); contradiction.
      + destruct HI as (Hd & Hs). destruct r as [| | | | |er]; [..|rewrite !(Herr _ eq_refl); split; assumption].
        all: destruct Hs as [Hv0|Hv0]; [destruct (Hok eq_refl Hv0) as (H2 & H3 & _); split; [right; right; exact H2|left; exact H3]|].
        all: exfalso; destruct (accepted_answered _ _ _ _ H1 eq_refl) as (e & _ & Hr);
          pose proof (sem_res_unit f e (CLink v dst)) as Hu; change (snd (sem f e (CLink v dst)) = ROk \/ exists er, snd (sem f e (CLink v dst)) = RErr er) in Hu;
          destruct Hu as [Hu|(er & Hu)]; try congruence; destruct (link_effect f e v dst Hv Hdp Hu) as (_ & Hn & _); contradiction.
    - destruct (pcls d name v s c) eqn:Hc; [|discriminate]. injection Hm as <-. exact (class_step s c r f f' Hc H1 HI).
  Qed.

  (** At EVERY crash point of a plain set or put (the process dies before any one of
      its calls), with a fault injected anywhere before: the key's name is bound
      to what it was bound to, to nothing (maintenance evicted it), or to the
      inode the source named -- never to anything else.  Publication is atomic. *)
  Theorem crash_anywhere_is_atomic (which : bool) w o n : names_plain (w_fs w) ->
    name_of (w_fs w) v = Some i0 -> name_of (w_fs w) dst = j0 ->
    let '(w', _, _, _) := run_crash (if which then cd_set d name v else cd_put d name v) w o n in
    name_of (w_fs w') dst = j0 \/ name_of (w_fs w') dst = None \/ name_of (w_fs w') dst = Some i0.
  Proof.
    intros Hpl Hv0 Hj.
    assert (HI0 : at_inv Before (w_fs w)) by (cbn [at_inv]; auto).
    destruct which.
    - pose proof (sane_crash pr_step (cd_set d name v) _ Before at_inv pr_cd_set pr_at_step w o n Hpl HI0) as H.
      destruct (run_crash (cd_set d name v) w o n) as [[[w' o'] tr] b]. destruct H as (s' & HI & _).
      destruct s'; cbn [at_inv] in HI; tauto.
    - pose proof (sane_crash (pp_step d name v) (cd_put d name v) _ Before at_inv (pp_cd_put d name v Hbase Hname Hv Hout Hnanc) pp_at_step w o n Hpl HI0) as H.
      destruct (run_crash (cd_put d name v) w o n) as [[[w' o'] tr] b]. destruct H as (s' & HI & _).
      destruct s'; cbn [at_inv] in HI; tauto.
  Qed.
End Atomic.
