(** put never overwrites: (a) for arbitrary environment responses, [cache_put]
    (hence the publication step of a promotion and of a miss) issues no rename
    at all — it publishes by link only; (b) in the kernel model, no call other
    than a rename or an unlink changes the inode an existing name is bound to
    (in particular a link onto an existing name fails and changes nothing);
    (c) the inode's contents are immutable (Conc/Immut.v). *)
From Coq Require Import List NArith ZArith String Bool Arith Lia.
From Kismet Require Import Pure.Hash FS.Fs FS.Prog Spec.Wp Spec.ClassMon Spec.Calm Spec.Chain Ops.Ops Conc.Effect.
Import ListNotations.

Definition norename (c : call) : bool := match c with CRename _ _ => false | _ => true end.

Lemma base_norename c : base c = true -> norename c = true.
Proof. destruct c; cbn; auto. Qed.

#[export] Hint Extern 1 (norename _ = true) => reflexivity : allc.

Lemma nr_insert_or_touch : put_ok norename.
Proof.
  intros a b. unfold insert_or_touch, try.
  pose proof (ck_move_to_back norename base_norename) as H1.
  pose proof (ck_set_read_only norename base_norename) as H2.
  pose proof (ck_ensure_file_removed norename base_norename) as H3.
  pose proof (ck_touch norename base_norename) as H4.
  allc_auto.
Qed.

Theorem put_never_renames cfg k v : allc norename (cache_put cfg k v) anyc.
Proof. apply (ck_cache_put norename base_norename), nr_insert_or_touch. Qed.

Theorem put_temp_never_renames cfg k fd p : allc norename (cache_write_temp false cfg k fd p) anyc.
Proof. apply (ck_cache_write_temp norename base_norename false), nr_insert_or_touch. Qed.

(** ** Kernel side: existing bindings *)
Lemma name_of_set_names f n x : name_of (set_names f n) x = alookup path_eqb x n.
Proof. Transparent set_names. reflexivity. Qed.
Lemma name_of_set_inode f i y x : name_of (set_inode f i y) x = name_of f x.
Proof. Transparent set_inode. reflexivity. Qed.
Lemma name_of_set_fd f d y x : name_of (set_fd f d y) x = name_of f x.
Proof. Transparent set_fd. reflexivity. Qed.
Lemma name_of_del_fd f d x : name_of (del_fd f d) x = name_of f x.
Proof. Transparent del_fd. reflexivity. Qed.
Lemma name_of_tick f t x : name_of (tick f t) x = name_of f x.
Proof. Transparent tick. reflexivity. Qed.
Lemma name_of_bump f x : name_of (bump f) x = name_of f x.
Proof. Transparent bump. reflexivity. Qed.
Lemma name_of_afd f y x : name_of (afd f y) x = name_of f x.
Proof. Transparent afd. reflexivity. Qed.
Lemma name_of_aino f y x : name_of (aino f y) x = name_of f x.
Proof. Transparent aino. reflexivity. Qed.
Lemma name_of_drop_link f i x : name_of (drop_link f i) x = name_of f x.
Proof. Transparent drop_link. unfold drop_link. destruct (inode_of f i); reflexivity. Qed.
Lemma names_set_inode f i y : names (set_inode f i y) = names f. Proof. reflexivity. Qed.
Lemma names_bump f : names (bump f) = names f. Proof. reflexivity. Qed.
Lemma names_aino f y : names (aino f y) = names f. Proof. reflexivity. Qed.
Global Opaque set_inode set_fd del_fd set_names tick bump drop_link afd aino.
#[export] Hint Rewrite name_of_set_names name_of_set_inode name_of_set_fd name_of_del_fd name_of_tick name_of_bump
  name_of_afd name_of_aino name_of_drop_link names_set_inode names_bump names_aino : fseff.

Lemma path_eqb_refl x : path_eqb x x = true.
Proof. unfold path_eqb. destruct (path_eq_dec x x); congruence. Qed.
Lemma path_eqb_eq x y : path_eqb x y = true -> x = y.
Proof. unfold path_eqb. destruct (path_eq_dec x y); congruence. Qed.

(** No call other than a rename or an unlink changes what an existing name is bound to. *)
Definition rebinds (c : call) : bool := match c with CRename _ _ | CUnlink _ => true | _ => false end.

Theorem sem_keeps_binding f e c x j :
  rebinds c = false -> name_of f x = Some j -> name_of (fst (sem f e c)) x = Some j.
Proof.
  intros Hc Hx.
  destruct c; cbn [rebinds] in Hc; try discriminate Hc; cbn [sem]; unfold with_inode; sem_split;
    cbn [fst snd]; autorewrite with fseff; try exact Hx; cbn [alookup];
    match goal with
    | |- (if path_eqb x ?q then _ else _) = _ =>
        destruct (path_eqb x q) eqn:He; [apply path_eqb_eq in He; subst; unfold name_of in *; congruence|exact Hx]
    end.
Qed.

(** A link onto an existing name fails and changes nothing at all. *)
Theorem link_onto_existing_fails f e p q cq j :
  resolve f q = inl cq -> name_of f cq = Some j ->
  fst (sem f e (CLink p q)) = f /\ snd (sem f e (CLink p q)) <> ROk.
Proof.
  intros Hq Hj. cbn [sem]. rewrite Hq. unfold with_inode.
  destruct (resolve f p) as [cp|er]; [|split; [reflexivity|discriminate]].
  destruct (name_of f cp); [|split; [reflexivity|discriminate]].
  destruct (is_dir_at f (parent cq)) as [[|]|]; destruct cq; try (split; [reflexivity|discriminate]).
  rewrite Hj. split; [reflexivity|discriminate].
Qed.

(** ** The linearization points, in the kernel model *)

(** An accepted rename binds the destination name to the source's inode, atomically
    (one call): this is where [set] takes effect. *)
Theorem rename_binds f e p q cp cq i :
  resolve f p = inl cp -> resolve f q = inl cq -> name_of f cp = Some i ->
  snd (sem f e (CRename p q)) = ROk -> name_of (fst (sem f e (CRename p q))) cq = Some i.
Proof.
  intros Hp Hq Hi. cbn [sem]. rewrite Hp, Hq, Hi.
  destruct (is_dir_at f (parent cq)) as [[|]|]; destruct cq as [|c0 cq0]; cbn [fst snd]; try discriminate.
  destruct (name_of f (c0 :: cq0)) as [j|] eqn:Hj.
  - destruct (Nat.eqb_spec i j) as [->|Hne]; cbn [fst snd]; [intros _; exact Hj|].
    destruct (inode_of f j) as [yj|]; cbn [fst snd]; try discriminate.
    destruct (i_dir yj); cbn [fst snd]; try discriminate.
    intros _. autorewrite with fseff. cbn [alookup]. rewrite path_eqb_refl. reflexivity.
  - cbn [fst snd]. intros _. autorewrite with fseff. cbn [alookup]. rewrite path_eqb_refl. reflexivity.
Qed.

(** An accepted link binds the (previously absent) destination name to the source's inode. *)
Theorem link_binds f e p q cp cq i :
  resolve f p = inl cp -> resolve f q = inl cq -> name_of f cp = Some i ->
  snd (sem f e (CLink p q)) = ROk -> name_of (fst (sem f e (CLink p q))) cq = Some i.
Proof.
  intros Hp Hq Hi. cbn [sem]. rewrite Hp, Hq, Hi. unfold with_inode.
  destruct (is_dir_at f (parent cq)) as [[|]|]; destruct cq as [|c0 cq0]; cbn [fst snd]; try discriminate.
  destruct (name_of f (c0 :: cq0)); cbn [fst snd]; try discriminate.
  destruct (inode_of f i) as [y|]; cbn [fst snd]; try discriminate.
  destruct (i_dir y); cbn [fst snd]; try discriminate.
  intros _. autorewrite with fseff. cbn [alookup]. rewrite path_eqb_refl. reflexivity.
Qed.

(** A successful open returns a descriptor on the inode the name is bound to at
    that instant: this is where [get] takes effect; whatever happens to the name
    afterwards, the descriptor keeps that inode (Conc/Effect.v, [sem_fdino]). *)
Theorem open_reads_binding f e p a cp d :
  resolve f p = inl cp -> snd (sem f e (COpen p a)) = RFd d ->
  exists i, name_of f cp = Some i /\ fdino (fst (sem f e (COpen p a))) d = Some i.
Proof.
  intros Hp. cbn [sem]. rewrite Hp. unfold with_inode.
  destruct (name_of f cp) as [i|]; cbn [fst snd]; try discriminate.
  destruct (inode_of f i) as [x|]; cbn [fst snd]; try discriminate.
  destruct (i_dir x && _)%bool; cbn [fst snd]; try discriminate.
  rewrite (alloc_fd_eq f). cbn [fst snd]. intros H. injection H as <-.
  exists i. split; [reflexivity|]. autorewrite with fseff. rewrite Nat.eqb_refl. reflexivity.
Qed.
