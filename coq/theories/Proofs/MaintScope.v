(** Scope of maintenance, for arbitrary environment responses: every unlink that
    [definitely_cleanup] issues names a DIRECT ENTRY that it has itself listed in
    the cache directory or in its temp directory, and that entry is either
    (a) not dot-prefixed and was seen by stat to be a non-directory, or
    (b) was seen by stat to be older than the age limit relative to the clock
    reading taken before the scan.  It lists no other directory. *)
From Coq Require Import List NArith ZArith String Bool Arith Lia Permutation.
From Kismet Require Import Pure.SecondChance Pure.Hash FS.Fs FS.Prog Spec.Wp Spec.ClassMon Ops.Ops Proofs.SecondChanceProofs.
Import ListNotations.
Local Open Scope Z_scope.

Record mstate := mkM {
  m_hd : list (nat * path);          (* open directory handles *)
  m_listed : list (path * string);   (* (directory, entry) pairs seen in listings *)
  m_clock : option Z;                (* last clock reading *)
  m_files : list path;               (* paths stat showed to be non-directories *)
  m_stale : list path                (* paths stat showed older than the limit *)
}.

Definition unlink_ok (s : mstate) (p : path) : bool :=
  existsb (fun '(d, n) =>
    (path_eqb p (d ++ [n]) &&
     ((negb (dot_prefixed n) && existsb (path_eqb p) (m_files s)) || existsb (path_eqb p) (m_stale s)))%bool) (m_listed s).

Section Scope.
  Variable dirs : list path.         (* the directories maintenance may list *)

  Definition m_step (s : mstate) (ev : event) : option mstate :=
    match ev with
    | EvNow t => Some (mkM (m_hd s) (m_listed s) (Some t) (m_files s) (m_stale s))
    | EvCall (COpenDir p) r =>
        if existsb (path_eqb p) dirs then
          match r with
          | RFd dh => Some (mkM ((dh, p) :: aremove Nat.eqb dh (m_hd s)) (m_listed s) (m_clock s) (m_files s) (m_stale s))
          | _ => Some s
          end
        else None
    | EvCall (CCloseDir dh) _ => Some (mkM (aremove Nat.eqb dh (m_hd s)) (m_listed s) (m_clock s) (m_files s) (m_stale s))
    | EvCall (CReadDir dh) (RNames l) =>
        match alookup Nat.eqb dh (m_hd s) with
        | Some p => Some (mkM (m_hd s) (map (fun n => (p, n)) l ++ m_listed s) (m_clock s) (m_files s) (m_stale s))
        | None => Some s
        end
    | EvCall (CStat p _) (RStat st) =>
        let files := if st_dir st then m_files s else p :: m_files s in
        let stale := match m_clock s with
                     | Some t => if (st_mtime st <? t - MAX_AGE_NS) then p :: m_stale s else m_stale s
                     | None => m_stale s
                     end in
        Some (mkM (m_hd s) (m_listed s) (m_clock s) files stale)
    | EvCall (CUnlink p) _ => if unlink_ok s p then Some s else None
    | _ => Some s
    end.

  (** Knowledge only grows (handles and the clock aside). *)
  Definition ext (s s' : mstate) : Prop :=
    incl (m_listed s) (m_listed s') /\ incl (m_files s) (m_files s') /\ incl (m_stale s) (m_stale s').

  Lemma ext_refl s : ext s s. Proof. repeat split; apply incl_refl. Qed.
  Lemma ext_trans a b c : ext a b -> ext b c -> ext a c.
  Proof. intros (H1 & H2 & H3) (H4 & H5 & H6). repeat split; eapply incl_tran; eassumption. Qed.

  Lemma existsb_incl {X} (f : X -> bool) l l' : incl l l' -> existsb f l = true -> existsb f l' = true.
  Proof. intros Hi H. apply existsb_exists in H. destruct H as (x & Hx & Hf). apply existsb_exists. exists x. split; auto. Qed.

  Lemma unlink_ok_ext s s' p : ext s s' -> unlink_ok s p = true -> unlink_ok s' p = true.
  Proof.
    intros (H1 & H2 & H3) H. unfold unlink_ok in *. apply existsb_exists in H. destruct H as ([d n] & Hin & Hc).
    apply existsb_exists. exists (d, n). split; [apply H1, Hin|].
    apply andb_true_iff in Hc. destruct Hc as (Hp & Hc). apply andb_true_iff. split; [exact Hp|].
    apply orb_true_iff in Hc. apply orb_true_iff. destruct Hc as [Hc|Hc].
    - left. apply andb_true_iff in Hc. destruct Hc as (Hd & Hf). apply andb_true_iff. split; [exact Hd|eapply existsb_incl; eassumption].
    - right. eapply existsb_incl; eassumption.
  Qed.

  (** Programs that neither unlink nor open a directory only extend the knowledge. *)
  Definition inert (c : call) : bool := match c with CUnlink _ | COpenDir _ => false | _ => true end.

  Lemma step_inert s c r : inert c = true -> exists s', m_step s (EvCall c r) = Some s' /\ ext s s'.
  Proof.
    intros Hc. destruct c; try discriminate Hc; cbn [m_step]; try (exists s; split; [reflexivity|apply ext_refl]).
    - (* CStat *) destruct r; try (exists s; split; [reflexivity|apply ext_refl]).
      eexists. split; [reflexivity|]. unfold ext. cbn [m_listed m_files m_stale].
      split; [apply incl_refl|]. split.
      + destruct (st_dir s0); [apply incl_refl|apply incl_tl, incl_refl].
      + destruct (m_clock s); [|apply incl_refl]. destruct (_ <? _); [apply incl_tl, incl_refl|apply incl_refl].
    - (* CReadDir *) destruct r; try (exists s; split; [reflexivity|apply ext_refl]).
      destruct (alookup Nat.eqb dh (m_hd s)); [|exists s; split; [reflexivity|apply ext_refl]].
      eexists. split; [reflexivity|]. unfold ext. cbn [m_listed m_files m_stale].
      split; [apply incl_appr, incl_refl|]. split; apply incl_refl.
    - (* CCloseDir *) eexists. split; [reflexivity|]. unfold ext. cbn. repeat split; apply incl_refl.
  Qed.

  Lemma frame_inert {A} (p : prog A) (Q : A -> Prop) :
    allc inert p Q -> forall s, wp m_step p (fun a s' => Q a /\ ext s s') s.
  Proof.
    unfold allc.
    induction p as [a|c k IH|k IH|w k IH|n k IH|h i k IH|h i v k IH|k IH|t pl k IH]; cbn [wp]; unfold after; cbn [k_step]; intros H s.
    - split; [exact H|apply ext_refl].
    - intros r. specialize (H r). destruct (inert c) eqn:Hc; [|contradiction].
      destruct (step_inert s c r Hc) as (s1 & Hs & He). rewrite Hs.
      eapply wp_mono; [|apply IH, H]. intros a s' (Hq & He'). split; [exact Hq|eapply ext_trans; eassumption].
    - intros t. cbn [m_step]. eapply wp_mono; [|apply IH, H]. intros a s' (Hq & He'). split; [exact Hq|].
      eapply ext_trans; [|exact He']. unfold ext. cbn. repeat split; apply incl_refl.
    - intros b. cbn [m_step]. apply IH, H.
    - intros x. cbn [m_step]. apply IH, H.
    - intros x. apply IH, H.
    - apply IH, H.
    - intros x. cbn [m_step]. apply IH, H.
    - cbn [m_step]. apply IH, H.
  Qed.

  (** *** prune *)
  Definition good (dir : path) (s : mstate) (f : cfile) : Prop :=
    In (dir, cf_name f) (m_listed s) /\ dot_prefixed (cf_name f) = false /\ In (dir ++ [cf_name f]) (m_files s).

  Lemma path_eqb_refl x : path_eqb x x = true.
  Proof. unfold path_eqb. destruct (path_eq_dec x x); congruence. Qed.

  Lemma in_existsb_path p l : In p l -> existsb (path_eqb p) l = true.
  Proof. intros H. apply existsb_exists. exists p. split; [exact H|apply path_eqb_refl]. Qed.

  Lemma good_unlink_ok dir s f : good dir s f -> unlink_ok s (dir ++ [cf_name f]) = true.
  Proof.
    intros (Hl & Hd & Hf). unfold unlink_ok. apply existsb_exists. exists (dir, cf_name f). split; [exact Hl|].
    rewrite path_eqb_refl, Hd. cbn. rewrite (in_existsb_path _ _ Hf). reflexivity.
  Qed.

  Lemma good_ext dir s s' f : ext s s' -> good dir s f -> good dir s' f.
  Proof. intros (H1 & H2 & H3) (Hl & Hd & Hf). split; [apply H1, Hl|]. split; [exact Hd|apply H2, Hf]. Qed.

  Lemma collect_loop_scope dir dh names : forall acc count s,
    (forall n, In n names -> In (dir, n) (m_listed s)) -> Forall (good dir s) acc ->
    wp m_step (collect_loop dir dh names acc count)
       (fun r s' => ext s s' /\ match r with Ok (files, _) => Forall (good dir s') files | _ => True end) s.
  Proof.
    induction names as [|n rest IH]; intros acc count s Hn Hacc; cbn [collect_loop].
    - cbn [wp]. split; [apply ext_refl|]. apply Forall_rev. exact Hacc.
    - destruct (dot_prefixed n) eqn:Hdot.
      + apply IH; [intros x Hx; apply Hn; right; exact Hx|exact Hacc].
      + cbn [bind call1 wp]. intros r. unfold after.
        destruct r as [| |st| | |er].
        * cbn [m_step wp bind]. unfold after. cbn [m_step]. cbn [wp]. split; [|exact I].
          unfold ext. cbn. repeat split; apply incl_refl.
        * cbn [m_step wp bind]. unfold after. cbn [m_step]. cbn [wp]. split; [|exact I].
          unfold ext. cbn. repeat split; apply incl_refl.
        * cbn [m_step].
          match goal with |- wp _ _ _ ?s1 => set (s1' := s1) end.
          assert (He : ext s s1').
          { unfold ext, s1'. cbn [m_listed m_files m_stale]. split; [apply incl_refl|]. split.
            - destruct (st_dir st); [apply incl_refl|apply incl_tl, incl_refl].
            - destruct (m_clock s); [|apply incl_refl]. destruct (_ <? _); [apply incl_tl, incl_refl|apply incl_refl]. }
          assert (Hn' : forall x, In x rest -> In (dir, x) (m_listed s1')) by (intros x Hx; apply (Hn x); right; exact Hx).
          assert (Hacc' : Forall (good dir s1') acc) by (eapply Forall_impl; [|exact Hacc]; intros f; apply good_ext, He).
          destruct (st_dir st) eqn:Hdir.
          -- eapply wp_mono; [|apply IH; assumption]. intros a s' (He' & Hq). split; [eapply ext_trans; eassumption|exact Hq].
          -- eapply wp_mono; [|apply IH; [exact Hn'|]].
             ++ intros a s' (He' & Hq). split; [eapply ext_trans; eassumption|exact Hq].
             ++ constructor; [|exact Hacc']. unfold good. cbn [cf_name].
                split; [apply Hn; left; reflexivity|]. split; [exact Hdot|]. unfold s1'. cbn [m_files]. left. reflexivity.
        * cbn [m_step wp bind]. unfold after. cbn [m_step]. cbn [wp]. split; [|exact I].
          unfold ext. cbn. repeat split; apply incl_refl.
        * cbn [m_step wp bind]. unfold after. cbn [m_step]. cbn [wp]. split; [|exact I].
          unfold ext. cbn. repeat split; apply incl_refl.
        * cbn [m_step]. destruct (is_absent (OsErr er)).
          -- apply IH; [intros x Hx; apply Hn; right; exact Hx|exact Hacc].
          -- cbn [wp bind quiet call1]. intros r. unfold after. cbn [m_step]. cbn [wp]. split; [|exact I].
             unfold ext. cbn. repeat split; apply incl_refl.
  Qed.

  Lemma collect_scope dir : existsb (path_eqb dir) dirs = true -> forall s,
    wp m_step (collect_cached_files dir)
       (fun r s' => ext s s' /\ match r with Ok (_, files, _) => Forall (good dir s') files | _ => True end) s.
  Proof.
    intros Hdir s. unfold collect_cached_files, try, fd_call. cbn [bind call1 wp]. intros r. unfold after. cbn [m_step]. rewrite Hdir.
    destruct r as [|dh| | | |er]; try (cbn [wp]; split; [apply ext_refl|exact I]).
    cbn [wp bind]. intros r2. unfold after.
    destruct r2 as [| | | |names|er2];
      try (cbn [m_step wp bind quiet call1]; intros r3; unfold after; cbn [m_step wp]; split; [|exact I]; unfold ext; cbn; repeat split; apply incl_refl).
    cbn [m_step m_hd alookup]. rewrite Nat.eqb_refl.
    match goal with |- wp _ _ _ ?s1 => set (s1' := s1) end.
    assert (He : ext s s1') by (unfold ext, s1'; cbn; split; [apply incl_appr, incl_refl|split; apply incl_refl]).
    apply wp_bind. eapply wp_mono; [|apply (collect_loop_scope dir dh names [] 0%N s1')].
    - intros [[files count]|e|] s2 (He2 & Hq); cbn [wp]; (split; [eapply ext_trans; eassumption|]); auto.
    - intros n Hn. unfold s1'. cbn [m_listed]. apply in_or_app. left. apply in_map_iff. exists n. auto.
    - constructor.
  Qed.

  Lemma combine_seq_nth {X} (l : list X) d : forall a i x,
    In (i, x) (combine (seq a (List.length l)) l) -> nth (i - a) l d = x /\ (a <= i)%nat.
  Proof.
    induction l as [|y l IH]; intros a i x H; cbn in H; [contradiction|].
    destruct H as [H|H].
    - injection H as <- <-. rewrite Nat.sub_diag. split; [reflexivity|lia].
    - destruct (IH (S a) i x H) as (Hn & Hle). split; [|lia].
      replace (i - a)%nat with (S (i - S a)) by lia. exact Hn.
  Qed.

  Lemma name_at_in files e : In e (entries_of files) -> exists f, In f files /\ name_at files e = cf_name f.
  Proof.
    unfold entries_of. intros H. apply in_map_iff in H. destruct H as ([i f] & <- & Hin).
    exists f. split; [eapply in_combine_r; exact Hin|].
    unfold name_at. cbn [eid]. destruct (combine_seq_nth files (mkCfile EmptyString 0 false) 0 i f Hin) as (Hn & _).
    rewrite Nat.sub_0_r in Hn. rewrite Hn. reflexivity.
  Qed.

  Lemma evict_loop_scope dir names : forall s,
    Forall (fun n => unlink_ok s (dir ++ [n]) = true) names ->
    wp m_step (evict_loop dir names) (fun _ s' => s' = s) s.
  Proof.
    induction names as [|n rest IH]; intros s H; cbn [evict_loop]; [reflexivity|].
    inversion H as [|x l Hn Hrest]; subst.
    unfold try, ensure_file_removed, unit_call. cbn [bind call1 wp]. intros r. unfold after. cbn [m_step]. rewrite Hn.
    destruct r as [| | | | |er]; cbn [wp bind]; try (apply IH; exact Hrest).
    destruct (is_absent (OsErr er)); cbn [wp]; [apply IH; exact Hrest|reflexivity].
  Qed.

  Hint Extern 1 (inert _ = true) => reflexivity : allc.
  Hint Resolve allc_call : allc.
  Lemma cm_set_times_inert p a m : allc inert (set_times p a m) (fun _ => True).
  Proof. unfold set_times, unit_call, quiet. allc_auto. Qed.
  Lemma move_back_inert dir names : allc inert (move_back_loop dir names) (fun _ => True).
  Proof.
    induction names as [|n rest IH]; cbn [move_back_loop]; [apply allc_ret; exact I|].
    unfold move_to_back_of_list. cbn [bind]. apply allc_now. intros t.
    eapply allc_bind; [apply cm_set_times_inert|]. intros [u|e|] _; try exact IH; [destruct (is_absent e); [exact IH|apply allc_ret; exact I]|apply allc_ret; exact I].
  Qed.

  Theorem prune_scope dir cap : existsb (path_eqb dir) dirs = true -> forall s,
    wp m_step (prune dir cap) (fun _ s' => ext s s') s.
  Proof.
    intros Hdir s. unfold prune, try. apply wp_bind. eapply wp_mono; [|apply (collect_scope dir Hdir s)].
    intros [[[dh files] count]|e|] s1 (He & Hgood); try (cbn [wp]; exact He).
    destruct (plan (entries_of files) cap) as [[ev mb]|] eqn:Hplan.
    - cbn [bind quiet call1 wp]. intros r. unfold after. cbn [m_step].
      match goal with |- wp _ _ _ ?s2 => set (s2' := s2) end.
      assert (He2 : ext s1 s2') by (unfold ext, s2'; cbn; repeat split; apply incl_refl).
      apply wp_bind. apply wp_bind.
      assert (Hev : Forall (fun n => unlink_ok s2' (dir ++ [n]) = true) (map (name_at files) ev)).
      { apply Forall_forall. intros n Hn. apply in_map_iff in Hn. destruct Hn as (e & <- & Hin).
        assert (Hin' : In e (entries_of files)).
        { eapply Permutation_in; [apply (plan_partition _ _ _ _ Hplan)|]. apply in_or_app. left. exact Hin. }
        destruct (name_at_in files e Hin') as (f & Hf & ->).
        apply good_unlink_ok. eapply good_ext; [exact He2|]. eapply Forall_forall; [exact Hgood|exact Hf]. }
      eapply wp_mono; [|apply (evict_loop_scope dir _ s2' Hev)].
      intros [u|e|] s3 ->; cbn [wp].
      + eapply wp_mono; [|apply (frame_inert _ _ (move_back_inert dir (map (name_at files) mb)) s2')].
        intros a s4 (_ & He4). cbn [wp]. destruct a; exact (ext_trans _ _ _ He (ext_trans _ _ _ He2 He4)).
      + exact (ext_trans _ _ _ He He2).
      + exact (ext_trans _ _ _ He He2).
    - cbn [bind quiet call1 wp]. intros r. unfold after. cbn [m_step wp].
      eapply ext_trans; [exact He|]. unfold ext. cbn. repeat split; apply incl_refl.
  Qed.

  (** *** temp-directory cleanup *)
  Lemma cleanup_loop_scope temp t names : forall s,
    m_clock s = Some t -> (forall n, In n names -> In (temp, n) (m_listed s)) ->
    wp m_step (cleanup_temp_loop temp names (t - MAX_AGE_NS)) (fun _ s' => ext s s') s.
  Proof.
    induction names as [|n rest IH]; intros s Hc Hn; cbn [cleanup_temp_loop]; [cbn [wp]; apply ext_refl|].
    cbn [bind call1 wp]. intros r. unfold after.
    assert (Hrest : forall x, In x rest -> In (temp, x) (m_listed s)) by (intros x Hx; apply Hn; right; exact Hx).
    destruct r as [| |st| | |er]; try (cbn [m_step]; apply IH; assumption).
    cbn [m_step]. rewrite Hc.
    match goal with |- wp _ _ _ ?s1 => set (s1' := s1) end.
    assert (He : ext s s1').
    { unfold ext, s1'. cbn [m_listed m_files m_stale]. split; [apply incl_refl|]. split.
      - destruct (st_dir st); [apply incl_refl|apply incl_tl, incl_refl].
      - destruct (_ <? _); [apply incl_tl, incl_refl|apply incl_refl]. }
    assert (Hc' : m_clock s1' = Some t) by reflexivity.
    assert (Hn' : forall x, In x rest -> In (temp, x) (m_listed s1')) by (intros x Hx; apply Hrest, Hx).
    destruct (st_mtime st <? t - MAX_AGE_NS) eqn:Hold.
    - cbn [bind quiet call1 wp]. intros r2. unfold after. cbn [m_step].
      assert (Hok : unlink_ok s1' (temp ++ [n]) = true).
      { unfold unlink_ok. apply existsb_exists. exists (temp, n). split; [apply Hn; left; reflexivity|].
        rewrite path_eqb_refl. cbn [andb]. apply orb_true_iff. right. unfold s1'. cbn [m_stale].
        cbn [existsb]. rewrite path_eqb_refl. reflexivity. }
      rewrite Hok. cbn [wp bind]. eapply wp_mono; [|apply (IH s1' Hc' Hn')]. intros a s' He'. eapply ext_trans; eassumption.
    - unfold skip. cbn [bind wp]. eapply wp_mono; [|apply (IH s1' Hc' Hn')]. intros a s' He'. eapply ext_trans; eassumption.
  Qed.

  Theorem cleanup_temp_scope temp : existsb (path_eqb temp) dirs = true -> forall s,
    wp m_step (cleanup_temporary_directory temp) (fun _ s' => ext s s') s.
  Proof.
    intros Hdir s. unfold cleanup_temporary_directory. cbn [wp]. intros t. unfold after. cbn [m_step].
    match goal with |- wp _ _ _ ?s0 => set (s0' := s0) end.
    assert (He0 : ext s s0') by (unfold ext, s0'; cbn; repeat split; apply incl_refl).
    destruct (t <? MAX_AGE_NS); [cbn [wp]; exact He0|].
    cbn [bind call1 wp]. intros r. unfold after. cbn [m_step]. rewrite Hdir.
    destruct r as [|dh| | | |er]; try (cbn [wp]; exact He0).
    cbn [bind wp]. intros r2. unfold after.
    destruct r2 as [| | | |names|er2];
      try (cbn [m_step skip bind quiet call1 wp]; intros r3; unfold after; cbn [m_step wp];
           eapply ext_trans; [exact He0|]; unfold ext; cbn; repeat split; apply incl_refl).
    cbn [m_step m_hd alookup]. rewrite Nat.eqb_refl.
    match goal with |- wp _ _ _ ?s1 => set (s1' := s1) end.
    assert (He1 : ext s0' s1') by (unfold ext, s1'; cbn; split; [apply incl_appr, incl_refl|split; apply incl_refl]).
    apply wp_bind. eapply wp_mono; [|apply (cleanup_loop_scope temp t names s1')].
    - intros [] s2 He2. cbn [bind quiet call1 wp]. intros r3. unfold after. cbn [m_step wp].
      eapply ext_trans; [exact He0|]. eapply ext_trans; [exact He1|]. eapply ext_trans; [exact He2|].
      unfold ext. cbn. repeat split; apply incl_refl.
    - reflexivity.
    - intros n Hn. unfold s1'. cbn [m_listed]. apply in_or_app. left. apply in_map_iff. exists n. auto.
  Qed.

  (** *** the whole maintenance step *)
  Theorem definitely_cleanup_scope d base :
    existsb (path_eqb base) dirs = true -> existsb (path_eqb (cd_temp d)) dirs = true -> forall s,
    wp m_step (definitely_cleanup d base) (fun _ s' => ext s s') s.
  Proof.
    intros Hb Ht s. unfold definitely_cleanup, try. apply wp_bind.
    eapply wp_mono; [|apply (prune_scope base (cd_cap d) Hb s)].
    intros [[est nev]|e|] s1 He; cbn [wp]; try exact He.
    apply wp_bind. eapply wp_mono; [|apply (cleanup_temp_scope (cd_temp d) Ht s1)].
    intros [u|e|] s2 He2; cbn [wp]; eapply ext_trans; eassumption.
  Qed.
End Scope.

Definition m_init : mstate := mkM [] [] None [] [].

(** On every sequential run: the monitor accepts the whole trace. *)
Theorem definitely_cleanup_scope_run d base w o :
  let '(_, _, _, tr) := run (definitely_cleanup d base) w o in
  exists s', mon_run (m_step [base; cd_temp d]) m_init tr = Some s'.
Proof.
  assert (Hb : existsb (path_eqb base) [base; cd_temp d] = true) by (cbn; rewrite path_eqb_refl; reflexivity).
  assert (Ht : existsb (path_eqb (cd_temp d)) [base; cd_temp d] = true) by (cbn; rewrite path_eqb_refl, orb_true_r; reflexivity).
  pose proof (wp_run (m_step [base; cd_temp d]) _ _ m_init w o (definitely_cleanup_scope _ d base Hb Ht m_init)) as H.
  destruct (run (definitely_cleanup d base) w o) as [[[a w'] o'] tr]. destruct H as (s' & Hm & _). eauto.
Qed.
