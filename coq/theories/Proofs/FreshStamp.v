(** Writes enqueue their value fresh: for arbitrary environment responses, every
    publishing rename or link issued by set / put (plain or sharded, retry
    included) is preceded, since the last clock reading [t], by an accepted
    futimens with modification time [t] and access time [t - 120 s]: the new
    entry goes to the back of the eviction queue, unmarked. *)
From Coq Require Import List NArith ZArith String Bool Arith Lia.
From Kismet Require Import Pure.Hash FS.Fs FS.Prog Spec.Wp Spec.ClassMon Spec.Calm Spec.Chain Ops.Ops.
Import ListNotations.
Local Open Scope Z_scope.

Definition fstate := (option Z * bool)%type.     (* last clock reading, stamped since *)

Definition f_step (s : fstate) (ev : event) : option fstate :=
  match ev with
  | EvNow t => Some (Some t, false)
  | EvCall (CFutimens _ (Some a) (Some m)) r =>
      match r, fst s with
      | RErr _, _ => Some s
      | _, Some t => if ((m =? t) && (a =? t - DELTA_NS))%bool then Some (fst s, true) else Some s
      | _, None => Some s
      end
  | EvCall (CRename _ _) _ | EvCall (CLink _ _) _ => if snd s then Some s else None
  | _ => Some s
  end.

Definition fr {A} (p : prog A) : Prop := forall s, wp f_step p (fun _ _ => True) s.

Lemma fr_bind {A B} (p : prog A) (f : A -> prog B) : fr p -> (forall a, fr (f a)) -> fr (bind p f).
Proof. intros Hp Hf s. apply wp_bind. eapply wp_mono; [|apply Hp]. intros a s' _. apply Hf. Qed.
Lemma fr_ret {A} (a : A) : fr (Ret a). Proof. intros s. exact I. Qed.

(** Programs without rename or link are trivially fine. *)
Definition nrl (c : call) : bool := match c with CRename _ _ | CLink _ _ => false | _ => true end.
Lemma base_nrl c : base c = true -> nrl c = true.
Proof. destruct c; cbn; auto. Qed.

Lemma fr_of_nrl {A} (p : prog A) Q : allc nrl p Q -> fr p.
Proof.
  unfold allc, fr.
  induction p as [a|c k IH|k IH|w k IH|n k IH|h i k IH|h i v k IH|k IH|t pl k IH]; cbn [wp]; unfold after; cbn [k_step]; intros H s; auto.
  - intros r. specialize (H r). destruct (nrl c) eqn:Hc; [|contradiction].
    assert (Hs : exists s1, f_step s (EvCall c r) = Some s1).
    { destruct c; try discriminate Hc; cbn [f_step]; eauto.
      destruct atime, mtime; eauto. destruct r, (fst s); eauto; destruct (_ && _); eauto. }
    destruct Hs as (s1 & Hs). rewrite Hs. apply IH, H.
  - intros t. cbn [f_step]. apply IH, H.
  - intros b. cbn [f_step]. apply IH, H.
  - intros x. cbn [f_step]. apply IH, H.
  - intros x. cbn [f_step]. apply IH, H.
  - cbn [f_step]. apply IH, H.
Qed.

Lemma fr_try {A B} (p : prog (outcome A)) (f : A -> prog (outcome B)) : fr p -> (forall a, fr (f a)) -> fr (try p f).
Proof. intros Hp Hf. unfold try. apply fr_bind; [exact Hp|]. intros [a|e|]; [apply Hf|apply fr_ret|apply fr_ret]. Qed.

(** The stamping step: after [move_to_back_of_list p] returns Ok, the state is "stamped". *)
Lemma stamp_then {B} p (f : unit -> prog (outcome B)) :
  (forall t, wp f_step (f tt) (fun _ _ => True) (Some t, true)) ->
  fr (try (move_to_back_of_list p) f).
Proof.
  intros Hf s. unfold try, move_to_back_of_list. cbn [bind wp]. intros t. unfold after. cbn [f_step].
  unfold set_times. cbn [bind call1 wp]. intros r. unfold after. cbn [f_step].
  assert (Hgo : forall fd, wp f_step
      (x <- (x <- unit_call (CFutimens fd (Some (t - DELTA_NS)) (Some t)) ;; quiet (CClose fd) ;;; Ret x) ;;
       match x with Ok a => f a | Err e => Ret (Err e) | Panic => Ret Panic end) (fun _ _ => True) (Some t, false)).
  { intros fd. unfold unit_call, quiet. cbn [bind call1 wp]. intros r2. unfold after. cbn [f_step fst].
    rewrite !Z.eqb_refl. cbn [andb].
    destruct r2 as [| | | | |er]; cbn [wp bind]; intros r3; unfold after; cbn [f_step wp]; try apply Hf; exact I. }
  destruct r as [|fd| | | |er]; try (cbn [wp bind]; intros r2; unfold after; cbn [f_step];
    destruct r2 as [|fd2| | | |er2]; cbn [wp bind]; try exact I; apply Hgo).
  apply Hgo.
Qed.

#[local] Hint Extern 1 (nrl _ = true) => reflexivity : allc.
#[local] Hint Resolve allc_call : allc.

Lemma fr_insert_or_update a b : fr (insert_or_update a b).
Proof.
  unfold insert_or_update. apply stamp_then. intros t.
  unfold try, set_read_only, stat_call, unit_call, ensure_file_removed. cbn [bind call1 wp]. intros r. unfold after. cbn [f_step].
  destruct r as [| |st| | |er]; cbn [wp bind]; try exact I.
  intros r2. unfold after. cbn [f_step]. destruct r2 as [| | | | |er2]; cbn [wp bind]; try exact I;
    intros r3; unfold after; cbn [f_step snd]; destruct r3 as [| | | | |er3]; cbn [wp bind]; try exact I;
    intros r4; unfold after; cbn [f_step wp]; exact I.
Qed.

Lemma fr_insert_or_touch a b : fr (insert_or_touch a b).
Proof.
  unfold insert_or_touch. apply stamp_then. intros t.
  unfold try at 1. unfold set_read_only, stat_call, unit_call. cbn [bind call1 wp]. intros r. unfold after. cbn [f_step].
  destruct r as [| |st| | |er]; cbn [wp bind]; try exact I.
  intros r2. unfold after. cbn [f_step].
  assert (Hrest : forall s0 : fstate, snd s0 = true -> wp f_step
     (r0 <- call1 (CLink a b);;
      match r0 with
      | RErr EEXIST => try (touch b) (fun _ : bool => ensure_file_removed a)
      | RErr e => Ret (Err (OsErr e))
      | _ => ensure_file_removed a
      end) (fun _ _ => True) s0).
  { intros s0 Hs0. cbn [bind call1 wp]. intros r3. unfold after. cbn [f_step]. rewrite Hs0.
    assert (Hfin : fr (ensure_file_removed a)) by (eapply fr_of_nrl with (Q := anyc); unfold ensure_file_removed, unit_call; allc_auto).
    assert (Htouch : fr (try (touch b) (fun _ : bool => ensure_file_removed a))).
    { apply fr_try; [|intros _; exact Hfin]. eapply fr_of_nrl with (Q := anyc). unfold touch, set_times, unit_call, quiet. allc_auto. }
    destruct r3 as [| | | | |er3]; try apply Hfin. destruct er3; try (cbn [wp]; exact I). apply Htouch. }
  destruct r2 as [| | | | |er2]; cbn [wp bind]; try exact I; apply Hrest; reflexivity.
Qed.

(** The chain above the two primitives: everything else has no rename/link. *)
Ltac nrl_tac L := eapply fr_of_nrl with (Q := anyc); first [apply L; exact base_nrl | apply L].
Lemma fr_cd_publish ins d name value : (forall a b, fr (ins a b)) -> fr (cd_publish ins d name value).
Proof.
  intros Hins. unfold cd_publish. destruct (validate name); try apply fr_ret.
  apply fr_try; [nrl_tac ck_maybe_cleanup|]. intros ret.
  apply fr_bind; [apply Hins|]. intros [u|e|]; try apply fr_ret;
    (apply fr_try; [nrl_tac ck_create_dir_all|]; intros _; apply fr_try; [apply Hins|intros _; apply fr_ret]).
Qed.

Lemma fr_sh_publish ins h dir n t k v : (forall d name value, fr (ins d name value)) -> fr (sh_publish ins h dir n t k v).
Proof.
  intros Hins. unfold sh_publish. apply fr_bind; [nrl_tac ck_sort_by_load|]. intros [h1 h2].
  apply fr_try; [nrl_tac ck_file_exists|]. intros ex.
  apply fr_try; [apply Hins|]. intros upd.
  apply fr_bind; [nrl_tac ck_update_estimate|]. intros _.
  destruct upd.
  - intros s. cbn [wp]. intros r. unfold after. cbn [f_step]. nrl_tac ck_force_maintain.
  - intros s. cbn [wp]. intros l. destruct (_ <? _)%N; [|apply fr_ret].
    cbn [wp]. unfold after. cbn [f_step]. nrl_tac ck_force_maintain.
Qed.

Theorem fr_f_set h f k v : fr (f_set h f k v).
Proof.
  unfold f_set, drop_opt. destruct f.
  - apply fr_try; [apply fr_cd_publish, fr_insert_or_update|intros _; apply fr_ret].
  - apply fr_sh_publish. intros. apply fr_cd_publish, fr_insert_or_update.
Qed.
Theorem fr_f_put h f k v : fr (f_put h f k v).
Proof.
  unfold f_put, drop_opt. destruct f.
  - apply fr_try; [apply fr_cd_publish, fr_insert_or_touch|intros _; apply fr_ret].
  - apply fr_sh_publish. intros. apply fr_cd_publish, fr_insert_or_touch.
Qed.
Theorem fr_cache_set cfg k v : fr (cache_set cfg k v).
Proof.
  unfold cache_set. apply fr_try; [nrl_tac ck_maybe_sync|]. intros _.
  unfold write_impl. destruct (s_writer cfg); [apply fr_f_set|apply fr_ret].
Qed.
Theorem fr_cache_put cfg k v : fr (cache_put cfg k v).
Proof.
  unfold cache_put. apply fr_try; [nrl_tac ck_maybe_sync|]. intros _.
  unfold write_impl. destruct (s_writer cfg); [apply fr_f_put|apply fr_ret].
Qed.

(** On every sequential run: the monitor accepts the trace from the initial state. *)
Theorem fresh_stamp_run {A} (p : prog A) : fr p -> forall w o,
  let '(_, _, _, tr) := run p w o in exists s', mon_run f_step (None, false) tr = Some s'.
Proof.
  intros H w o. pose proof (wp_run f_step p _ (None, false) w o (H _)) as Hr.
  destruct (run p w o) as [[[a w'] o'] tr]. destruct Hr as (s' & Hm & _). eauto.
Qed.
