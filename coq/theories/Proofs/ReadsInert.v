(** Lookups and touches are inert: through any stack of plain / sharded /
    read-only caches, with any checker that itself only reads, on every
    sequential run with any injected fault, a lookup or a touch leaves EVERY name
    bound as it was and EVERY file's contents as they were (they only move
    access / modification times through descriptors). *)
From Coq Require Import List NArith ZArith String Bool Arith Lia.
From Kismet Require Import Pure.Hash FS.Fs FS.Prog Spec.Wp Spec.ClassMon Spec.Calm Ops.Ops Conc.Effect Seq.Plain Seq.Steps Seq.Bind Seq.Sane Proofs.KvSeq.
Import ListNotations.

Definition reads_ok (c : call) : bool := (calm c && match rebind_paths c with [] => true | _ => false end)%bool.

Notation rd := (allc reads_ok).
#[local] Hint Extern 1 (reads_ok _ = true) => reflexivity : allc.
#[local] Hint Resolve allc_call : allc.

Lemma rd_unit_call c : reads_ok c = true -> rd (unit_call c) anyc.
Proof. intros H. unfold unit_call. allc_auto. Qed.
Lemma rd_stat_call c : reads_ok c = true -> rd (stat_call c) anyc.
Proof. intros H. unfold stat_call. allc_auto. Qed.
Lemma rd_quiet c : reads_ok c = true -> rd (quiet c) anyc.
Proof. intros H. unfold quiet. allc_auto. Qed.
#[local] Hint Resolve rd_unit_call rd_stat_call rd_quiet : allc.

Lemma rd_set_atime p a : rd (set_times p a None) anyc.
Proof. unfold set_times. allc_auto. Qed.
#[local] Hint Resolve rd_set_atime : allc.
Lemma rd_touch p : rd (touch p) anyc.
Proof. unfold touch. allc_auto. Qed.
Lemma rd_ensure_file_touched fd : rd (ensure_file_touched fd) anyc.
Proof. unfold ensure_file_touched, try. allc_auto. Qed.
#[local] Hint Resolve rd_touch rd_ensure_file_touched : allc.
Lemma rd_cd_get d name : rd (cd_get d name) anyc.
Proof. unfold cd_get. destruct (validate name); allc_auto. Qed.
Lemma rd_cd_touch d name : rd (cd_touch d name) anyc.
Proof. unfold cd_touch. destruct (validate name); allc_auto. Qed.
#[local] Hint Resolve rd_cd_get rd_cd_touch : allc.
Lemma rd_sh_get dir n t k : rd (sh_get dir n t k) anyc.
Proof. unfold sh_get, try. destruct (shard_ids _ _ _). allc_auto. Qed.
Lemma rd_sh_touch dir n t k : rd (sh_touch dir n t k) anyc.
Proof. unfold sh_touch, try. destruct (shard_ids _ _ _). allc_auto. Qed.
#[local] Hint Resolve rd_sh_get rd_sh_touch : allc.
Lemma rd_f_get f k : rd (f_get f k) anyc.
Proof. unfold f_get. destruct f; allc_auto. Qed.
Lemma rd_f_touch f k : rd (f_touch f k) anyc.
Proof. unfold f_touch. destruct f; allc_auto. Qed.
#[local] Hint Resolve rd_f_get rd_f_touch : allc.

Definition chk_rd (ck : checker) := forall a b, rd (ck a b) anyc.
Definition chko_rd (chk : option checker) := match chk with Some ck => chk_rd ck | None => True end.
Lemma rd_ro_get_loop stack : forall chk k ret, chko_rd chk -> rd (ro_get_loop stack chk k ret) anyc.
Proof.
  induction stack as [|c rest IH]; intros chk k ret Hck; cbn [ro_get_loop]; unfold try_c, skip.
  - allc_auto.
  - pose proof (fun r => IH chk k r Hck). destruct chk as [ck|]; [unfold chko_rd, chk_rd in Hck|]; destruct ret; allc_auto.
Qed.
Lemma rd_ro_get stack chk k : chko_rd chk -> rd (ro_get stack chk k) anyc.
Proof. intros H. unfold ro_get. destruct stack; [allc_auto|apply rd_ro_get_loop, H]. Qed.
Lemma rd_ro_touch stack k : rd (ro_touch stack k) anyc.
Proof. induction stack as [|c rest IH]; cbn [ro_touch]; unfold try; allc_auto. Qed.
#[local] Hint Resolve rd_ro_touch : allc.
Lemma rd_with_checked cfg k f : chko_rd (s_checker cfg) -> rd (with_checked cfg k f (Ret (Ok f))) anyc.
Proof.
  intros Hc. unfold with_checked, try_c.
  pose proof (rd_ro_get (s_readers cfg) (s_checker cfg) k Hc).
  destruct (s_checker cfg) as [ck|]; [unfold chko_rd, chk_rd in Hc|]; allc_auto.
Qed.
Theorem rd_cache_get cfg k : chko_rd (s_checker cfg) -> rd (cache_get cfg k) anyc.
Proof.
  intros Hc. unfold cache_get, try.
  pose proof (fun f => rd_with_checked cfg k f Hc).
  pose proof (rd_ro_get (s_readers cfg) (s_checker cfg) k Hc).
  destruct (s_writer cfg); allc_auto.
Qed.
Theorem rd_cache_touch cfg k : rd (cache_touch cfg k) anyc.
Proof. unfold cache_touch, try. destruct (s_writer cfg); allc_auto. Qed.


(** ** what the class means along a run *)
Lemma reads_ok_spares c x : reads_ok c = true -> spares x c = true.
Proof. unfold reads_ok, spares. intros H. apply andb_true_iff in H. destruct H as (_ & H). destruct (rebind_paths c); [reflexivity|discriminate]. Qed.

Lemma steps_keep_names f tr f' : steps step1 f tr f' ->
  Forall (fun ev => match ev with EvCall c _ => reads_ok c = true | _ => True end) tr ->
  forall x, name_of f' x = name_of f x.
Proof.
  induction 1 as [f|f ev f1 tr f2 H1 Hs IH]; intros Hall x; [reflexivity|].
  inversion Hall as [|? ? Hev Hrest]; subst. rewrite (IH Hrest x).
  apply (step1_spares _ _ _ x H1). destruct ev; try exact I. apply reads_ok_spares, Hev.
Qed.

Theorem inert_run {A} (p : prog A) Q : rd p Q -> forall w o,
  let '(_, w', _, _) := run p w o in
  (forall x, name_of (w_fs w') x = name_of (w_fs w) x) /\
  (forall i D, data (w_fs w) i = Some D -> i < next_ino (w_fs w) -> data (w_fs w') i = Some D).
Proof.
  intros Hp w o. pose proof (allc_run reads_ok p Q Hp w o) as Hr. pose proof (run_steps p w o) as Hs.
  destruct (run p w o) as [[[a w'] o'] tr]. destruct Hr as (_ & Hall). split.
  - exact (steps_keep_names _ _ _ Hs Hall).
  - intros i D HD Hi. refine (proj1 (steps_keep_data _ _ _ Hs _ i D HD Hi)).
    eapply Forall_impl; [|exact Hall]. intros [c r| | | | | ]; auto. unfold reads_ok. intros H. apply andb_true_iff in H. exact (proj1 H).
Qed.

Theorem reads_change_nothing cfg k w o : chko_rd (s_checker cfg) ->
  (let '(_, w', _, _) := run (cache_get cfg k) w o in
   (forall x, name_of (w_fs w') x = name_of (w_fs w) x) /\
   (forall i D, data (w_fs w) i = Some D -> i < next_ino (w_fs w) -> data (w_fs w') i = Some D)) /\
  (let '(_, w', _, _) := run (cache_touch cfg k) w o in
   (forall x, name_of (w_fs w') x = name_of (w_fs w) x) /\
   (forall i D, data (w_fs w) i = Some D -> i < next_ino (w_fs w) -> data (w_fs w') i = Some D)).
Proof. intros Hc. split; [exact (inert_run _ _ (rd_cache_get cfg k Hc) w o)|exact (inert_run _ _ (rd_cache_touch cfg k) w o)]. Qed.

Theorem read_only_api_changes_nothing stack chk k w o : chko_rd chk ->
  (let '(_, w', _, _) := run (ro_get stack chk k) w o in
   (forall x, name_of (w_fs w') x = name_of (w_fs w) x) /\
   (forall i D, data (w_fs w) i = Some D -> i < next_ino (w_fs w) -> data (w_fs w') i = Some D)) /\
  (let '(_, w', _, _) := run (ro_touch stack k) w o in
   (forall x, name_of (w_fs w') x = name_of (w_fs w) x) /\
   (forall i D, data (w_fs w) i = Some D -> i < next_ino (w_fs w) -> data (w_fs w') i = Some D)).
Proof. intros Hc. split; [exact (inert_run _ _ (rd_ro_get stack chk k Hc) w o)|exact (inert_run _ _ (rd_ro_touch stack k) w o)]. Qed.

(** The harness's checkers only read. *)
From Kismet Require Import Ops.Client.
Lemma chk_byteeq_rd : chk_rd chk_byteeq.
Proof. intros a b. unfold chk_byteeq, read_all. allc_auto; apply allc_call; reflexivity. Qed.
Lemma chk_panic_rd : chk_rd chk_panic.
Proof. intros a b. unfold chk_panic, read_all. allc_auto; apply allc_call; reflexivity. Qed.
Lemma chk_count_rd fail : chk_rd (chk_count fail).
Proof. intros a b. unfold chk_count, read_all. allc_auto; apply allc_call; reflexivity. Qed.
