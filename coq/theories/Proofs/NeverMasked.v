(** A reported success is a real publication, for arbitrary environment
    responses (every fault included): if set / put (plain or sharded, or the
    temp-file variants) return [Ok], then the operation issued a rename or link
    onto the key's path that the kernel accepted (for put: or that the kernel
    refused with EEXIST, the documented "already present").  No error on the
    publication path is swallowed into a success. *)
From Coq Require Import List NArith ZArith String Bool Arith Lia.
From Kismet Require Import Pure.Hash FS.Fs FS.Prog Spec.Wp Ops.Ops.
Import ListNotations.

Definition p_step (s : bool) (ev : event) : option bool :=
  match ev with
  | EvCall (CRename _ _) r => Some (match r with RErr _ => s | _ => true end)
  | EvCall (CLink _ _) r => Some (match r with RErr EEXIST => true | RErr _ => s | _ => true end)
  | _ => Some s
  end.

Definition is_ok {A} (r : outcome A) : bool := match r with Ok _ => true | _ => false end.

(** Nothing un-publishes. *)
Lemma keeps {A} (p : prog A) : forall s, wp p_step p (fun _ s' => s = true -> s' = true) s.
Proof.
  induction p as [a|c k IH|k IH|w k IH|n k IH|h i k IH|h i v k IH|k IH|t pl k IH]; intros s; cbn [wp]; unfold after; try (cbn [p_step]; auto; fail).
  intros r.
  assert (Hs : exists s1, p_step s (EvCall c r) = Some s1 /\ (s = true -> s1 = true)).
  { destruct c; cbn [p_step]; try (exists s; split; [reflexivity|auto]; fail); eexists; (split; [reflexivity|]); intros ->; destruct r as [| | | | |[]]; reflexivity. }
  destruct Hs as (s1 & Hs & Hm). rewrite Hs. eapply wp_mono; [|apply IH]. intros a s' H1 H. apply H1, Hm, H.
Qed.

Definition pubs {A} (p : prog (outcome A)) : Prop :=
  forall s, wp p_step p (fun r s' => (s = true -> s' = true) /\ (is_ok r = true -> s' = true)) s.

Lemma pubs_ret_err {A} (r : outcome A) : is_ok r = false -> pubs (Ret r).
Proof. intros H s. cbn [wp]. split; [auto|]. rewrite H. discriminate. Qed.

(** [try q f]: the publication may be in the continuation ... *)
Lemma pubs_try_cont {A B} (q : prog (outcome A)) (f : A -> prog (outcome B)) :
  (forall a, pubs (f a)) -> pubs (try q f).
Proof.
  intros Hf s. unfold try. apply wp_bind. eapply wp_mono; [|apply (keeps q s)].
  intros [a|e|] s1 H1; cbn [wp].
  - eapply wp_mono; [|apply Hf]. intros r s2 (H2 & H3). split; auto.
  - split; [exact H1|discriminate].
  - split; [exact H1|discriminate].
Qed.

(** ... or in [q] itself (the continuation runs only after [q] succeeded). *)
Lemma pubs_try_first {A B} (q : prog (outcome A)) (f : A -> prog (outcome B)) :
  pubs q -> pubs (try q f).
Proof.
  intros Hq s. unfold try. apply wp_bind. eapply wp_mono; [|apply Hq].
  intros [a|e|] s1 (H1 & H2); cbn [wp].
  - specialize (H2 eq_refl). eapply wp_mono; [|apply (keeps (f a) s1)]. intros r s2 H3. split; intros _; apply H3, H2.
  - split; [exact H1|discriminate].
  - split; [exact H1|discriminate].
Qed.

Lemma pubs_insert_or_update a b : pubs (insert_or_update a b).
Proof.
  unfold insert_or_update. apply pubs_try_cont. intros _. apply pubs_try_cont. intros _. apply pubs_try_first.
  intros s. unfold unit_call. cbn [bind call1 wp]. intros r. unfold after. cbn [p_step wp].
  destruct r as [| | | | |er]; cbn [is_ok]; split; auto; discriminate.
Qed.

Lemma pubs_insert_or_touch a b : pubs (insert_or_touch a b).
Proof.
  unfold insert_or_touch. apply pubs_try_cont. intros _. apply pubs_try_cont. intros _.
  intros s. cbn [bind call1 wp]. intros r. unfold after. cbn [p_step].
  destruct r as [| | | | |er].
  1-5: eapply wp_mono; [|apply (keeps (ensure_file_removed a) true)]; intros x s' H; split; intros _; apply H; reflexivity.
  destruct er; try (cbn [wp]; split; [auto|discriminate]).
  eapply wp_mono; [|apply (keeps _ true)]. intros x s' H. split; intros _; apply H; reflexivity.
Qed.

Lemma pubs_cd_publish ins d name value : (forall a b, pubs (ins a b)) -> pubs (cd_publish ins d name value).
Proof.
  intros Hins. unfold cd_publish. destruct (validate name); try (apply pubs_ret_err; reflexivity).
  apply pubs_try_cont. intros ret s. apply wp_bind. eapply wp_mono; [|apply Hins].
  intros [u|e|] s1 (H1 & H2); cbn [wp].
  - split; [exact H1|intros _; apply H2; reflexivity].
  - eapply wp_mono; [|apply (pubs_try_cont (create_dir_all _) (fun _ => try (ins value (cd_base d ++ [name])) (fun _ => Ret (Ok ret))))].
    + intros r s2 (H3 & H4). split; auto.
    + intros _. apply pubs_try_first. apply Hins.
  - eapply wp_mono; [|apply (pubs_try_cont (create_dir_all _) (fun _ => try (ins value (cd_base d ++ [name])) (fun _ => Ret (Ok ret))))].
    + intros r s2 (H3 & H4). split; auto.
    + intros _. apply pubs_try_first. apply Hins.
Qed.

Lemma pubs_sh_publish ins h dir n t k v :
  (forall d name value, pubs (ins d name value)) -> pubs (sh_publish ins h dir n t k v).
Proof.
  intros Hins. unfold sh_publish, sort_by_load. cbn [bind]. intros s. cbn [wp]. intros l1 l2. cbn [bind].
  match goal with |- wp _ (let '(h1, h2) := ?x in _) _ _ => destruct x as [h1 h2] end.
  apply pubs_try_cont. intros ex. apply pubs_try_first. apply Hins.
Qed.

Theorem pubs_f_set h f k v : pubs (f_set h f k v).
Proof.
  unfold f_set, drop_opt. destruct f.
  - apply pubs_try_first. apply pubs_cd_publish, pubs_insert_or_update.
  - apply pubs_sh_publish. intros. apply pubs_cd_publish, pubs_insert_or_update.
Qed.
Theorem pubs_f_put h f k v : pubs (f_put h f k v).
Proof.
  unfold f_put, drop_opt. destruct f.
  - apply pubs_try_first. apply pubs_cd_publish, pubs_insert_or_touch.
  - apply pubs_sh_publish. intros. apply pubs_cd_publish, pubs_insert_or_touch.
Qed.

Theorem pubs_cache_set cfg k v : pubs (cache_set cfg k v).
Proof.
  unfold cache_set. apply pubs_try_cont. intros _. unfold write_impl.
  destruct (s_writer cfg); [apply pubs_f_set|apply pubs_ret_err; reflexivity].
Qed.
Theorem pubs_cache_put cfg k v : pubs (cache_put cfg k v).
Proof.
  unfold cache_put. apply pubs_try_cont. intros _. unfold write_impl.
  destruct (s_writer cfg); [apply pubs_f_put|apply pubs_ret_err; reflexivity].
Qed.

(** On every sequential run (any filesystem, any injected fault). *)
Theorem success_means_published {A} (p : prog (outcome A)) : pubs p -> forall w o,
  let '(r, _, _, tr) := run p w o in is_ok r = true -> mon_run p_step false tr = Some true.
Proof.
  intros H w o. pose proof (wp_run p_step p _ false w o (H false)) as Hr.
  destruct (run p w o) as [[[r w'] o'] tr]. destruct Hr as (s' & Hm & _ & Hok). intros Hr. rewrite Hm, (Hok Hr). reflexivity.
Qed.
