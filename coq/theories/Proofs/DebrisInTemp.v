(** Whatever an operation leaves behind when it stops at an arbitrary point can
    only sit in a temporary directory: for arbitrary environment responses,
    every file the library creates is created inside a directory named
    [.kismet_temp] (or anonymously in the configured system temp directory); it
    never creates a file directly under a key's name, and never truncates.
    Key-named entries only ever appear through rename / link of such a file
    (or of the caller's file). *)
From Coq Require Import List NArith ZArith String Bool Arith Lia.
From Kismet Require Import Pure.Hash FS.Fs FS.Prog Spec.Wp Spec.ClassMon Spec.Calm Ops.Ops.
Import ListNotations.

Definition has_temp (p : path) : bool := existsb (String.eqb temp_subdir) p.

Section Debris.
  Variable sys : path.                 (* the configured system temp directory *)

  Definition tmp_ok (c : call) : bool :=
    match c with
    | CCreate p _ => has_temp p
    | COpenTmp d => (has_temp d || path_eqb d sys)%bool
    | CCreateTrunc _ _ => false
    | _ => true
    end.

  Lemma tmp_of_calm c : calm c = true -> tmp_ok c = true.
  Proof. destruct c; cbn; auto; discriminate. Qed.

  Lemma allc_tmp_of_calm {A} (p : prog A) Q : cm p Q -> allc tmp_ok p Q.
  Proof.
    unfold allc.
    induction p as [a|c k IH|k IH|w k IH|n k IH|h i k IH|h i v k IH|k IH|t pl k IH]; cbn [wp]; unfold after; cbn [k_step]; intros H; auto.
    intros r. specialize (H r). destruct (calm c) eqn:Hc; [|contradiction]. rewrite (tmp_of_calm c Hc). apply IH, H.
  Qed.

  Lemma has_temp_app p q : has_temp p = true -> has_temp (p ++ q) = true.
  Proof. unfold has_temp. rewrite existsb_app. intros ->. reflexivity. Qed.
  Lemma has_temp_snoc p : has_temp (p ++ [temp_subdir]) = true.
  Proof. unfold has_temp. rewrite existsb_app. cbn [existsb]. rewrite String.eqb_refl. apply orb_true_r. Qed.

  Definition temp_result (r : outcome path) : Prop := match r with Ok td => has_temp td = true | _ => True end.

  Lemma cm_ensure_temp_dir_res d : cm (ensure_temp_dir d) temp_result.
  Proof.
    unfold ensure_temp_dir, try. eapply allc_bind; [apply cm_ensure_directory|].
    intros [u|e|] _; apply allc_ret; cbn; auto. apply has_temp_snoc.
  Qed.
  Lemma cm_sh_temp_dir_res h dir n t k : cm (sh_temp_dir h dir n t k) temp_result.
  Proof.
    unfold sh_temp_dir, try.
    assert (H : forall sid, cm (Trigger (cd_weight (shard_cdir dir n t sid)) (fun fired =>
                  r <- (if fired then cleanup_temporary_directory (cd_temp (shard_cdir dir n t sid)) else Ret (Ok tt)) ;;
                  match r with Ok _ => ensure_temp_dir (shard_cdir dir n t sid) | Err e => Ret (Err e) | Panic => Ret Panic end)) temp_result).
    { intros sid. apply allc_trigger. intros fired.
      eapply allc_bind; [destruct fired; [apply cm_cleanup_temp|apply allc_ret; exact I]|].
      intros [u|e|] _; [apply cm_ensure_temp_dir_res|apply allc_ret; exact I|apply allc_ret; exact I]. }
    destruct k as [k|].
    - eapply allc_bind with (Q1 := fun _ => True); [eapply allc_bind; [apply cm_sort_by_load|intros ids _; apply allc_ret; exact I]|]. intros sid _. apply H.
    - cbn [bind]. apply allc_randshard. intros r. cbn [bind]. apply H.
  Qed.
  Lemma cm_f_temp_dir_res h f k : cm (f_temp_dir h f k) temp_result.
  Proof. unfold f_temp_dir. destruct f; [apply cm_ensure_temp_dir_res|apply cm_sh_temp_dir_res]. Qed.

  Notation tk := (allc tmp_ok).
  Hint Extern 1 (tmp_ok _ = true) => (cbn; first [reflexivity | assumption]) : allc.
  Hint Extern 4 (tk _ _) => (apply allc_tmp_of_calm; solve [eauto 3 with allc]) : allc.
  Hint Resolve allc_call : allc.

  Lemma tk_unit_call c : tmp_ok c = true -> tk (unit_call c) anyc.
  Proof. intros H. unfold unit_call. allc_auto. Qed.
  Lemma tk_fd_call c : tmp_ok c = true -> tk (fd_call c) anyc.
  Proof. intros H. unfold fd_call. allc_auto. Qed.
  Lemma tk_quiet c : tmp_ok c = true -> tk (quiet c) anyc.
  Proof. intros H. unfold quiet. allc_auto. Qed.
  Hint Resolve tk_unit_call tk_fd_call tk_quiet : allc.

  Lemma tk_new_named_temp dir : has_temp dir = true -> tk (new_named_temp dir) anyc.
  Proof.
    intros Hd. unfold new_named_temp, try, fd_call. apply allc_fresh. intros name.
    assert (Hp : tmp_ok (CCreate (dir ++ [name]) 384) = true) by (cbn; apply has_temp_app, Hd).
    allc_auto.
  Qed.

  Definition pop_tk (pop : populate) := forall dst old, tk (pop dst old) anyc.
  Definition judge_tk (j : judge) := forall b f, tk (j b f) anyc.
  Definition chko_tk (chk : option checker) := match chk with Some ck => forall a b, tk (ck a b) anyc | None => True end.

  Section Cfg.
    Variable cfg : stack_cfg.
    Hypothesis Hsys : s_systmp cfg = sys.

    Lemma tk_get_tempfile k : tk (get_tempfile cfg k) anyc.
    Proof.
      unfold get_tempfile, try, fd_call. destruct (s_writer cfg) as [w|].
      - eapply allc_bind; [apply allc_tmp_of_calm, cm_f_temp_dir_res|].
        intros [td|e|] Htd; try (apply allc_ret; exact I). cbn in Htd.
        assert (Hc : tmp_ok (COpenTmp td) = true) by (cbn; rewrite Htd; reflexivity). allc_auto.
      - assert (Hc : tmp_ok (COpenTmp (s_systmp cfg)) = true).
        { cbn. rewrite Hsys. unfold path_eqb. destruct (path_eq_dec sys sys); [apply orb_true_r|congruence]. }
        allc_auto.
    Qed.

    Lemma tk_promote w k f : tk (promote cfg w k f) anyc.
    Proof.
      unfold promote, try_c.
      eapply allc_bind; [apply allc_tmp_of_calm, cm_f_temp_dir_res|]. intros [td|e|] Htd; try (allc_auto; fail). cbn in Htd.
      eapply allc_bind; [apply tk_new_named_temp, Htd|]. intros [[fd p]|e|] _; allc_auto.
    Qed.

    Lemma tk_accept_checks k pop f : chko_tk (s_checker cfg) -> pop_tk pop -> tk (accept_checks cfg k pop f) anyc.
    Proof.
      intros Hck Hpop. unfold accept_checks, try_c. pose proof (tk_get_tempfile k). unfold pop_tk in Hpop.
      unfold chko_tk in Hck. destruct (s_checker cfg) as [ck|]; allc_auto.
    Qed.

    Lemma tk_populate_phase k pop old : pop_tk pop -> tk (populate_phase cfg k pop old) anyc.
    Proof.
      intros Hpop. unfold populate_phase, try_c, try, skip. unfold pop_tk in Hpop.
      destruct (s_writer cfg) as [w|].
      - eapply allc_bind; [apply allc_tmp_of_calm, cm_f_temp_dir_res|]. intros [td|e|] Htd; try (destruct old; allc_auto; fail). cbn in Htd.
        eapply allc_bind; [apply tk_new_named_temp, Htd|]. intros [[fd p]|e|] _; destruct old; allc_auto.
      - assert (Hc : tmp_ok (COpenTmp (s_systmp cfg)) = true).
        { cbn. rewrite Hsys. unfold path_eqb. destruct (path_eq_dec sys sys); [apply orb_true_r|congruence]. }
        destruct old; allc_auto.
    Qed.

    Theorem tk_get_or_update k j pop : chko_tk (s_checker cfg) -> chko_calm (s_checker cfg) -> judge_tk j -> pop_tk pop ->
      tk (get_or_update cfg k j pop) anyc.
    Proof.
      intros Hck Hckc Hj Hpop. unfold get_or_update, try. unfold judge_tk in Hj.
      pose proof (fun f => tk_accept_checks k pop f Hck Hpop).
      pose proof (fun old => tk_populate_phase k pop old Hpop).
      pose proof (fun f => allc_tmp_of_calm _ _ (cm_with_checked cfg k f Hckc)).
      pose proof (allc_tmp_of_calm _ _ (cm_ro_get (s_readers cfg) (s_checker cfg) k Hckc)).
      destruct (s_writer cfg) as [w|].
      - pose proof (fun f => tk_promote w k f). pose proof (cm_f_get w k). allc_auto.
      - allc_auto.
    Qed.
    Theorem tk_ensure k pop : chko_tk (s_checker cfg) -> chko_calm (s_checker cfg) -> pop_tk pop -> tk (ensure cfg k pop) anyc.
    Proof. intros. unfold ensure. apply tk_get_or_update; auto. intros b f. apply allc_ret. exact I. Qed.
  End Cfg.

  (** set / put / touch / get / maintenance create nothing at all. *)
  Theorem tk_cache_set cfg k v : tk (cache_set cfg k v) anyc.
  Proof. apply allc_tmp_of_calm, cm_cache_set. Qed.
  Theorem tk_cache_put cfg k v : tk (cache_put cfg k v) anyc.
  Proof. apply allc_tmp_of_calm, cm_cache_put. Qed.
  Theorem tk_cache_write_temp b cfg k fd p : tk (cache_write_temp b cfg k fd p) anyc.
  Proof. apply allc_tmp_of_calm, cm_cache_write_temp. Qed.
End Debris.

(** The harness's callbacks create nothing. *)
From Kismet Require Import Ops.Client.
Lemma tk_write_chunks sys fd chunks : allc (tmp_ok sys) (write_chunks fd chunks) anyc.
Proof.
  induction chunks as [|c rest IH]; cbn [write_chunks]; [apply allc_ret; exact I|].
  unfold try, unit_call. cbn [bind call1]. intros r. unfold after, k_step. cbn [tmp_ok].
  destruct r; cbn [bind wp]; try exact IH; exact I.
Qed.
Lemma client_populate_tk sys pk : pop_tk sys (client_populate pk).
Proof.
  intros dst old. unfold client_populate, skip, read_all, quiet.
  pose proof (tk_write_chunks sys dst) as Hw.
  assert (Hp : forall chunks, allc (tmp_ok sys) (try (write_chunks dst chunks) (fun _ => Ret (@Err unit (Custom CNotFound)))) (fun _ => True)).
  { intros chunks. unfold try. eapply allc_bind; [apply Hw|]. intros [u|e|] _; apply allc_ret; exact I. }
  destruct old as [o|]; destruct pk; cbn [bind call1]; unfold allc; cbn [wp]; unfold after, k_step; cbn [tmp_ok];
    repeat (first [ intros ?r | exact I | apply Hw | apply Hp ]; cbn [bind wp]; unfold after, k_step; cbn [tmp_ok]).
Qed.
