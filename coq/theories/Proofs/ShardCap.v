(** The capacity of one shard is the total divided by the number of shards,
    rounded UP: together the shards can hold the declared total, and no smaller
    per-shard capacity could (sharded.rs, Cache::new). *)
From Coq Require Import NArith ZArith Lia ZifyN ZifyBool.
From Kismet Require Import Pure.Trigger.
Local Open Scope N_scope.

Ltac Zify.zify_post_hook ::= Z.div_mod_to_equations.

Lemma num_shards_ge_2 n : 2 <= sharded_num_shards n.
Proof. unfold sharded_num_shards. destruct (N.ltb_spec n 2); lia. Qed.

Lemma total_ge_shards n total : sharded_num_shards n <= sharded_total n total.
Proof. unfold sharded_total. destruct (N.ltb_spec total (sharded_num_shards n)); lia. Qed.

Lemma total_ge_declared n total : total <= sharded_total n total.
Proof. unfold sharded_total. destruct (N.ltb_spec total (sharded_num_shards n)); lia. Qed.

Theorem shard_capacity_is_ceiling n total :
  let n' := sharded_num_shards n in
  let t := sharded_total n total in
  let c := sharded_shard_capacity n total in
  1 <= c /\ t <= n' * c /\ n' * (c - 1) < t.
Proof.
  intros n' t c.
  assert (Hn : 2 <= n') by apply num_shards_ge_2.
  assert (Ht : n' <= t) by apply total_ge_shards.
  unfold c, sharded_shard_capacity. fold n'. fold t.
  pose proof (N.div_mod' t n') as Hdm.
  assert (Hr : t mod n' < n') by (apply N.mod_lt; lia).
  set (q := t / n') in *. set (r := t mod n') in *.
  assert (Hq : 1 <= q).
  { destruct (N.eq_dec q 0) as [E|E]; [rewrite E in Hdm; lia|lia]. }
  destruct (N.eqb_spec r 0) as [E|E].
  - rewrite N.add_0_r. split; [exact Hq|]. split; [lia|].
    replace (n' * (q - 1)) with (n' * q - n') by (rewrite N.mul_sub_distr_l; lia). lia.
  - split; [lia|]. split; [rewrite N.mul_add_distr_l; lia|].
    replace (q + 1 - 1) with q by lia. lia.
Qed.

(** In particular the shards' capacities add up to at least what was declared. *)
Corollary shards_cover_the_declared_total n total :
  total <= sharded_num_shards n * sharded_shard_capacity n total.
Proof.
  destruct (shard_capacity_is_ceiling n total) as (_ & H & _).
  eapply N.le_trans; [apply total_ge_declared|exact H].
Qed.
