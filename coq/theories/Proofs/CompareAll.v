(** Every redundant copy is compared: for stacks of any depth and arbitrary
    environment responses, with a consistency checker configured, a lookup that
    succeeds has invoked the checker exactly once for every copy it found beyond
    the first - (copies found) - 1 invocations, none skipped, none repeated.  A
    checker invocation is made visible by the ghost mark the model's checkers emit
    (tag 1, with both contents); the checker is assumed to emit exactly one such
    mark per invocation and to open nothing by path (proved of the model's). *)
From Coq Require Import List NArith ZArith String Bool Arith Lia.
From Kismet Require Import Pure.Hash FS.Fs FS.Prog Spec.Wp Spec.ClassMon Spec.Calm Ops.Ops Ops.Client Proofs.LookupOrder.
Import ListNotations.

(** state: (read-only opens answered with a descriptor, checker invocations) *)
Definition ca_step (s : nat * nat) (ev : event) : option (nat * nat) :=
  match ev with
  | EvCall (COpen _ RDONLY) (RFd _) => Some (S (fst s), snd s)
  | EvMark t _ => if (t =? 1)%N then Some (fst s, S (snd s)) else Some s
  | _ => Some s
  end.

Lemma ca_touched fd s : wp ca_step (ensure_file_touched fd) (fun _ s' => s' = s) s.
Proof.
  unfold ensure_file_touched, try, stat_call, unit_call. cbn [bind call1 wp]. intros r. unfold after. cbn [ca_step].
  destruct r; cbn [bind wp]; auto. destruct (_ <? _)%Z; cbn [bind call1 wp]; auto. intros r2. unfold after. cbn [ca_step wp]. destruct r2; reflexivity.
Qed.

Lemma ca_quiet c s : nopen c = true -> wp ca_step (quiet c) (fun _ s' => s' = s) s.
Proof.
  intros H. unfold quiet. cbn [bind call1 wp]. intros r. unfold after.
  assert (Hs : ca_step s (EvCall c r) = Some s) by (destruct c; try reflexivity; destruct a; try reflexivity; discriminate H).
  rewrite Hs. cbn [bind wp]. reflexivity.
Qed.

Lemma ca_cd_get d name s :
  wp ca_step (cd_get d name)
     (fun r s' => match r with Ok (Some _) => s' = (S (fst s), snd s) | Ok None => s' = s | _ => True end) s.
Proof.
  unfold cd_get. destruct (validate name); cbn [wp]; auto.
  cbn [bind call1 wp]. intros r. unfold after. cbn [ca_step].
  destruct r as [|fd| | | |e]; cbn [bind wp]; auto.
  - apply wp_bind. eapply wp_mono; [|apply ca_touched]. intros x s1 ->. cbn [wp]. reflexivity.
  - destruct (is_absent (OsErr e)); cbn [wp]; auto.
Qed.

Lemma ca_f_get f k s :
  wp ca_step (f_get f k)
     (fun r s' => match r with Ok (Some _) => s' = (S (fst s), snd s) | Ok None => s' = s | _ => True end) s.
Proof.
  destruct f as [dir cap|dir n t]; cbn [f_get]; [apply ca_cd_get|].
  unfold sh_get. destruct (shard_ids _ _ _) as [h1 h2]. unfold try. apply wp_bind. eapply wp_mono; [|apply ca_cd_get].
  intros [[fd|]|e|] s1 H; cbn [wp]; auto. subst s1. apply ca_cd_get.
Qed.

Section Checked.
  Variable ck : checker.
  (** exactly one invocation mark, nothing opened by path *)
  Hypothesis ck_marks_once : forall a b s, wp ca_step (ck a b) (fun _ s' => s' = (fst s, S (snd s))) s.

  (** [n0] copies found and [c0] comparisons made so far; [ret] is the first copy of this loop, if any *)
  Lemma ca_ro_loop stack k : forall ret s,
    wp ca_step (ro_get_loop stack (Some ck) k ret)
       (fun r s' => match r with
                    | Ok x => (forall p, ret = Some p -> x = Some p) /\
                              match ret, x with
                              | None, None => s' = s
                              | None, Some _ => exists h, fst s' = fst s + S h /\ snd s' = snd s + h
                              | Some _, _ => exists h, fst s' = fst s + h /\ snd s' = snd s + h
                              end
                    | _ => True
                    end) s.
  Proof.
    induction stack as [|c rest IH]; intros ret s; cbn [ro_get_loop].
    - cbn [wp]. split; [auto|]. destruct ret; [exists 0; lia|reflexivity].
    - unfold try_c at 1. apply wp_bind. eapply wp_mono; [|apply ca_f_get].
      assert (Hdrop : forall {B} (x : outcome B) s0, wp ca_step (match ret with Some p => quiet (CClose p) | None => skip end ;;; Ret x) (fun r _ => r = x) s0).
      { intros B x s0. destruct ret; cbn [skip quiet bind call1 wp]; [intros r; unfold after; cbn [ca_step wp]|]; reflexivity. }
      intros [[hfd|]|e|] s1 H.
      + subst s1. destruct ret as [prev|].
        * (* a later hit: one comparison, then go on *)
          unfold try_c. apply wp_bind. eapply wp_mono; [|apply (ck_marks_once prev hfd)]. intros r1 s2 ->. cbn [fst snd].
          assert (Hcl : forall (x : outcome (option nat)) s0, (match x with Ok _ => False | _ => True end) ->
                          wp ca_step ((quiet (CClose hfd) ;;; quiet (CClose prev)) ;;; Ret x) (fun r _ => r = x) s0).
          { intros x s0 Hx. cbn [quiet bind call1 wp]. intros r. unfold after. cbn [ca_step wp]. intros r2. unfold after. cbn [ca_step wp]. reflexivity. }
          destruct r1 as [u|e|]; [|eapply wp_mono; [|apply (Hcl (Err e) _ I)]; intros r s3 ->; exact I|eapply wp_mono; [|apply (Hcl Panic _ I)]; intros r s3 ->; exact I].
          apply wp_bind. unfold unit_call. cbn [bind call1 wp]. intros r2. unfold after. cbn [ca_step].
          destruct r2 as [| | | | |e2]; cbn [wp].
          6: { eapply wp_mono; [|apply (Hcl (Err (OsErr e2)) _ I)]. intros r s3 ->. exact I. }
          all: cbn [quiet bind call1 wp]; intros r3; unfold after; cbn [ca_step];
            (eapply wp_mono; [|apply (IH (Some prev))]); intros [x|e3|] s3 H4; auto;
            destruct H4 as (H5 & (h & H6 & H7)); (split; [exact H5|]); exists (S h); cbn [fst snd] in *; lia.
        * (* the first hit of this loop: no comparison *)
          eapply wp_mono; [|apply (IH (Some hfd))]. intros [x|e3|] s3 H4; auto.
          destruct H4 as (H5 & (h & H6 & H7)). split; [intros p Hp; discriminate Hp|].
          rewrite (H5 hfd eq_refl). exists h. cbn [fst snd] in *. lia.
      + subst s1. apply IH.
      + eapply wp_mono; [|apply Hdrop]. intros r s2 ->. exact I.
      + eapply wp_mono; [|apply Hdrop]. intros r s2 ->. exact I.
  Qed.

  (** a successful lookup has made (copies found) - 1 comparisons *)
  Theorem every_copy_is_compared cfg k : s_checker cfg = Some ck ->
    wp ca_step (cache_get cfg k)
       (fun r s' => match r with
                    | Ok (Some _) => fst s' = S (snd s')
                    | Ok None => s' = (0, 0)
                    | _ => True
                    end) (0, 0).
  Proof.
    intros Hc. unfold cache_get. rewrite Hc.
    assert (Hro : forall s0, wp ca_step (ro_get (s_readers cfg) (Some ck) k)
              (fun r s' => match r with
                           | Ok None => s' = s0
                           | Ok (Some _) => exists h, fst s' = fst s0 + S h /\ snd s' = snd s0 + h
                           | _ => True end) s0).
    { intros s0. unfold ro_get. destruct (s_readers cfg) as [|c st]; [cbn [wp]; reflexivity|].
      eapply wp_mono; [|apply (ca_ro_loop (c :: st) k None s0)]. intros [[x|]|e|] s1 H; auto; exact (proj2 H). }
    destruct (s_writer cfg) as [w|].
    - unfold try at 1. apply wp_bind. eapply wp_mono; [|apply ca_f_get].
      intros [[f|]|e|] s1 H; cbn [wp]; auto; subst s1; cbn [fst snd].
      + unfold with_checked. rewrite Hc. unfold try, try_c. apply wp_bind. apply wp_bind. eapply wp_mono; [|apply Hro].
        intros [[rd|]|e|] s2 H2.
        * destruct H2 as (h & H3 & H4). cbn [fst snd] in *.
          apply wp_bind. eapply wp_mono; [|apply (ck_marks_once f rd)]. intros r1 s3 ->. cbn [fst snd].
          destruct r1 as [u|e|].
          -- apply wp_bind. unfold unit_call. cbn [bind call1 wp]. intros r2. unfold after. cbn [ca_step].
             destruct r2 as [| | | | |e2]; cbn [wp].
             6: { cbn [quiet bind call1 wp]. intros r3. unfold after. cbn [ca_step wp]. intros r4. unfold after. cbn [ca_step wp]. exact I. }
             all: cbn [quiet bind call1 wp]; intros r3; unfold after; cbn [ca_step wp fst snd]; lia.
          -- cbn [quiet bind call1 wp]. intros r3. unfold after. cbn [ca_step wp]. intros r4. unfold after. cbn [ca_step wp]. exact I.
          -- cbn [quiet bind call1 wp]. intros r3. unfold after. cbn [ca_step wp]. intros r4. unfold after. cbn [ca_step wp]. exact I.
        * subst s2. cbn [bind wp fst snd]. reflexivity.
        * cbn [quiet bind call1 wp]. intros r3. unfold after. cbn [ca_step wp]. exact I.
        * cbn [quiet bind call1 wp]. intros r3. unfold after. cbn [ca_step wp]. exact I.
      + eapply wp_mono; [|apply Hro]. intros [[x|]|e|] s2 H2; auto. destruct H2 as (h & H3 & H4). cbn [fst snd] in *. lia.
    - eapply wp_mono; [|apply Hro]. intros [[x|]|e|] s2 H2; auto. destruct H2 as (h & H3 & H4). cbn [fst snd] in *. lia.
  Qed.
End Checked.

(** the model's checkers: one mark per invocation, nothing opened *)
Lemma ca_read_all fd s : wp ca_step (read_all fd) (fun _ s' => s' = s) s.
Proof. unfold read_all, quiet. cbn [bind call1 wp]. intros r. unfold after. cbn [ca_step wp]. intros r2. unfold after. cbn [ca_step wp]. reflexivity. Qed.

Theorem model_checkers_mark_once a b fail s :
  wp ca_step (chk_byteeq a b) (fun _ s' => s' = (fst s, S (snd s))) s /\
  wp ca_step (chk_count fail a b) (fun _ s' => s' = (fst s, S (snd s))) s /\
  wp ca_step (chk_panic a b) (fun _ s' => s' = (fst s, S (snd s))) s.
Proof.
  repeat split; unfold chk_byteeq, chk_count, chk_panic; (apply wp_bind; eapply wp_mono; [|apply ca_read_all]; intros da s1 ->;
    apply wp_bind; eapply wp_mono; [|apply ca_read_all]; intros db s2 ->; cbn [wp]; unfold after; cbn [ca_step N.eqb Pos.eqb wp]; reflexivity).
Qed.
