(** Finalisation of a populated temporary file (get_or_update / ensure, promotion,
    the temp-file API) makes it read-only whether or not auto_sync is on: for
    arbitrary environment responses and BOTH values of the flag, finalize_tempfile
    reports success only after an fchmod of that descriptor to 0444 that did not
    fail.  Durability may be waived; permissions are not. *)
From Coq Require Import List NArith ZArith String Bool Arith Lia.
From Kismet Require Import Pure.Hash FS.Fs FS.Prog Spec.Wp Ops.Ops.
Import ListNotations.

(** state: "descriptor [fd] has been fchmod'ed to 0444 successfully" *)
Definition fz_step (fd : nat) (s : bool) (ev : event) : option bool :=
  match ev with
  | EvCall (CFchmod fd' m) r =>
      if ((fd' =? fd)%nat && (m =? 292)%N)%bool then Some (match r with RErr _ => s | _ => true end) else Some s
  | _ => Some s
  end.

Ltac fz_crush :=
  repeat first
    [ progress cbn [bind call1 wp fz_step andb]
    | progress unfold after
    | rewrite Nat.eqb_refl
    | rewrite N.eqb_refl
    | match goal with |- forall _ : res, _ => let r := fresh "r" in intros r; destruct r end
    | reflexivity
    | exact I ].

Theorem finalize_sets_read_only fd p sync s :
  wp (fz_step fd) (finalize_tempfile fd p sync) (fun r s' => match r with Ok _ => s' = true | _ => True end) s.
Proof.
  unfold finalize_tempfile, try_c, unit_call, quiet. destruct sync; fz_crush.
Qed.

Theorem finalize_sets_read_only_run fd p sync w o :
  let '(r, _, _, tr) := run (finalize_tempfile fd p sync) w o in
  match r with Ok _ => mon_run (fz_step fd) false tr = Some true | _ => True end.
Proof.
  pose proof (wp_run (fz_step fd) _ _ false w o (finalize_sets_read_only fd p sync false)) as H.
  destruct (run (finalize_tempfile fd p sync) w o) as [[[r w'] o'] tr]. destruct H as (s' & Hm & HQ).
  destruct r; auto. rewrite Hm, HQ. reflexivity.
Qed.

Lemma fz_monitor_meaning fd s :
  fz_step fd s (EvCall (CFchmod fd 292) ROk) = Some true /\
  fz_step fd s (EvCall (CFchmod fd 292) (RErr EIO)) = Some s /\
  fz_step fd s (EvCall (CFchmod fd 420) ROk) = Some s /\
  fz_step fd s (EvCall (CFsync fd) ROk) = Some s.
Proof. cbn [fz_step]. rewrite Nat.eqb_refl. repeat split. Qed.
