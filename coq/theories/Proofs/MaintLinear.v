(** Maintenance is linear in what it lists, for arbitrary environment responses:
    the number of filesystem calls [definitely_cleanup] issues is at most
    7 + 5 * (number of names its directory listings returned) - whatever the
    listings contain, whichever entries vanish meanwhile, whatever fails.  With
    the constant budgets of get / touch / set / put outside maintenance (C20)
    this bounds every operation by its own steps only. *)
From Coq Require Import List NArith ZArith String Bool Arith Lia Permutation.
From Kismet Require Import Pure.Hash Pure.SecondChance FS.Fs FS.Prog Spec.Wp Ops.Ops Proofs.SecondChanceProofs.
Import ListNotations.

Definition lstate := (nat * nat)%type.          (* calls issued; names returned by listings *)

Definition ln_step (s : lstate) (ev : event) : option lstate :=
  match ev with
  | EvCall (CReadDir _) (RNames l) => Some (S (fst s), snd s + List.length l)
  | EvCall _ _ => Some (S (fst s), snd s)
  | _ => Some s
  end.

(** [lin p K]: at most [K] calls, no listing returned *)
Definition lin {A} (p : prog A) (K : nat) : Prop :=
  forall s, wp ln_step p (fun _ s' => fst s' <= fst s + K /\ snd s' = snd s) s.

Lemma lin_ret {A} (a : A) K : lin (Ret a) K.
Proof. intros s. cbn [wp]. split; [lia|reflexivity]. Qed.
Lemma lin_weaken {A} (p : prog A) K K' : lin p K -> K <= K' -> lin p K'.
Proof. intros H HK s. eapply wp_mono; [|apply H]. intros a s' (H1 & H2). split; [lia|exact H2]. Qed.
Lemma lin_bind {A B} (p : prog A) (f : A -> prog B) K1 K2 : lin p K1 -> (forall a, lin (f a) K2) -> lin (bind p f) (K1 + K2).
Proof.
  intros Hp Hf s. apply wp_bind. eapply wp_mono; [|apply Hp]. intros a s1 (H1 & H2).
  eapply wp_mono; [|apply Hf]. intros b s2 (H3 & H4). split; [lia|congruence].
Qed.
Lemma lin_call {B} c (k : res -> prog B) K : match c with CReadDir _ => False | _ => True end -> (forall r, lin (k r) K) -> lin (Call c k) (S K).
Proof.
  intros Hc H s. cbn [wp]. intros r. unfold after.
  assert (Hs : ln_step s (EvCall c r) = Some (S (fst s), snd s)) by (destruct c; try reflexivity; destruct Hc).
  rewrite Hs. eapply wp_mono; [|apply H]. intros a s' (H1 & H2). cbn [fst snd] in *. split; [lia|exact H2].
Qed.
Lemma lin_now {A} (k : Z -> prog A) K : (forall t, lin (k t) K) -> lin (Now k) K.
Proof. intros H s. cbn [wp]. intros t. unfold after. cbn [ln_step]. apply H. Qed.

Ltac lin1 := apply lin_call; [exact I|intros ?r].

Lemma lin_unit_call c : match c with CReadDir _ => False | _ => True end -> lin (unit_call c) 1.
Proof. intros Hc. unfold unit_call. cbn [bind call1]. apply lin_call; [exact Hc|]. intros r. cbn [bind]. apply lin_ret. Qed.
Lemma lin_quiet c : match c with CReadDir _ => False | _ => True end -> lin (quiet c) 1.
Proof. intros Hc. unfold quiet. cbn [bind call1]. apply lin_call; [exact Hc|]. intros r. cbn [bind]. apply lin_ret. Qed.

Lemma lin_set_times p a m : lin (set_times p a m) 4.
Proof.
  unfold set_times, unit_call, quiet. cbn [bind call1].
  assert (Hgo : forall fd, lin (Call (CFutimens fd a m) (fun r => Call (CClose fd) (fun _ => Ret match r with RErr e => Err (OsErr e) | _ => Ok tt end))) 2).
  { intros fd. apply lin_call; [exact I|]. intros r1. apply lin_call; [exact I|]. intros r2. apply lin_ret. }
  apply lin_call; [exact I|]. intros r1.
  destruct r1; try (cbn [bind]; apply (lin_weaken _ 2); [apply Hgo|lia]).
  all: cbn [bind]; apply lin_call; [exact I|]; intros r2; destruct r2; cbn [bind]; try apply Hgo; apply lin_ret.
Qed.

Lemma lin_move_to_back p : lin (move_to_back_of_list p) 4.
Proof. unfold move_to_back_of_list. apply lin_now. intros t. apply lin_set_times. Qed.

Lemma lin_ensure_file_removed p : lin (ensure_file_removed p) 1.
Proof. unfold ensure_file_removed, unit_call. cbn [bind call1]. lin1. cbn [bind]. apply lin_ret. Qed.

Lemma lin_evict_loop dir names : lin (evict_loop dir names) (List.length names).
Proof.
  induction names as [|n rest IH]; cbn [evict_loop List.length]; [apply lin_ret|].
  unfold try. change (S (List.length rest)) with (1 + List.length rest). apply lin_bind; [apply lin_ensure_file_removed|].
  intros [u|e|]; [exact IH|apply lin_ret..].
Qed.

Lemma lin_move_back_loop dir names : lin (move_back_loop dir names) (4 * List.length names).
Proof.
  induction names as [|n rest IH]; cbn [move_back_loop List.length]; [apply lin_ret|].
  replace (4 * S (List.length rest)) with (4 + 4 * List.length rest) by lia. apply lin_bind; [apply lin_move_to_back|].
  intros [u|e|]; [exact IH|destruct (is_absent e); [exact IH|apply lin_ret]|apply lin_ret].
Qed.

(** the listing loop: one stat per name, plus a closedir on failure; the files kept are at most the names *)
Lemma ln_collect_loop dir dh names : forall acc count s,
  wp ln_step (collect_loop dir dh names acc count)
     (fun r s' => fst s' <= fst s + List.length names + 1 /\ snd s' = snd s /\
                  match r with Ok (files, _) => List.length files <= List.length acc + List.length names | _ => True end) s.
Proof.
  induction names as [|n rest IH]; intros acc count s; cbn [collect_loop List.length].
  - cbn [wp]. rewrite rev_length. repeat split; lia.
  - destruct (dot_prefixed n).
    + eapply wp_mono; [|apply IH]. intros [[files c]|e|] s' (H1 & H2 & H3); repeat split; try lia; exact H2.
    + cbn [bind call1 wp]. intros r. unfold after. cbn [ln_step].
      assert (Hfail : forall e0, wp ln_step (quiet (CCloseDir dh) ;;; Ret (@Err (list cfile * N) e0))
                        (fun r0 s' => fst s' <= fst s + S (List.length rest) + 1 /\ snd s' = snd s /\ match r0 with Ok (files, _) => List.length files <= List.length acc + S (List.length rest) | _ => True end) (S (fst s), snd s)).
      { intros e0. cbn [quiet bind call1 wp]. intros r2. unfold after. cbn [ln_step wp fst snd]. repeat split; lia. }
      destruct r as [| |st| | |e]; try apply Hfail.
      * destruct (st_dir st); (eapply wp_mono; [|apply IH]); intros [[files c]|e|] s' (H1 & H2 & H3); cbn [fst snd List.length] in *; repeat split; try lia; exact H2.
      * destruct (is_absent (OsErr e)); [|apply Hfail].
        eapply wp_mono; [|apply IH]. intros [[files c]|e1|] s' (H1 & H2 & H3); cbn [fst snd] in *; repeat split; try lia; exact H2.
Qed.

Lemma entries_length files : List.length (entries_of files) = List.length files.
Proof. unfold entries_of. rewrite map_length, combine_length, seq_length. lia. Qed.

Theorem ln_prune dir cap : forall s,
  wp ln_step (prune dir cap) (fun _ s' => fst s' + 5 * snd s <= fst s + 4 + 5 * snd s' /\ snd s <= snd s') s.
Proof.
  intros s. unfold prune, try, collect_cached_files, fd_call. cbn [bind call1 wp]. intros r. unfold after. cbn [ln_step].
  destruct r as [|dh| | | |e]; cbn [bind wp fst snd]; try lia.
  intros r2. unfold after.
  destruct r2 as [| | | |names|e2]; cbn [ln_step fst snd];
    try (cbn [quiet bind call1 wp]; intros r3; unfold after; cbn [ln_step wp fst snd]; lia).
  apply wp_bind. apply wp_bind. eapply wp_mono; [|apply ln_collect_loop].
  intros [[files count]|e|] s1 (H1 & H2 & H3); cbn [wp bind fst snd List.length] in *; try lia.
  destruct (plan (entries_of files) cap) as [[ev mb]|] eqn:Hp.
  - cbn [quiet bind call1 wp]. intros r3. unfold after. cbn [ln_step].
    apply wp_bind.
    assert (Hlen : List.length ev + List.length mb <= List.length files).
    { pose proof (plan_partition _ _ _ _ Hp) as Hperm. apply Permutation_length in Hperm. rewrite !app_length, entries_length in Hperm. lia. }
    pose proof (lin_bind _ (fun r => match r with Ok _ => move_back_loop dir (map (name_at files) mb) | Err e => Ret (Err e) | Panic => Ret Panic end)
                  _ (4 * List.length mb) (lin_evict_loop dir (map (name_at files) ev))) as Hl.
    eapply wp_mono; [|apply Hl].
    + intros a s2 (H4 & H5). cbn [wp fst snd] in *. rewrite !map_length in H4. lia.
    + intros [u|e|]; [eapply lin_weaken; [apply lin_move_back_loop|rewrite map_length; lia]|apply lin_ret..].
  - cbn [quiet bind call1 wp]. intros r3. unfold after. cbn [ln_step wp fst snd]. lia.
Qed.

Lemma ln_cleanup_temp_loop temp names thr : lin (cleanup_temp_loop temp names thr) (2 * List.length names).
Proof.
  induction names as [|n rest IH]; cbn [cleanup_temp_loop List.length]; [apply lin_ret|].
  replace (2 * S (List.length rest)) with (S (1 + 2 * List.length rest)) by lia. cbn [bind call1]. lin1. cbn [bind].
  destruct r; try (eapply lin_weaken; [exact IH|lia]).
  apply lin_bind; [destruct (_ <? _)%Z; [apply lin_quiet; exact I|apply (lin_weaken _ 0); [apply lin_ret|lia]]|intros _; exact IH].
Qed.

Theorem ln_cleanup_temp temp : forall s,
  wp ln_step (cleanup_temporary_directory temp) (fun _ s' => fst s' + 2 * snd s <= fst s + 3 + 2 * snd s' /\ snd s <= snd s') s.
Proof.
  intros s. unfold cleanup_temporary_directory. cbn [wp]. intros t. unfold after. cbn [ln_step].
  destruct (_ <? _)%Z; [cbn [wp]; lia|].
  cbn [bind call1 wp]. intros r. unfold after. cbn [ln_step].
  destruct r as [|dh| | | |e]; cbn [bind wp fst snd]; try lia.
  intros l. unfold after.
  destruct l as [| | | |names|e2]; cbn [ln_step fst snd bind wp skip];
    try (cbn [quiet bind call1 wp]; intros r3; unfold after; cbn [ln_step wp fst snd]; lia).
  apply wp_bind. eapply wp_mono; [|apply ln_cleanup_temp_loop]. intros _ s1 (H1 & H2). cbn [fst snd] in *.
  cbn [quiet bind call1 wp]. intros r3. unfold after. cbn [ln_step wp fst snd]. lia.
Qed.

(** calls <= 7 + 5 * (names listed), from any starting count *)
Theorem maintenance_is_linear d base : forall s,
  wp ln_step (definitely_cleanup d base) (fun _ s' => fst s' + 5 * snd s <= fst s + 7 + 5 * snd s' /\ snd s <= snd s') s.
Proof.
  intros s. unfold definitely_cleanup. apply wp_bind. eapply wp_mono; [|apply ln_prune].
  intros [[est n]|e|] s1 (H1 & H1'); cbn [wp]; [|destruct (is_absent e); cbn [wp]; lia|lia].
  unfold try. apply wp_bind. eapply wp_mono; [|apply ln_cleanup_temp]. intros [u|e|] s2 (H2 & H2'); cbn [wp]; lia.
Qed.

Theorem maintenance_is_linear_run d base w o :
  let '(_, _, _, tr) := run (definitely_cleanup d base) w o in
  exists s', mon_run ln_step (0, 0) tr = Some s' /\ fst s' <= 7 + 5 * snd s'.
Proof.
  pose proof (wp_run ln_step _ _ (0, 0) w o (maintenance_is_linear d base (0, 0))) as H.
  destruct (run (definitely_cleanup d base) w o) as [[[r w'] o'] tr]. destruct H as (s' & Hm & HQ & _). exists s'. split; [exact Hm|]. cbn [fst snd] in HQ. lia.
Qed.
