(** A hit is reported as primary exactly when it came from the write cache: for
    stacks of any depth and arbitrary environment responses (no checker), when
    [get_or_update] / [ensure] consult the judge, the flag they pass is [true] iff
    the descriptor they pass was obtained by the LAST successful read-only open,
    that open named an entry path of the write cache, and nothing but lookup calls
    happened since.  The judge call is made visible by a ghost mark in front of it
    (tag 4 = "primary", 5 = "secondary"), as the model's client judge emits. *)
From Coq Require Import List NArith ZArith String Bool Arith Lia.
From Kismet Require Import Pure.Hash FS.Fs FS.Prog Spec.Wp Ops.Ops Proofs.PutNeverOverwrites Proofs.LookupOrder.
Import ListNotations.

Definition marked (j : judge) : judge := fun b f => Mark (if b then 4 else 5)%N [] (j b f).

Inductive pstate := PNone | PLast (from_writer : bool) | PDone.

Definition lookup_call (c : call) : bool :=
  match c with COpen _ RDONLY | CFstat _ | CFutimens _ _ _ | CClose _ | CSeek _ _ => true | _ => false end.

Section HitKind.
  Variable wpaths : list path.        (* the entry paths of the write cache for this key *)

  Definition pj_step (s : pstate) (ev : event) : option pstate :=
    match s with
    | PDone => Some PDone
    | _ =>
        match ev with
        | EvCall c r =>
            if lookup_call c then
              match c, r with
              | COpen p RDONLY, RFd _ => Some (PLast (existsb (path_eqb p) wpaths))
              | _, _ => Some s
              end
            else Some PDone
        | EvMark t _ =>
            if (t =? 4)%N then match s with PLast true => Some PDone | _ => None end
            else if (t =? 5)%N then match s with PLast false => Some PDone | _ => None end
            else Some s
        | _ => Some s
        end
    end.

  Lemma done_all {A} (p : prog A) : wp pj_step p (fun _ _ => True) PDone.
  Proof.
    induction p as [a|c k IH|k IH|w k IH|n k IH|h i k IH|h i v k IH|k IH|t pl k IH]; cbn [wp]; unfold after; cbn [pj_step]; auto.
  Qed.

  Lemma done_post {A} (p : prog A) (Q : A -> pstate -> Prop) : (forall a, Q a PDone) -> wp pj_step p Q PDone.
  Proof.
    intros HQ.
    induction p as [a|c k IH|k IH|w k IH|n k IH|h i k IH|h i v k IH|k IH|t pl k IH]; cbn [wp]; unfold after; cbn [pj_step]; auto.
  Qed.
  Ltac finish_done := apply done_post; intros; apply done_all.

  (** one directory lookup on a path [p]: a hit leaves "last = is p a writer path", a miss changes nothing *)
  Lemma pj_cd_get d name s : s <> PDone ->
    wp pj_step (cd_get d name)
       (fun r s' => match r with
                    | Ok (Some _) => s' = PLast (existsb (path_eqb (cd_base d ++ [name])) wpaths)
                    | Ok None => s' = s
                    | _ => True
                    end) s.
  Proof.
    intros Hs. unfold cd_get. destruct (validate name); cbn [wp]; auto.
    cbn [bind call1 wp]. intros r. unfold after.
    assert (Hst : pj_step s (EvCall (COpen (cd_base d ++ [name]) RDONLY) r) =
                  Some (match r with RFd _ => PLast (existsb (path_eqb (cd_base d ++ [name])) wpaths) | _ => s end))
      by (destruct s; [|..|congruence]; destruct r; reflexivity).
    rewrite Hst. destruct r as [|fd| | | |e]; cbn [bind wp]; auto.
    - (* ensure_file_touched: fstat, futimens: lookup calls that are not opens *)
      unfold ensure_file_touched, try, stat_call, unit_call. cbn [bind call1 wp]. intros r1. unfold after. cbn [pj_step lookup_call].
      destruct r1; cbn [bind wp]; auto. destruct (_ <? _)%Z; cbn [bind call1 wp]; auto. intros r2. unfold after. cbn [pj_step lookup_call wp].
      destruct r2; reflexivity.
    - destruct (is_absent (OsErr e)); cbn [wp]; auto.
  Qed.

  Lemma pj_f_get f k s : s <> PDone ->
    wp pj_step (f_get f k)
       (fun r s' => match r with
                    | Ok (Some _) => exists p, In p (front_paths f k) /\ s' = PLast (existsb (path_eqb p) wpaths)
                    | Ok None => s' = s
                    | _ => True
                    end) s.
  Proof.
    intros Hs. destruct f as [dir cap|dir n t]; cbn [f_get front_paths].
    - eapply wp_mono; [|apply (pj_cd_get (plain_cdir dir cap) (k_name k) s Hs)]. intros [[fd|]|e|] s' H; auto. eexists. split; [left; reflexivity|exact H].
    - unfold sh_get. destruct (shard_ids (k_hash k) (k_sec k) n) as [h1 h2]. unfold try. apply wp_bind.
      eapply wp_mono; [|apply (pj_cd_get (shard_cdir dir n t h1) (k_name k) s Hs)].
      intros [[fd|]|e|] s' H; cbn [wp]; auto.
      + eexists. split; [left; reflexivity|exact H].
      + subst s'. eapply wp_mono; [|apply (pj_cd_get (shard_cdir dir n t h2) (k_name k) s Hs)].
        intros [[fd|]|e|] s' H; auto. eexists. split; [right; left; reflexivity|exact H].
  Qed.

  Lemma pj_ro_loop stack k : forall s, s <> PDone ->
    (forall f p, In f stack -> In p (front_paths f k) -> existsb (path_eqb p) wpaths = false) ->
    wp pj_step (ro_get_loop stack None k None)
       (fun r s' => match r with Ok (Some _) => s' = PLast false | Ok None => s' = s | _ => True end) s.
  Proof.
    induction stack as [|c rest IH]; intros s Hs Hdis; cbn [ro_get_loop]; [cbn [wp]; reflexivity|].
    unfold try_c. apply wp_bind. eapply wp_mono; [|apply (pj_f_get c k s Hs)].
    intros [[fd|]|e|] s' H; cbn [skip bind wp]; auto.
    - destruct H as (p & Hin & ->). rewrite (Hdis c p (or_introl eq_refl) Hin). reflexivity.
    - subst s'. apply IH; [exact Hs|]. intros f p Hf Hp. apply (Hdis f p (or_intror Hf) Hp).
  Qed.

  Theorem judge_is_told_the_truth cfg k (j : judge) pop :
    s_checker cfg = None ->
    wpaths = match s_writer cfg with Some w => front_paths w k | None => [] end ->
    (forall f p, In f (s_readers cfg) -> In p (front_paths f k) -> existsb (path_eqb p) wpaths = false) ->
    wp pj_step (get_or_update cfg k (marked j) pop) (fun _ _ => True) PNone.
  Proof.
    intros Hc Hw Hdis. unfold get_or_update.
    assert (Hjudge : forall b f (cont : action -> prog (outcome nat)),
              wp pj_step (a <- marked j b f ;; cont a) (fun _ _ => True) (PLast b)).
    { intros b f cont. unfold marked. cbn [bind wp]. unfold after. destruct b; cbn [pj_step N.eqb Pos.eqb]; apply done_all. }
    assert (Hro : wp pj_step (ro_get (s_readers cfg) None k)
              (fun r s' => match r with Ok (Some _) => s' = PLast false | Ok None => s' = PNone | _ => True end) PNone).
    { unfold ro_get. destruct (s_readers cfg) as [|c st] eqn:Hr; [cbn [wp]; reflexivity|].
      apply pj_ro_loop; [discriminate|exact Hdis]. }
    assert (Hmiss : wp pj_step (try (ro_get (s_readers cfg) (s_checker cfg) k) (fun r2 =>
                match r2 with
                | None => populate_phase cfg k pop None
                | Some f =>
                    a <- marked j false f ;;
                    match a with
                    | Replace => populate_phase cfg k pop (Some f)
                    | _ => try (accept_checks cfg k pop f) (fun _ =>
                           match a, s_writer cfg with Promote, Some w => promote cfg w k f | _, _ => Ret (Ok f) end)
                    end
                end)) (fun _ _ => True) PNone).
    { rewrite Hc. unfold try at 1. apply wp_bind. eapply wp_mono; [|exact Hro].
      intros [[f|]|e|] s' H; cbn [wp]; auto; subst s'.
      - apply Hjudge.
      - (* nothing found anywhere: the population starts with a call that is not a lookup call *)
        unfold populate_phase, skip. destruct (s_writer cfg) as [w|].
        + unfold try_c at 1. apply wp_bind. unfold f_temp_dir.
          destruct w as [dir cap|dir n t].
          * unfold ensure_temp_dir, try, ensure_directory, is_dir_follow. cbn [bind call1 wp]. intros r. unfold after. cbn [pj_step lookup_call]. first [apply done_all|apply done_post; intros; apply done_all].
          * unfold sh_temp_dir, sort_by_load. cbn [bind wp]. intros l1 l2. cbn [bind wp]. intros b. unfold after. cbn [pj_step].
            destruct b; cbn [try bind].
            -- unfold cleanup_temporary_directory. cbn [bind wp]. intros t0. unfold after. cbn [pj_step].
               destruct (_ <? _)%Z; cbn [bind wp].
               ++ unfold ensure_temp_dir, try, ensure_directory, is_dir_follow. cbn [bind call1 wp]. intros r. unfold after. cbn [pj_step lookup_call]. first [apply done_all|apply done_post; intros; apply done_all].
               ++ cbn [call1 bind wp]. intros r. unfold after. cbn [pj_step lookup_call]. first [apply done_all|apply done_post; intros; apply done_all].
            -- cbn [wp]. unfold ensure_temp_dir, try, ensure_directory, is_dir_follow. cbn [bind call1 wp]. intros r. unfold after. cbn [pj_step lookup_call]. first [apply done_all|apply done_post; intros; apply done_all].
        + unfold try_c, fd_call. cbn [bind call1 wp]. intros r. unfold after. cbn [pj_step lookup_call]. first [apply done_all|apply done_post; intros; apply done_all]. }
    destruct (s_writer cfg) as [w|] eqn:Hwr.
    - unfold try at 1. apply wp_bind. eapply wp_mono; [|apply (pj_f_get w k PNone)]; [|discriminate].
      intros [[f|]|e|] s' H; cbn [wp]; auto.
      + destruct H as (p & Hin & ->).
        assert (Hp : existsb (path_eqb p) wpaths = true) by (rewrite Hw; apply existsb_exists; exists p; split; [exact Hin|apply path_eqb_refl]).
        rewrite Hp. unfold with_checked. rewrite Hc. cbn [try bind]. apply Hjudge.
      + subst s'. exact Hmiss.
    - cbn [try bind]. exact Hmiss.
  Qed.
End HitKind.
