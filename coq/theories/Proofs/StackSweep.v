(** Exhaustive evaluation of the stacked-cache model against the abstract
    specification (Spec/StackSpec.v) over the configuration matrix that C13, C14
    and C19 quantify over.  Everything here is executable; the theorems in
    Props/C13.v, C14.v, C19.v are [vm_compute] sweeps lifted with
    [forallb_forall], the bounds being part of the statements. *)
From Coq Require Import List NArith ZArith String Bool Arith.
From Kismet Require Import FS.Fs FS.Prog Ops.Ops Ops.Client Pure.Hash Pure.Trigger Spec.StackSpec.
Import ListNotations.
Local Open Scope string_scope.
Local Open Scope list_scope.

Definition the_key : key := mkKey "kk" 7 9.
Definition vA : value := [65%N].
Definition vB : value := [66%N].
Definition vP : value := [80%N].
Definition vV : value := [86%N].

Inductive wkind := WNone | WPlain | WSharded.

Record acfg := mkCfg {
  a_w : wkind; a_wval : option value;
  a_readers : list (bool * option value);     (* sharded? , content *)
  a_ck : ckind
}.

Definition T0 : Z := 1600000000000000000.

Definition plant_file (f : fs) (p : path) (v : value) : fs :=
  let '(f1, i) := alloc_inode f (mkInode false v 292 T0 (T0 - 120000000000) 1 true) in
  set_names f1 ((p, i) :: names f1).
Definition plant_dir (f : fs) (p : path) : fs :=
  match name_of f p with
  | Some _ => f
  | None => let '(f1, i) := alloc_inode f (mkInode true [] 493 T0 T0 2 true) in
            set_names f1 ((p, i) :: names f1)
  end.

Definition front_of (root : string) (sharded : bool) (nshards cap : N) : front :=
  if sharded then FSharded [root] nshards cap else FPlain [root] cap.

Definition key_dir (root : string) (sharded : bool) (nshards : N) : path :=
  if sharded then [root; format_id (fst (shard_ids (k_hash the_key) (k_sec the_key) nshards))] else [root].

Definition plant_key (f : fs) (root : string) (sharded : bool) (nshards : N) (v : option value) : fs :=
  match v with
  | None => f
  | Some v =>
      let f1 := plant_dir f [root] in
      let d := key_dir root sharded nshards in
      let f2 := plant_dir f1 d in
      plant_file f2 (d ++ [k_name the_key]) v
  end.

Definition reader_root (i : nat) : string :=
  match i with 0 => "r0" | 1 => "r1" | 2 => "r2" | _ => "r3" end.

Definition U64MAX : N := 18446744073709551615.

Definition mk_fs (c : acfg) : fs :=
  let f0 := plant_dir (plant_dir empty_fs ["stage"]) ["systmp"] in
  let f1 := match a_w c with
            | WNone => f0
            | WPlain => plant_key f0 "w" false 0 (a_wval c)
            | WSharded => plant_key f0 "w" true 4 (a_wval c)
            end in
  fst (fold_left (fun '(f, i) '(sh, v) => (plant_key f (reader_root i) sh 3 v, S i)) (a_readers c) (f1, 0)).

Definition mk_checker (ck : ckind) : option checker :=
  match ck with
  | CkNone => None
  | CkByteEq => Some chk_byteeq
  | CkPanic => Some chk_panic
  | CkCount => Some (chk_count false)
  end.

Definition mk_stack (c : acfg) : stack_cfg :=
  mkStack 0
    (match a_w c with WNone => None | WPlain => Some (FPlain ["w"] 100) | WSharded => Some (FSharded ["w"] 4 100) end)
    (map (fun '(i, (sh, _)) => front_of (reader_root i) sh 3 U64MAX) (combine (seq 0 (List.length (a_readers c))) (a_readers c)))
    (mk_checker (a_ck c)) true ["systmp"].

Definition the_oracle : oracle :=
  mkOracle (map (fun i => (T0 + 1000000000000 + Z.of_nat i)%Z) (seq 0 40)) [] [0%N; 1%N; 2%N]
           [".tmpa"; ".tmpb"; ".tmpc"; ".tmpd"] [] None 0 1 Relatime.

Definition the_world (c : acfg) : world := mkWorld (mk_fs c) U64MAX [].

Definition pop_of (p : apop) : pop_kind :=
  match p with PVal v => PopValue [v] | PNotFound => PopNotFound | POther => PopOther end.

(** content of the key in the write cache afterwards *)
Definition write_content (c : acfg) (f : fs) : option value :=
  let look (d : path) :=
    match name_of f (d ++ [k_name the_key]) with
    | Some i => match inode_of f i with Some x => Some (i_data x) | None => None end
    | None => None
    end in
  match a_w c with
  | WNone => None
  | WPlain => look ["w"]
  | WSharded =>
      let '(a, b) := shard_ids (k_hash the_key) (k_sec the_key) 4 in
      match look ["w"; format_id a] with Some v => Some v | None => look ["w"; format_id b] end
  end.

Definition handle_view (f : fs) (fd : nat) : option (value * N * accmode) :=
  match fd_of f fd with
  | Some x => match inode_of f (fd_ino x) with
              | Some y => Some (i_data y, fd_off x, fd_acc x)
              | None => None end
  | None => None
  end.

Definition res_of_err (e : ioerr) : ares :=
  match e with
  | Custom CMismatch => RErrMismatch
  | Custom CNotFound => RErrNotFound
  | Custom COther => RErrOther
  | Unsupported => RErrUnsupported
  | _ => RErrOther
  end.

Definition marks (tr : list event) : list (N * list (list N)) :=
  flat_map (fun e => match e with EvMark t pl => [(t, pl)] | _ => [] end) tr.

Definition cmps_of (tr : list event) : list (value * value) :=
  flat_map (fun '(t, pl) => if (t =? 1)%N then match pl with [a; b] => [(a, b)] | _ => [] end else []) (marks tr).

Definition hit_of (tr : list event) : option bool :=
  let ms := marks tr in
  if existsb (fun '(t, _) => (t =? 4)%N) ms then Some true
  else if existsb (fun '(t, _) => (t =? 5)%N) ms then Some false else None.

(** Observation of one operation on one configuration; also what C19 needs:
    offset and access mode of the returned handle, descriptor-free result. *)
Record obs := mkObs { ob_out : aout; ob_off : option N; ob_acc : option accmode; ob_modes_ok : bool }.

(** every file under a key name in the write cache has no write permission bits,
    and files the library published itself have mode 0444 *)
Definition modes_ok (c : acfg) (f : fs) : bool :=
  forallb (fun '(p, i) =>
    match inode_of f i with
    | Some x =>
        if i_dir x then true else
        match p with
        | r :: _ => if (String.eqb r "w" && negb (existsb (String.eqb ".kismet_temp") p))%bool
                    then (N.land (i_mode x) 146 =? 0)%N else true
        | _ => true
        end
    | None => true
    end) (names f).

Definition observe_op (c : acfg) (op : aop) : obs :=
  let cfg := mk_stack c in
  let w := the_world c in
  let fin {A} (r : outcome A) (w' : world) (tr : list event) (resf : A -> fs -> ares * option N * option accmode) :=
    let f' := w_fs w' in
    let '(res, off, acc) := match r with
                            | Ok a => resf a f'
                            | Err e => (res_of_err e, None, None)
                            | Panic => (RPanic, None, None)
                            end in
    mkObs (mkOut res (write_content c f') (hit_of tr) (cmps_of tr)) off acc (modes_ok c f') in
  let view (fd : nat) (f : fs) :=
    match handle_view f fd with
    | Some (v, off, acc) => (RValue v, Some off, Some acc)
    | None => (RErrOther, None, None)
    end in
  match op with
  | AGet =>
      let '(r, w', _, tr) := run (cache_get cfg the_key) w the_oracle in
      fin r w' tr (fun o f => match o with Some fd => view fd f | None => (RMiss, None, None) end)
  | ATouch =>
      let '(r, w', _, tr) := run (cache_touch cfg the_key) w the_oracle in
      fin r w' tr (fun b _ => (RBool b, None, None))
  | AGou a p =>
      let '(r, w', _, tr) := run (get_or_update cfg the_key (client_judge a 1) (client_populate (pop_of p))) w the_oracle in
      fin r w' tr view
  | ASet v =>
      let '(r, w', _, tr) := run (client_set_path true cfg the_key ["stage"; "src1"] 420 [v]) w the_oracle in
      fin r w' tr (fun _ _ => (RUnit, None, None))
  | APut v =>
      let '(r, w', _, tr) := run (client_set_path false cfg the_key ["stage"; "src1"] 420 [v]) w the_oracle in
      fin r w' tr (fun _ _ => (RUnit, None, None))
  end.

(** * The matrix *)
Definition contents : list (option value) := [None; Some vA; Some vB].
Definition reader_sets : list (list bool) := [[]; [false]; [true]; [false; true]; [false; false]].
Definition checkers : list ckind := [CkNone; CkByteEq; CkPanic; CkCount].
Definition pops : list apop := [PVal vP; PVal vA; PNotFound; POther].
Definition ops : list aop :=
  [AGet; ATouch; ASet vV; APut vV] ++
  flat_map (fun a => map (AGou a) pops) [Accept; Promote; Replace].

Fixpoint assignments (shs : list bool) : list (list (bool * option value)) :=
  match shs with
  | [] => [[]]
  | sh :: rest => flat_map (fun v => map (fun tl => (sh, v) :: tl) (assignments rest)) contents
  end.

Definition configs : list acfg :=
  flat_map (fun wk =>
    flat_map (fun wv =>
      flat_map (fun shs =>
        flat_map (fun rs =>
          map (fun ck => mkCfg wk wv rs ck) checkers)
        (assignments shs))
      reader_sets)
    (match wk with WNone => [None] | _ => contents end))
  [WNone; WPlain; WSharded].

Definition eq_value_opt (a b : option value) : bool :=
  match a, b with Some x, Some y => bytes_eq x y | None, None => true | _, _ => false end.
Definition eq_ares (a b : ares) : bool :=
  match a, b with
  | RValue x, RValue y => bytes_eq x y
  | RMiss, RMiss | RUnit, RUnit | RErrMismatch, RErrMismatch | RErrNotFound, RErrNotFound
  | RErrOther, RErrOther | RErrUnsupported, RErrUnsupported | RPanic, RPanic => true
  | RBool x, RBool y => Bool.eqb x y
  | _, _ => false
  end.
Fixpoint eq_cmps (a b : list (value * value)) : bool :=
  match a, b with
  | [], [] => true
  | (x1, y1) :: a', (x2, y2) :: b' => (bytes_eq x1 x2 && bytes_eq y1 y2 && eq_cmps a' b')%bool
  | _, _ => false
  end.
Definition eq_hit (a b : option bool) : bool :=
  match a, b with Some x, Some y => Bool.eqb x y | None, None => true | _, _ => false end.

Definition eq_out (a b : aout) : bool :=
  (eq_ares (o_res a) (o_res b) && eq_value_opt (o_write a) (o_write b) && eq_hit (o_hit a) (o_hit b)
   && eq_cmps (o_cmps a) (o_cmps b))%bool.

Definition spec_of (c : acfg) (op : aop) : aout :=
  spec (match a_w c with WNone => false | _ => true end) (a_wval c) (map snd (a_readers c)) (a_ck c) op.

Definition agrees (c : acfg) (op : aop) : bool := eq_out (ob_out (observe_op c op)) (spec_of c op).

(** C19 on the same matrix: a returned handle is read-only at offset 0, except
    the throw-away file that serves a populated value when there is no write
    cache (read-write, still at offset 0); all visible entries are read-only. *)
Definition is_throwaway (c : acfg) (op : aop) : bool :=
  match a_w c, op with
  | WNone, AGou _ _ => true
  | _, _ => false
  end.

Definition handle_ok (c : acfg) (op : aop) : bool :=
  let o := observe_op c op in
  (match ob_off o with Some off => (off =? 0)%N | None => true end) &&
  (match ob_acc o with
   | Some RDONLY => true
   | Some RDWR => is_throwaway c op
   | Some WRONLY => false
   | None => true
   end) && ob_modes_ok o.
