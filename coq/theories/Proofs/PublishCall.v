(** Which call publishes.  For arbitrary environment responses: a set - through a plain
    or a sharded directory, with all the maintenance it may run - never issues a
    link(2): it publishes by rename only, i.e. it overwrites unconditionally and
    never falls back to "insert if absent"; a put never issues a rename(2): it
    publishes by link only, i.e. it can never replace an existing entry.
    (Generated from the lemma chain of Spec/Calm.v for two more call classes.) *)
From Coq Require Import List NArith ZArith String Bool Arith Lia.
From Kismet Require Import Pure.Hash FS.Fs FS.Prog Spec.Wp Spec.ClassMon Spec.Calm Ops.Ops.
Import ListNotations.

Definition nolink (c : call) : bool := match c with CLink _ _ => false | _ => true end.
Definition norename (c : call) : bool := match c with CRename _ _ => false | _ => true end.
#[export] Hint Extern 1 (nolink _ = true) => reflexivity : allc.
#[export] Hint Extern 1 (norename _ = true) => reflexivity : allc.
Notation nl := (allc nolink).
Notation nr := (allc norename).

Lemma nl_unit_call c : nolink c = true -> nl (unit_call c) anyc.
Proof. intros H. unfold unit_call. allc_auto. Qed.
Lemma nl_fd_call c : nolink c = true -> nl (fd_call c) anyc.
Proof. intros H. unfold fd_call. allc_auto. Qed.
Lemma nl_stat_call c : nolink c = true -> nl (stat_call c) anyc.
Proof. intros H. unfold stat_call. allc_auto. Qed.
Lemma nl_quiet c : nolink c = true -> nl (quiet c) anyc.
Proof. intros H. unfold quiet. allc_auto. Qed.
#[export] Hint Resolve nl_unit_call nl_fd_call nl_stat_call nl_quiet : allc.
Lemma nl_set_times p a m : nl (set_times p a m) anyc.
Proof. unfold set_times. allc_auto. Qed.
#[export] Hint Resolve nl_set_times : allc.
Lemma nl_ensure_file_removed p : nl (ensure_file_removed p) anyc.
Proof. unfold ensure_file_removed. allc_auto. Qed.
Lemma nl_move_to_back p : nl (move_to_back_of_list p) anyc.
Proof. unfold move_to_back_of_list. allc_auto. Qed.
Lemma nl_set_read_only p : nl (set_read_only p) anyc.
Proof. unfold set_read_only, try. allc_auto. Qed.
Lemma nl_touch p : nl (touch p) anyc.
Proof. unfold touch. allc_auto. Qed.
Lemma nl_ensure_file_touched fd : nl (ensure_file_touched fd) anyc.
Proof. unfold ensure_file_touched, try. allc_auto. Qed.
#[export] Hint Resolve nl_ensure_file_removed nl_move_to_back nl_set_read_only nl_touch nl_ensure_file_touched : allc.
Lemma nl_insert_or_update a b : nl (insert_or_update a b) anyc.
Proof. unfold insert_or_update, try. allc_auto. Qed.
#[export] Hint Resolve nl_insert_or_update : allc.
Lemma nl_collect_loop dir dh names : forall acc count, nl (collect_loop dir dh names acc count) anyc.
Proof. induction names as [|n rest IH]; intros acc count; cbn [collect_loop]; allc_auto. Qed.
#[export] Hint Resolve nl_collect_loop : allc.
Lemma nl_collect dir : nl (collect_cached_files dir) anyc.
Proof. unfold collect_cached_files, try. allc_auto. Qed.
#[export] Hint Resolve nl_collect : allc.
Lemma nl_evict_loop dir names : nl (evict_loop dir names) anyc.
Proof. induction names as [|n rest IH]; cbn [evict_loop]; unfold try; allc_auto. Qed.
Lemma nl_move_back_loop dir names : nl (move_back_loop dir names) anyc.
Proof. induction names as [|n rest IH]; cbn [move_back_loop]; allc_auto. Qed.
#[export] Hint Resolve nl_evict_loop nl_move_back_loop : allc.
Lemma nl_prune dir cap : nl (prune dir cap) anyc.
Proof. unfold prune, try. allc_auto. Qed.
#[export] Hint Resolve nl_prune : allc.
Lemma nl_cleanup_temp_loop temp names thr : nl (cleanup_temp_loop temp names thr) anyc.
Proof. induction names as [|n rest IH]; cbn [cleanup_temp_loop]; unfold skip; allc_auto. Qed.
#[export] Hint Resolve nl_cleanup_temp_loop : allc.
Lemma nl_cleanup_temp temp : nl (cleanup_temporary_directory temp) anyc.
Proof. unfold cleanup_temporary_directory, skip. allc_auto. Qed.
#[export] Hint Resolve nl_cleanup_temp : allc.
Lemma nl_is_dir_follow p : nl (is_dir_follow p) anyc.
Proof. unfold is_dir_follow. allc_auto. Qed.
#[export] Hint Resolve nl_is_dir_follow : allc.
Lemma nl_create_dir_all_rev rp : nl (create_dir_all_rev rp) anyc.
Proof. induction rp as [|x rp IH]; cbn [create_dir_all_rev]; [allc_auto|]. unfold try. allc_auto. Qed.
Lemma nl_create_dir_all p : nl (create_dir_all p) anyc.
Proof. unfold create_dir_all. apply nl_create_dir_all_rev. Qed.
#[export] Hint Resolve nl_create_dir_all : allc.
Lemma nl_ensure_directory p : nl (ensure_directory p) anyc.
Proof. unfold ensure_directory. allc_auto. Qed.
#[export] Hint Resolve nl_ensure_directory : allc.
Lemma nl_ensure_temp_dir d : nl (ensure_temp_dir d) anyc.
Proof. unfold ensure_temp_dir, try. allc_auto. Qed.
#[export] Hint Resolve nl_ensure_temp_dir : allc.
Lemma nl_cd_get d name : nl (cd_get d name) anyc.
Proof. unfold cd_get. destruct (validate name); allc_auto. Qed.
Lemma nl_cd_touch d name : nl (cd_touch d name) anyc.
Proof. unfold cd_touch. destruct (validate name); allc_auto. Qed.
#[export] Hint Resolve nl_cd_get nl_cd_touch : allc.
Lemma nl_definitely_cleanup d base : nl (definitely_cleanup d base) anyc.
Proof. unfold definitely_cleanup, try. allc_auto. Qed.
#[export] Hint Resolve nl_definitely_cleanup : allc.
Lemma nl_maybe_cleanup d : nl (maybe_cleanup d) anyc.
Proof. unfold maybe_cleanup, try. allc_auto. Qed.
#[export] Hint Resolve nl_maybe_cleanup : allc.
Lemma nl_cd_publish ins d name value : (forall a b, nl (ins a b) anyc) -> nl (cd_publish ins d name value) anyc.
Proof. intros Hins. unfold cd_publish, try. destruct (validate name); allc_auto. Qed.
Lemma nl_cd_set d name value : nl (cd_set d name value) anyc.
Proof. apply nl_cd_publish. apply nl_insert_or_update. Qed.
#[export] Hint Resolve nl_cd_set : allc.
Lemma nl_sort_by_load h n t ids : nl (sort_by_load h n t ids) anyc.
Proof. unfold sort_by_load. allc_auto. Qed.
Lemma nl_file_exists p name : nl (file_exists p name) anyc.
Proof. unfold file_exists. destruct (validate name); allc_auto. Qed.
Lemma nl_update_estimate h id u : nl (update_estimate h id u) anyc.
Proof. unfold update_estimate. allc_auto. Qed.
#[export] Hint Resolve nl_sort_by_load nl_file_exists nl_update_estimate : allc.
Lemma nl_force_maintain h dir n t id : nl (force_maintain_shard h dir n t id) anyc.
Proof. unfold force_maintain_shard, try. allc_auto. Qed.
#[export] Hint Resolve nl_force_maintain : allc.
Lemma nl_sh_publish ins h dir n t k v : (forall d name value, nl (ins d name value) anyc) -> nl (sh_publish ins h dir n t k v) anyc.
Proof. intros Hins. unfold sh_publish, try. allc_auto. Qed.
Lemma nl_sh_get dir n t k : nl (sh_get dir n t k) anyc.
Proof. unfold sh_get, try. destruct (shard_ids _ _ _). allc_auto. Qed.
Lemma nl_sh_touch dir n t k : nl (sh_touch dir n t k) anyc.
Proof. unfold sh_touch, try. destruct (shard_ids _ _ _). allc_auto. Qed.
#[export] Hint Resolve nl_sh_get nl_sh_touch : allc.
Lemma nl_sh_temp_dir h dir n t k : nl (sh_temp_dir h dir n t k) anyc.
Proof. unfold sh_temp_dir, try. destruct k; allc_auto. Qed.
#[export] Hint Resolve nl_sh_temp_dir : allc.
Lemma nl_f_get f k : nl (f_get f k) anyc.
Proof. unfold f_get. destruct f; allc_auto. Qed.
Lemma nl_f_touch f k : nl (f_touch f k) anyc.
Proof. unfold f_touch. destruct f; allc_auto. Qed.
Lemma nl_f_temp_dir h f k : nl (f_temp_dir h f k) anyc.
Proof. unfold f_temp_dir. destruct f; allc_auto. Qed.
Lemma nl_f_set h f k v : nl (f_set h f k v) anyc.
Proof. unfold f_set, drop_opt, try. destruct f; [allc_auto|]. apply nl_sh_publish. intros. apply nl_cd_set. Qed.

Lemma nr_unit_call c : norename c = true -> nr (unit_call c) anyc.
Proof. intros H. unfold unit_call. allc_auto. Qed.
Lemma nr_fd_call c : norename c = true -> nr (fd_call c) anyc.
Proof. intros H. unfold fd_call. allc_auto. Qed.
Lemma nr_stat_call c : norename c = true -> nr (stat_call c) anyc.
Proof. intros H. unfold stat_call. allc_auto. Qed.
Lemma nr_quiet c : norename c = true -> nr (quiet c) anyc.
Proof. intros H. unfold quiet. allc_auto. Qed.
#[export] Hint Resolve nr_unit_call nr_fd_call nr_stat_call nr_quiet : allc.
Lemma nr_set_times p a m : nr (set_times p a m) anyc.
Proof. unfold set_times. allc_auto. Qed.
#[export] Hint Resolve nr_set_times : allc.
Lemma nr_ensure_file_removed p : nr (ensure_file_removed p) anyc.
Proof. unfold ensure_file_removed. allc_auto. Qed.
Lemma nr_move_to_back p : nr (move_to_back_of_list p) anyc.
Proof. unfold move_to_back_of_list. allc_auto. Qed.
Lemma nr_set_read_only p : nr (set_read_only p) anyc.
Proof. unfold set_read_only, try. allc_auto. Qed.
Lemma nr_touch p : nr (touch p) anyc.
Proof. unfold touch. allc_auto. Qed.
Lemma nr_ensure_file_touched fd : nr (ensure_file_touched fd) anyc.
Proof. unfold ensure_file_touched, try. allc_auto. Qed.
#[export] Hint Resolve nr_ensure_file_removed nr_move_to_back nr_set_read_only nr_touch nr_ensure_file_touched : allc.
Lemma nr_insert_or_touch a b : nr (insert_or_touch a b) anyc.
Proof. unfold insert_or_touch, try. allc_auto. Qed.
#[export] Hint Resolve nr_insert_or_touch : allc.
Lemma nr_collect_loop dir dh names : forall acc count, nr (collect_loop dir dh names acc count) anyc.
Proof. induction names as [|n rest IH]; intros acc count; cbn [collect_loop]; allc_auto. Qed.
#[export] Hint Resolve nr_collect_loop : allc.
Lemma nr_collect dir : nr (collect_cached_files dir) anyc.
Proof. unfold collect_cached_files, try. allc_auto. Qed.
#[export] Hint Resolve nr_collect : allc.
Lemma nr_evict_loop dir names : nr (evict_loop dir names) anyc.
Proof. induction names as [|n rest IH]; cbn [evict_loop]; unfold try; allc_auto. Qed.
Lemma nr_move_back_loop dir names : nr (move_back_loop dir names) anyc.
Proof. induction names as [|n rest IH]; cbn [move_back_loop]; allc_auto. Qed.
#[export] Hint Resolve nr_evict_loop nr_move_back_loop : allc.
Lemma nr_prune dir cap : nr (prune dir cap) anyc.
Proof. unfold prune, try. allc_auto. Qed.
#[export] Hint Resolve nr_prune : allc.
Lemma nr_cleanup_temp_loop temp names thr : nr (cleanup_temp_loop temp names thr) anyc.
Proof. induction names as [|n rest IH]; cbn [cleanup_temp_loop]; unfold skip; allc_auto. Qed.
#[export] Hint Resolve nr_cleanup_temp_loop : allc.
Lemma nr_cleanup_temp temp : nr (cleanup_temporary_directory temp) anyc.
Proof. unfold cleanup_temporary_directory, skip. allc_auto. Qed.
#[export] Hint Resolve nr_cleanup_temp : allc.
Lemma nr_is_dir_follow p : nr (is_dir_follow p) anyc.
Proof. unfold is_dir_follow. allc_auto. Qed.
#[export] Hint Resolve nr_is_dir_follow : allc.
Lemma nr_create_dir_all_rev rp : nr (create_dir_all_rev rp) anyc.
Proof. induction rp as [|x rp IH]; cbn [create_dir_all_rev]; [allc_auto|]. unfold try. allc_auto. Qed.
Lemma nr_create_dir_all p : nr (create_dir_all p) anyc.
Proof. unfold create_dir_all. apply nr_create_dir_all_rev. Qed.
#[export] Hint Resolve nr_create_dir_all : allc.
Lemma nr_ensure_directory p : nr (ensure_directory p) anyc.
Proof. unfold ensure_directory. allc_auto. Qed.
#[export] Hint Resolve nr_ensure_directory : allc.
Lemma nr_ensure_temp_dir d : nr (ensure_temp_dir d) anyc.
Proof. unfold ensure_temp_dir, try. allc_auto. Qed.
#[export] Hint Resolve nr_ensure_temp_dir : allc.
Lemma nr_cd_get d name : nr (cd_get d name) anyc.
Proof. unfold cd_get. destruct (validate name); allc_auto. Qed.
Lemma nr_cd_touch d name : nr (cd_touch d name) anyc.
Proof. unfold cd_touch. destruct (validate name); allc_auto. Qed.
#[export] Hint Resolve nr_cd_get nr_cd_touch : allc.
Lemma nr_definitely_cleanup d base : nr (definitely_cleanup d base) anyc.
Proof. unfold definitely_cleanup, try. allc_auto. Qed.
#[export] Hint Resolve nr_definitely_cleanup : allc.
Lemma nr_maybe_cleanup d : nr (maybe_cleanup d) anyc.
Proof. unfold maybe_cleanup, try. allc_auto. Qed.
#[export] Hint Resolve nr_maybe_cleanup : allc.
Lemma nr_cd_publish ins d name value : (forall a b, nr (ins a b) anyc) -> nr (cd_publish ins d name value) anyc.
Proof. intros Hins. unfold cd_publish, try. destruct (validate name); allc_auto. Qed.
Lemma nr_cd_put d name value : nr (cd_put d name value) anyc.
Proof. apply nr_cd_publish. apply nr_insert_or_touch. Qed.
#[export] Hint Resolve nr_cd_put : allc.
Lemma nr_sort_by_load h n t ids : nr (sort_by_load h n t ids) anyc.
Proof. unfold sort_by_load. allc_auto. Qed.
Lemma nr_file_exists p name : nr (file_exists p name) anyc.
Proof. unfold file_exists. destruct (validate name); allc_auto. Qed.
Lemma nr_update_estimate h id u : nr (update_estimate h id u) anyc.
Proof. unfold update_estimate. allc_auto. Qed.
#[export] Hint Resolve nr_sort_by_load nr_file_exists nr_update_estimate : allc.
Lemma nr_force_maintain h dir n t id : nr (force_maintain_shard h dir n t id) anyc.
Proof. unfold force_maintain_shard, try. allc_auto. Qed.
#[export] Hint Resolve nr_force_maintain : allc.
Lemma nr_sh_publish ins h dir n t k v : (forall d name value, nr (ins d name value) anyc) -> nr (sh_publish ins h dir n t k v) anyc.
Proof. intros Hins. unfold sh_publish, try. allc_auto. Qed.
Lemma nr_sh_get dir n t k : nr (sh_get dir n t k) anyc.
Proof. unfold sh_get, try. destruct (shard_ids _ _ _). allc_auto. Qed.
Lemma nr_sh_touch dir n t k : nr (sh_touch dir n t k) anyc.
Proof. unfold sh_touch, try. destruct (shard_ids _ _ _). allc_auto. Qed.
#[export] Hint Resolve nr_sh_get nr_sh_touch : allc.
Lemma nr_sh_temp_dir h dir n t k : nr (sh_temp_dir h dir n t k) anyc.
Proof. unfold sh_temp_dir, try. destruct k; allc_auto. Qed.
#[export] Hint Resolve nr_sh_temp_dir : allc.
Lemma nr_f_get f k : nr (f_get f k) anyc.
Proof. unfold f_get. destruct f; allc_auto. Qed.
Lemma nr_f_touch f k : nr (f_touch f k) anyc.
Proof. unfold f_touch. destruct f; allc_auto. Qed.
Lemma nr_f_temp_dir h f k : nr (f_temp_dir h f k) anyc.
Proof. unfold f_temp_dir. destruct f; allc_auto. Qed.
Lemma nr_f_put h f k v : nr (f_put h f k v) anyc.
Proof. unfold f_put, drop_opt, try. destruct f; [allc_auto|]. apply nr_sh_publish. intros. apply nr_cd_put. Qed.

Theorem set_publishes_by_rename_only h f k v : nl (f_set h f k v) anyc.
Proof. apply nl_f_set. Qed.

Theorem put_publishes_by_link_only h f k v : nr (f_put h f k v) anyc.
Proof. apply nr_f_put. Qed.

#[export] Hint Resolve nl_f_set nr_f_put : allc.

Lemma nl_maybe_sync_path cfg p : nl (maybe_sync_path cfg p) anyc.
Proof. unfold maybe_sync_path, try. destruct (s_autosync cfg); allc_auto. Qed.
Lemma nr_maybe_sync_path cfg p : nr (maybe_sync_path cfg p) anyc.
Proof. unfold maybe_sync_path, try. destruct (s_autosync cfg); allc_auto. Qed.
#[export] Hint Resolve nl_maybe_sync_path nr_maybe_sync_path : allc.

Theorem public_set_never_links cfg k v : nl (cache_set cfg k v) anyc.
Proof. unfold cache_set, try, write_impl. destruct (s_writer cfg); allc_auto. Qed.

Theorem public_put_never_renames cfg k v : nr (cache_put cfg k v) anyc.
Proof. unfold cache_put, try, write_impl. destruct (s_writer cfg); allc_auto. Qed.

Theorem public_set_never_links_run cfg k v w o :
  let '(_, _, _, tr) := run (cache_set cfg k v) w o in
  Forall (fun ev => match ev with EvCall c _ => nolink c = true | _ => True end) tr.
Proof.
  pose proof (allc_run nolink _ _ (public_set_never_links cfg k v) w o) as H.
  destruct (run (cache_set cfg k v) w o) as [[[a w'] o'] tr]. exact (proj2 H).
Qed.

Theorem public_put_never_renames_run cfg k v w o :
  let '(_, _, _, tr) := run (cache_put cfg k v) w o in
  Forall (fun ev => match ev with EvCall c _ => norename c = true | _ => True end) tr.
Proof.
  pose proof (allc_run norename _ _ (public_put_never_renames cfg k v) w o) as H.
  destruct (run (cache_put cfg k v) w o) as [[[a w'] o'] tr]. exact (proj2 H).
Qed.
