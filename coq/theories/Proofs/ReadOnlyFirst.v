(** Read-only before visible: for arbitrary environment responses, every
    publishing rename or link issued by set / put (plain or sharded, retry
    included, temp-file API included) has as its SOURCE a path that an accepted
    chmod made read-only (no write permission bit in the mode it set) and that
    no later accepted chmod made writable again: no entry is ever visible under
    a key's name with a write bit set by the library. *)
From Coq Require Import List NArith ZArith String Bool Arith Lia.
From Kismet Require Import Pure.Hash FS.Fs FS.Prog Spec.Wp Spec.ClassMon Spec.Calm Spec.Chain Ops.Ops Proofs.PutNeverOverwrites Proofs.FreshStamp.
Import ListNotations.

Definition no_write_bits (m : N) : bool := (N.land m 146 =? 0)%N.      (* 0o222 *)

Definition q_step (s : option path) (ev : event) : option (option path) :=
  match ev with
  | EvCall (CChmod p m) r =>
      match r with
      | RErr _ => Some s
      | _ => if no_write_bits m then Some (Some p) else Some None
      end
  | EvCall (CRename p _) _ | EvCall (CLink p _) _ =>
      match s with Some q => if path_eqb p q then Some s else None | None => None end
  | _ => Some s
  end.

Definition qr {A} (p : prog A) : Prop := forall s, wp q_step p (fun _ _ => True) s.

Lemma qr_bind {A B} (p : prog A) (f : A -> prog B) : qr p -> (forall a, qr (f a)) -> qr (bind p f).
Proof. intros Hp Hf s. apply wp_bind. eapply wp_mono; [|apply Hp]. intros a s' _. apply Hf. Qed.
Lemma qr_ret {A} (a : A) : qr (Ret a). Proof. intros s. exact I. Qed.
Lemma qr_try {A B} (p : prog (outcome A)) (f : A -> prog (outcome B)) : qr p -> (forall a, qr (f a)) -> qr (try p f).
Proof. intros Hp Hf. unfold try. apply qr_bind; [exact Hp|]. intros [a|e|]; [apply Hf|apply qr_ret|apply qr_ret]. Qed.

Lemma qr_of_nrl {A} (p : prog A) Q : allc nrl p Q -> qr p.
Proof.
  unfold allc, qr.
  induction p as [a|c k IH|k IH|w k IH|n k IH|h i k IH|h i v k IH|k IH|t pl k IH]; cbn [wp]; unfold after; cbn [k_step]; intros H s; auto.
  - intros r. specialize (H r). destruct (nrl c) eqn:Hc; [|contradiction].
    assert (Hs : exists s1, q_step s (EvCall c r) = Some s1).
    { destruct c; try discriminate Hc; cbn [q_step]; eauto. destruct r; eauto; destruct (no_write_bits mode); eauto. }
    destruct Hs as (s1 & Hs). rewrite Hs. apply IH, H.
  - intros t. cbn [q_step]. apply IH, H.
  - intros b. cbn [q_step]. apply IH, H.
  - intros x. cbn [q_step]. apply IH, H.
  - intros x. cbn [q_step]. apply IH, H.
  - cbn [q_step]. apply IH, H.
Qed.

(** the mode set_read_only computes never has a write bit *)
Lemma masked_mode_read_only m : no_write_bits (N.land m 3949) = true.
Proof.
  unfold no_write_bits. rewrite <- N.land_assoc. change (N.land 3949 146) with 0%N. rewrite N.land_0_r. reflexivity.
Qed.

#[local] Hint Extern 1 (nrl _ = true) => reflexivity : allc.
#[local] Hint Resolve allc_call : allc.

(** after [set_read_only p] returns Ok the state is [Some p] *)
Lemma read_only_then {B} p (f : unit -> prog (outcome B)) :
  wp q_step (f tt) (fun _ _ => True) (Some p) -> qr (try (set_read_only p) f).
Proof.
  intros Hf s. unfold try, set_read_only, stat_call, unit_call. cbn [bind call1 wp]. intros r. unfold after. cbn [q_step].
  destruct r as [| |st| | |er]; cbn [wp bind]; try exact I.
  intros r2. unfold after. cbn [q_step]. rewrite masked_mode_read_only.
  destruct r2 as [| | | | |er2]; cbn [wp bind]; try exact I; exact Hf.
Qed.

Lemma qr_move_to_back p : qr (move_to_back_of_list p).
Proof. eapply qr_of_nrl with (Q := anyc). unfold move_to_back_of_list, set_times, unit_call, quiet. allc_auto. Qed.
Lemma qr_ensure_file_removed p : qr (ensure_file_removed p).
Proof. eapply qr_of_nrl with (Q := anyc). unfold ensure_file_removed, unit_call. allc_auto. Qed.

Lemma qr_insert_or_update a b : qr (insert_or_update a b).
Proof.
  unfold insert_or_update. apply qr_try; [apply qr_move_to_back|]. intros _. apply read_only_then.
  unfold try, unit_call. cbn [bind call1 wp]. intros r. unfold after. cbn [q_step]. rewrite path_eqb_refl.
  destruct r; cbn [wp bind]; try exact I; apply qr_ensure_file_removed.
Qed.

Lemma qr_insert_or_touch a b : qr (insert_or_touch a b).
Proof.
  unfold insert_or_touch. apply qr_try; [apply qr_move_to_back|]. intros _. apply read_only_then.
  cbn [bind call1 wp]. intros r. unfold after. cbn [q_step]. rewrite path_eqb_refl.
  assert (Htouch : qr (try (touch b) (fun _ : bool => ensure_file_removed a))).
  { apply qr_try; [|intros _; apply qr_ensure_file_removed]. eapply qr_of_nrl with (Q := anyc). unfold touch, set_times, unit_call, quiet. allc_auto. }
  destruct r as [| | | | |er]; try apply qr_ensure_file_removed. destruct er; try (cbn [wp]; exact I). apply Htouch.
Qed.

(** The chain above the two primitives: everything else has no rename/link. *)
Ltac nrlq_tac L := eapply qr_of_nrl with (Q := anyc); first [apply L; exact base_nrl | apply L].
Lemma qr_cd_publish ins d name value : (forall a b, qr (ins a b)) -> qr (cd_publish ins d name value).
Proof.
  intros Hins. unfold cd_publish. destruct (validate name); try apply qr_ret.
  apply qr_try; [nrlq_tac ck_maybe_cleanup|]. intros ret.
  apply qr_bind; [apply Hins|]. intros [u|e|]; try apply qr_ret;
    (apply qr_try; [nrlq_tac ck_create_dir_all|]; intros _; apply qr_try; [apply Hins|intros _; apply qr_ret]).
Qed.

Lemma qr_sh_publish ins h dir n t k v : (forall d name value, qr (ins d name value)) -> qr (sh_publish ins h dir n t k v).
Proof.
  intros Hins. unfold sh_publish. apply qr_bind; [nrlq_tac ck_sort_by_load|]. intros [h1 h2].
  apply qr_try; [nrlq_tac ck_file_exists|]. intros ex.
  apply qr_try; [apply Hins|]. intros upd.
  apply qr_bind; [nrlq_tac ck_update_estimate|]. intros _.
  destruct upd.
  - intros s. cbn [wp]. intros r. unfold after. cbn [q_step]. nrlq_tac ck_force_maintain.
  - intros s. cbn [wp]. intros l. destruct (_ <? _)%N; [|apply qr_ret].
    cbn [wp]. unfold after. cbn [q_step]. nrlq_tac ck_force_maintain.
Qed.

Theorem qr_f_set h f k v : qr (f_set h f k v).
Proof.
  unfold f_set, drop_opt. destruct f.
  - apply qr_try; [apply qr_cd_publish, qr_insert_or_update|intros _; apply qr_ret].
  - apply qr_sh_publish. intros. apply qr_cd_publish, qr_insert_or_update.
Qed.
Theorem qr_f_put h f k v : qr (f_put h f k v).
Proof.
  unfold f_put, drop_opt. destruct f.
  - apply qr_try; [apply qr_cd_publish, qr_insert_or_touch|intros _; apply qr_ret].
  - apply qr_sh_publish. intros. apply qr_cd_publish, qr_insert_or_touch.
Qed.
Theorem qr_cache_set cfg k v : qr (cache_set cfg k v).
Proof.
  unfold cache_set. apply qr_try; [nrlq_tac ck_maybe_sync|]. intros _.
  unfold write_impl. destruct (s_writer cfg); [apply qr_f_set|apply qr_ret].
Qed.
Theorem qr_cache_put cfg k v : qr (cache_put cfg k v).
Proof.
  unfold cache_put. apply qr_try; [nrlq_tac ck_maybe_sync|]. intros _.
  unfold write_impl. destruct (s_writer cfg); [apply qr_f_put|apply qr_ret].
Qed.


(** set_temp_file / put_temp_file *)
Theorem qr_cache_write_temp which cfg k fd p : qr (cache_write_temp which cfg k fd p).
Proof.
  unfold cache_write_temp. apply qr_try.
  - eapply qr_of_nrl with (Q := anyc). unfold finalize_tempfile, try_c, unit_call, quiet. destruct (s_autosync cfg); allc_auto.
  - intros _. apply qr_bind.
    + unfold write_impl. destruct (s_writer cfg); [destruct which; [apply qr_f_set|apply qr_f_put]|apply qr_ret].
    + intros r. apply qr_bind; [|intros _; apply qr_ret]. eapply qr_of_nrl with (Q := anyc). unfold quiet. allc_auto.
Qed.

(** On every sequential run: the monitor accepts the trace from any state. *)
Theorem read_only_first_run {A} (p : prog A) : qr p -> forall w o s,
  let '(_, _, _, tr) := run p w o in mon_run q_step s tr <> None.
Proof.
  intros H w o s. pose proof (wp_run q_step p _ s w o (H s)) as Hr.
  destruct (run p w o) as [[[a w'] o'] tr]. destruct Hr as (s' & Hm & _). rewrite Hm. discriminate.
Qed.
