(** Losing the race to create a directory is not an error.  For arbitrary environment
    responses, create_dir_all (and ensure_directory) answer "already exists" only when
    the last thing they did was to look at the path and find that it is NOT a
    directory: an EEXIST from mkdir - a peer created the directory first - is
    always followed by that look, and is success when the path is a directory. *)
From Coq Require Import List NArith ZArith String Bool Arith Lia.
From Kismet Require Import Pure.Hash FS.Fs FS.Prog Spec.Wp Ops.Ops.
Import ListNotations.

(** state: what the last following stat said about "is a directory" (None: no such stat
    since the last mkdir) *)
Definition md_step (s : option bool) (ev : event) : option (option bool) :=
  match ev with
  | EvCall (CStat _ true) r => Some (Some (match r with RStat st => st_dir st | _ => false end))
  | EvCall (CMkdir _) _ => Some None
  | _ => Some s
  end.

Definition md_post (r : outcome unit) (s' : option bool) : Prop :=
  r = Err (OsErr EEXIST) -> s' = Some false.

Lemma md_settle p e s :
  wp md_step (match e with
              | EEXIST => (b <- is_dir_follow p ;; Ret (if b then Ok tt else Err (OsErr e)))
              | _ => Ret (Err (OsErr e))
              end) md_post s.
Proof.
  destruct e; cbn [wp md_post]; try (intros H; discriminate H).
  unfold is_dir_follow. cbn [bind call1 wp]. intros r. unfold after. cbn [md_step].
  destruct r as [| |st| | |e2]; cbn [wp md_post bind]; try (intros _; reflexivity).
  destruct (st_dir st); [intros H; discriminate H|intros _; reflexivity].
Qed.

Lemma md_create_dir_all_rev rp : forall s, wp md_step (create_dir_all_rev rp) md_post s.
Proof.
  induction rp as [|x rparent IH]; intros s; cbn [create_dir_all_rev].
  - cbn [wp md_post]. intros H. discriminate H.
  - cbn [bind call1 wp]. intros r. unfold after. cbn [md_step].
    destruct r as [| | | | |e]; try (cbn [wp md_post]; intros H; discriminate H).
    destruct e; try (cbn [wp md_post]; intros H; discriminate H); try (apply (md_settle (rev (x :: rparent)) EEXIST)).
    unfold try. apply wp_bind. eapply wp_mono; [|apply IH].
    intros [u|e|] s1 H1; cbn [wp].
    + intros r2. unfold after. cbn [md_step].
      destruct r2 as [| | | | |e2]; try (cbn [wp md_post]; intros H; discriminate H). apply md_settle.
    + exact H1.
    + intros H. discriminate H.
Qed.

Theorem mkdir_race_is_not_an_error p : forall s, wp md_step (create_dir_all p) md_post s.
Proof. intros s. unfold create_dir_all. apply md_create_dir_all_rev. Qed.

Theorem ensure_directory_race_is_not_an_error p : forall s, wp md_step (ensure_directory p) md_post s.
Proof.
  intros s. unfold ensure_directory, is_dir_follow. cbn [bind call1 wp]. intros r. unfold after. cbn [md_step].
  destruct r as [| |st| | |e]; cbn [bind]; try apply mkdir_race_is_not_an_error.
  destruct (st_dir st); [cbn [wp md_post]; intros H; discriminate H|apply mkdir_race_is_not_an_error].
Qed.

Theorem mkdir_race_run p w o :
  let '(r, _, _, tr) := run (create_dir_all p) w o in
  r = Err (OsErr EEXIST) -> mon_run md_step None tr = Some (Some false).
Proof.
  pose proof (wp_run md_step _ _ None w o (mkdir_race_is_not_an_error p None)) as H.
  destruct (run (create_dir_all p) w o) as [[[r w'] o'] tr]. destruct H as (s' & Hm & HQ).
  intros Hr. rewrite Hm, (HQ Hr). reflexivity.
Qed.

Lemma md_monitor_meaning p s st :
  md_step s (EvCall (CStat p true) (RStat st)) = Some (Some (st_dir st)) /\
  md_step s (EvCall (CStat p true) (RErr ENOENT)) = Some (Some false) /\
  md_step s (EvCall (CMkdir p) (RErr EEXIST)) = Some None /\
  md_step s (EvCall (CStat p false) (RStat st)) = Some s.
Proof. repeat split. Qed.
