(** Reads never reorder: lookups and touches (through plain, sharded, read-only
    and stacked caches) only issue calls that cannot change any file's
    modification time, for arbitrary environment responses; hence in any pool of
    participants that only look up and touch, under any schedule, every entry
    keeps its modification time — the eviction order among existing entries is
    never altered by reads, only their read marks (access times) move. *)
From Coq Require Import List NArith ZArith String Bool Arith Lia.
From Kismet Require Import Pure.Hash FS.Fs FS.Prog Spec.Wp Spec.ClassMon Spec.Calm Spec.Chain Ops.Ops
     Conc.Pool Conc.Effect Conc.ClassInv.
Import ListNotations.

Definition mtime (f : fs) (i : nat) : option Z := option_map i_mtime (inode_of f i).

(** Calls that cannot change a modification time. *)
Definition ro_time (c : call) : bool :=
  match c with
  | CFutimens _ _ (Some _) => false
  | CWrite _ _ | CCopy _ _ | CCreate _ _ | CCreateTrunc _ _ | COpenTmp _ | CMkdir _ => false
  | _ => true
  end.

Lemma mt_set_inode f i x j : mtime (set_inode f i x) j = if Nat.eqb j i then Some (i_mtime x) else mtime f j.
Proof. unfold mtime. rewrite ino_set_inode. destruct (Nat.eqb j i); reflexivity. Qed.
Lemma mt_set_fd f d x j : mtime (set_fd f d x) j = mtime f j. Proof. unfold mtime. rewrite ino_set_fd. reflexivity. Qed.
Lemma mt_del_fd f d j : mtime (del_fd f d) j = mtime f j. Proof. unfold mtime. rewrite ino_del_fd. reflexivity. Qed.
Lemma mt_set_names f n j : mtime (set_names f n) j = mtime f j. Proof. unfold mtime. rewrite ino_set_names. reflexivity. Qed.
Lemma mt_tick f t j : mtime (tick f t) j = mtime f j. Proof. unfold mtime. rewrite ino_tick. reflexivity. Qed.
Lemma mt_bump f j : mtime (bump f) j = mtime f j. Proof. unfold mtime. rewrite ino_bump. reflexivity. Qed.
Lemma mt_afd f x j : mtime (afd f x) j = mtime f j. Proof. unfold mtime. rewrite ino_alloc_fd. reflexivity. Qed.
Lemma mt_drop_link f i j : mtime (drop_link f i) j = mtime f j.
Proof.
  Transparent drop_link. unfold drop_link. Opaque drop_link.
  destruct (inode_of f i) as [x|] eqn:Hx; [|reflexivity].
  rewrite mt_set_inode. cbn [i_mtime]. destruct (Nat.eqb_spec j i) as [->|]; [|reflexivity].
  unfold mtime. rewrite Hx. reflexivity.
Qed.
#[export] Hint Rewrite mt_set_inode mt_set_fd mt_del_fd mt_set_names mt_tick mt_bump mt_afd mt_drop_link : fseff.

Theorem sem_keeps_mtime f e c i m :
  ro_time c = true -> mtime f i = Some m -> mtime (fst (sem f e c)) i = Some m.
Proof.
  intros Hc Hm.
  assert (Hsame : forall x, inode_of f i = Some x -> Some (i_mtime x) = Some m).
  { intros x Hx. unfold mtime in Hm. rewrite Hx in Hm. exact Hm. }
  destruct c; cbn [ro_time] in Hc; try discriminate Hc; cbn [sem]; unfold with_inode; sem_split;
    cbn [fst snd]; autorewrite with fseff; cbn [i_mtime]; try exact Hm;
    repeat match goal with
           | |- context [if Nat.eqb ?a ?k then _ else _] => destruct (Nat.eqb_spec a k) as [?|?]; [subst|]
           end; try exact Hm; try (apply Hsame; assumption); try discriminate Hc.
Qed.

(** ** Lookups and touches are in the class, for arbitrary responses *)
Notation rt := (allc ro_time).
#[local] Hint Extern 1 (ro_time _ = true) => reflexivity : allc.
#[local] Hint Resolve allc_call : allc.

Lemma rt_unit_call c : ro_time c = true -> rt (unit_call c) anyc.
Proof. intros H. unfold unit_call. allc_auto. Qed.
Lemma rt_stat_call c : ro_time c = true -> rt (stat_call c) anyc.
Proof. intros H. unfold stat_call. allc_auto. Qed.
Lemma rt_quiet c : ro_time c = true -> rt (quiet c) anyc.
Proof. intros H. unfold quiet. allc_auto. Qed.
#[local] Hint Resolve rt_unit_call rt_stat_call rt_quiet : allc.

Lemma rt_set_atime p a : rt (set_times p a None) anyc.
Proof. unfold set_times. allc_auto. Qed.
#[local] Hint Resolve rt_set_atime : allc.
Lemma rt_touch p : rt (touch p) anyc.
Proof. unfold touch. allc_auto. Qed.
Lemma rt_ensure_file_touched fd : rt (ensure_file_touched fd) anyc.
Proof. unfold ensure_file_touched, try. allc_auto. Qed.
#[local] Hint Resolve rt_touch rt_ensure_file_touched : allc.
Lemma rt_cd_get d name : rt (cd_get d name) anyc.
Proof. unfold cd_get. destruct (validate name); allc_auto. Qed.
Lemma rt_cd_touch d name : rt (cd_touch d name) anyc.
Proof. unfold cd_touch. destruct (validate name); allc_auto. Qed.
#[local] Hint Resolve rt_cd_get rt_cd_touch : allc.
Lemma rt_sh_get dir n t k : rt (sh_get dir n t k) anyc.
Proof. unfold sh_get, try. destruct (shard_ids _ _ _). allc_auto. Qed.
Lemma rt_sh_touch dir n t k : rt (sh_touch dir n t k) anyc.
Proof. unfold sh_touch, try. destruct (shard_ids _ _ _). allc_auto. Qed.
#[local] Hint Resolve rt_sh_get rt_sh_touch : allc.
Lemma rt_f_get f k : rt (f_get f k) anyc.
Proof. unfold f_get. destruct f; allc_auto. Qed.
Lemma rt_f_touch f k : rt (f_touch f k) anyc.
Proof. unfold f_touch. destruct f; allc_auto. Qed.
#[local] Hint Resolve rt_f_get rt_f_touch : allc.

Definition chk_rt (ck : checker) := forall a b, rt (ck a b) anyc.
Definition chko_rt (chk : option checker) := match chk with Some ck => chk_rt ck | None => True end.
Lemma rt_ro_get_loop stack : forall chk k ret, chko_rt chk -> rt (ro_get_loop stack chk k ret) anyc.
Proof.
  induction stack as [|c rest IH]; intros chk k ret Hck; cbn [ro_get_loop]; unfold try_c, skip.
  - allc_auto.
  - pose proof (fun r => IH chk k r Hck). destruct chk as [ck|]; [unfold chko_rt, chk_rt in Hck|]; destruct ret; allc_auto.
Qed.
Lemma rt_ro_get stack chk k : chko_rt chk -> rt (ro_get stack chk k) anyc.
Proof. intros H. unfold ro_get. destruct stack; [allc_auto|apply rt_ro_get_loop, H]. Qed.
Lemma rt_ro_touch stack k : rt (ro_touch stack k) anyc.
Proof. induction stack as [|c rest IH]; cbn [ro_touch]; unfold try; allc_auto. Qed.
#[local] Hint Resolve rt_ro_touch : allc.
Lemma rt_with_checked cfg k f : chko_rt (s_checker cfg) -> rt (with_checked cfg k f (Ret (Ok f))) anyc.
Proof.
  intros Hc. unfold with_checked, try_c.
  pose proof (rt_ro_get (s_readers cfg) (s_checker cfg) k Hc).
  destruct (s_checker cfg) as [ck|]; [unfold chko_rt, chk_rt in Hc|]; allc_auto.
Qed.
Theorem rt_cache_get cfg k : chko_rt (s_checker cfg) -> rt (cache_get cfg k) anyc.
Proof.
  intros Hc. unfold cache_get, try.
  pose proof (fun f => rt_with_checked cfg k f Hc).
  pose proof (rt_ro_get (s_readers cfg) (s_checker cfg) k Hc).
  destruct (s_writer cfg); allc_auto.
Qed.
Theorem rt_cache_touch cfg k : rt (cache_touch cfg k) anyc.
Proof. unfold cache_touch, try. destruct (s_writer cfg); allc_auto. Qed.

(** ** In any pool of readers, under any schedule, modification times are fixed *)
Theorem reads_never_reorder {A} (ps : list (prog A * oracle)) f sched i m :
  Forall (fun po => rt (fst po) (fun _ => True)) ps ->
  mtime f i = Some m ->
  mtime (snd (run_sched sched (Immut.spawn_all ps ([], f)))) i = Some m.
Proof.
  intros Hps Hm.
  set (P := fun g : fs => mtime g i = Some m).
  assert (Pc : forall c g e, ro_time c = true -> P g -> P (fst (sem g e c))) by (intros; apply sem_keeps_mtime; assumption).
  assert (Pt : forall g t, P g -> P (tick g t)) by (intros g t H; unfold P; rewrite mt_tick; exact H).
  assert (Hsp : forall (l : list (prog A * oracle)) (pool : list (thread A)) g, Forall (fun po => rt (fst po) (fun _ => True)) l -> Forall (in_class ro_time) pool -> P g ->
                 Forall (in_class ro_time) (fst (Immut.spawn_all l (pool, g))) /\ P (snd (Immut.spawn_all l (pool, g)))).
  { induction l as [|[p o] rest IH]; intros pool g Hl Hpool Hg; cbn [Immut.spawn_all]; [auto|].
    inversion Hl as [|x y Hp Hrest]; subst. cbn [fst snd] in *.
    destruct (th_start_P ro_time P Pc Pt p o g Hp Hg) as (Hin & Hg').
    destruct (th_start p o g) as [t g']. cbn [fst snd] in *.
    apply IH; auto. apply Forall_app. split; [exact Hpool|constructor; [exact Hin|constructor]]. }
  destruct (Hsp ps [] f Hps (Forall_nil _) Hm) as (Hall & HP).
  destruct (Immut.spawn_all ps ([], f)) as [pool g]. cbn [fst snd] in *.
  apply (class_invariant_pool ro_time P Pc Pt sched pool g Hall HP).
Qed.
