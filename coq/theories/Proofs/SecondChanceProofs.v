(** Proofs about the eviction planner model (C08, used by C07). *)
From Coq Require Import List Arith ZArith Bool Lia Permutation Sorted.
From Kismet Require Import Pure.SecondChance.
Import ListNotations.

(** * Stable sort facts *)

Definition rank_le (a b : entry) : Prop := (rank a <= rank b)%Z.

Lemma insert_perm x l : Permutation (insert x l) (x :: l).
Proof.
  induction l as [|y l IH]; cbn [insert]; [reflexivity|].
  destruct (rank x <=? rank y)%Z; [reflexivity|].
  rewrite IH. apply perm_swap.
Qed.

Lemma ssort_perm l : Permutation (ssort l) l.
Proof.
  induction l as [|x l IH]; cbn [ssort fold_right]; [reflexivity|].
  fold (ssort l). rewrite insert_perm. now constructor.
Qed.

Lemma ssort_length l : length (ssort l) = length l.
Proof. apply Permutation_length, ssort_perm. Qed.

Lemma insert_sorted x l : StronglySorted rank_le l -> StronglySorted rank_le (insert x l).
Proof.
  induction l as [|y l IH]; intros Hs; cbn [insert].
  - repeat constructor.
  - destruct (Z.leb_spec (rank x) (rank y)) as [Hle|Hgt].
    + constructor; [exact Hs|]. constructor; [exact Hle|].
      inversion Hs as [|? ? _ Hall]; subst.
      eapply Forall_impl; [|exact Hall]. unfold rank_le; intros; lia.
    + inversion Hs as [|? ? Hs' Hall]; subst.
      constructor; [apply IH; exact Hs'|].
      eapply Permutation_Forall; [symmetry; apply insert_perm|].
      constructor; [unfold rank_le; lia|exact Hall].
Qed.

Lemma ssort_sorted l : StronglySorted rank_le (ssort l).
Proof.
  induction l as [|x l IH]; cbn [ssort fold_right]; [constructor|].
  apply insert_sorted, IH.
Qed.

(** Stability: among entries of equal rank, input order is kept.  Stated as:
    the sub-list of entries of any given rank is the same before and after. *)
Definition of_rank (r : Z) (l : list entry) := filter (fun e => (rank e =? r)%Z) l.

Lemma insert_of_rank x l r :
  StronglySorted rank_le l ->
  of_rank r (insert x l) = of_rank r (x :: l).
Proof.
  induction l as [|y l IH]; intros Hs; [reflexivity|].
  cbn [insert]. destruct (Z.leb_spec (rank x) (rank y)) as [Hle|Hgt]; [reflexivity|].
  inversion Hs as [|? ? Hs' Hall]; subst.
  unfold of_rank in *. cbn [filter] in *. rewrite (IH Hs'). cbn [filter].
  destruct (Z.eqb_spec (rank x) r), (Z.eqb_spec (rank y) r); try reflexivity. lia.
Qed.

Lemma ssort_stable l r : of_rank r (ssort l) = of_rank r l.
Proof.
  induction l as [|x l IH]; [reflexivity|].
  cbn [ssort fold_right]. fold (ssort l).
  rewrite insert_of_rank by apply ssort_sorted.
  unfold of_rank in *. cbn [filter]. now rewrite IH.
Qed.

(** * The scan *)

Definition unacc (e : entry) := negb (acc e).

Lemma filter_cons_acc e l : acc e = true ->
  filter unacc (e :: l) = filter unacc l /\ filter acc (e :: l) = e :: filter acc l.
Proof. intros H. cbn [filter]. unfold unacc at 1. rewrite H. auto. Qed.
Lemma filter_cons_unacc e l : acc e = false ->
  filter unacc (e :: l) = e :: filter unacc l /\ filter acc (e :: l) = filter acc l.
Proof. intros H. cbn [filter]. unfold unacc at 1. rewrite H. auto. Qed.

Lemma scan_spec k l :
  forall ev mb r, scan k l = (ev, mb, r) ->
  exists scanned, l = scanned ++ r /\ ev = filter unacc scanned /\ mb = filter acc scanned
    /\ length ev <= k /\ (r <> [] -> length ev = k).
Proof.
  revert k. induction l as [|e l IH]; intros k ev mb r H.
  - cbn in H. inversion H; subst. exists []. cbn. repeat split; try lia; congruence.
  - cbn [scan] in H. destruct k as [|k'].
    + inversion H; subst. exists []. cbn. repeat split; lia.
    + destruct (acc e) eqn:Ha.
      * destruct (scan (S k') l) as [[ev' mb'] r'] eqn:Hs. inversion H; subst.
        destruct (IH _ _ _ _ Hs) as (sc & -> & -> & -> & Hle & Hr).
        exists (e :: sc). destruct (filter_cons_acc e sc Ha) as [-> ->].
        repeat split; auto.
      * destruct (scan k' l) as [[ev' mb'] r'] eqn:Hs. inversion H; subst.
        destruct (IH _ _ _ _ Hs) as (sc & -> & -> & -> & Hle & Hr).
        exists (e :: sc). destruct (filter_cons_unacc e sc Ha) as [-> ->]. cbn [length].
        repeat split; auto; try lia.
        all: try (intros Hne; specialize (Hr Hne); lia).
Qed.

Lemma filter_partition_length (l : list entry) :
  length (filter unacc l) + length (filter acc l) = length l.
Proof.
  induction l as [|e l IH]; [reflexivity|]. unfold unacc in *. cbn [filter].
  destruct (acc e); cbn [negb length]; lia.
Qed.

(** * The planner never hits its assertion and evicts exactly n - cap. *)

Lemma plan_sorted_some l cap :
  exists ev mb, plan_sorted l cap = Some (ev, mb).
Proof.
  unfold plan_sorted. destruct (N.leb_spec (N.of_nat (length l)) cap) as [Hle0|Hgt]; [eauto|].
  destruct (scan _ l) as [[ev mb] r] eqn:Hs.
  destruct (scan_spec _ _ _ _ _ Hs) as (sc & Hl & Hev & Hmb & Hle & Hr).
  set (must := N.to_nat (N.of_nat (length l) - cap)) in *.
  destruct (Nat.leb_spec (must - length ev) (length mb)) as [|Hbad]; [eauto|].
  exfalso.
  assert (r = []) as ->.
  { destruct r; [reflexivity|]. assert (length ev = must) by (apply Hr; congruence). lia. }
  rewrite app_nil_r in Hl. subst sc.
  pose proof (filter_partition_length l). rewrite <- Hev, <- Hmb in H.
  assert (must <= length l) by (unfold must; lia). lia.
Qed.

Theorem plan_never_asserts es cap : plan es cap <> None.
Proof.
  unfold plan. destruct (N.of_nat (length es) <=? cap)%N; [congruence|].
  destruct (plan_sorted_some (ssort es) cap) as (ev & mb & ->). congruence.
Qed.

Lemma plan_sorted_count l cap ev mb :
  plan_sorted l cap = Some (ev, mb) ->
  (cap < N.of_nat (length l))%N ->
  length ev = N.to_nat (N.of_nat (length l) - cap).
Proof.
  unfold plan_sorted. intros H Hgt.
  destruct (N.leb_spec (N.of_nat (length l)) cap); [lia|].
  destruct (scan _ l) as [[ev0 mb0] r] eqn:Hs.
  destruct (scan_spec _ _ _ _ _ Hs) as (sc & Hl & Hev & Hmb & Hle & Hr).
  set (must := N.to_nat (N.of_nat (length l) - cap)) in *.
  destruct (Nat.leb_spec (must - length ev0) (length mb0)) as [Hok|]; [|discriminate].
  inversion H; subst ev mb. rewrite app_length, firstn_length. lia.
Qed.

Theorem plan_count es cap ev mb :
  plan es cap = Some (ev, mb) ->
  if (N.of_nat (length es) <=? cap)%N then ev = [] /\ mb = []
  else length ev = N.to_nat (N.of_nat (length es) - cap).
Proof.
  unfold plan. destruct (N.leb_spec (N.of_nat (length es)) cap) as [Hle0|Hgt]; intros H.
  - now inversion H.
  - apply plan_sorted_count in H; rewrite ssort_length in *; auto.
Qed.

(** * Partition: nothing invented, dropped or duplicated *)

Lemma filter_perm_partition (l : list entry) :
  Permutation (filter unacc l ++ filter acc l) l.
Proof.
  induction l as [|e l IH]; [reflexivity|]. unfold unacc in *. cbn [filter].
  destruct (acc e); cbn [negb].
  - rewrite <- Permutation_middle. now constructor.
  - cbn [app]. now constructor.
Qed.

Theorem plan_partition es cap ev mb :
  plan es cap = Some (ev, mb) ->
  Permutation (ev ++ mb ++ plan_rest es cap) es.
Proof.
  unfold plan, plan_rest. destruct (N.leb_spec (N.of_nat (length es)) cap) as [Hle0|Hgt]; intros H.
  - inversion H; subst. cbn. apply ssort_perm.
  - unfold plan_sorted in H. rewrite ssort_length in H.
    destruct (N.leb_spec (N.of_nat (length es)) cap); [lia|].
    destruct (scan _ (ssort es)) as [[ev0 mb0] r] eqn:Hs.
    destruct (scan_spec _ _ _ _ _ Hs) as (sc & Hl & Hev & Hmb & _).
    destruct (_ <=? _); [|discriminate]. inversion H; subst ev mb.
    match goal with |- context [firstn ?k _] => set (kk := k) end.
    eapply Permutation_trans; [|apply ssort_perm]. rewrite Hl.
    replace ((ev0 ++ firstn kk mb0) ++ skipn kk mb0 ++ r) with ((ev0 ++ mb0) ++ r).
    2:{ rewrite <- (firstn_skipn kk mb0) at 1. now rewrite !app_assoc. }
    apply Permutation_app_tail. subst ev0 mb0. apply filter_perm_partition.
Qed.

Corollary plan_nodup es cap ev mb :
  NoDup (map eid es) -> plan es cap = Some (ev, mb) ->
  NoDup (map eid (ev ++ mb ++ plan_rest es cap)).
Proof.
  intros Hnd H. eapply Permutation_NoDup; [|exact Hnd].
  apply Permutation_map. symmetry. now apply plan_partition.
Qed.

(** * Equality with the classical clock queue *)

Lemma clock_done fuel q cap :
  (N.of_nat (length q) <= cap)%N -> clock fuel q cap = Some ([], q).
Proof.
  intros H. destruct fuel; cbn [clock]; destruct (N.leb_spec (N.of_nat (length q)) cap); auto; lia.
Qed.

(** Second pass: a queue of unaccessed entries loses its first [k]. *)
Lemma clock_unacc q : forall fuel cap k,
  forallb unacc q = true ->
  N.of_nat (length q) = (cap + N.of_nat k)%N -> k <= fuel ->
  clock fuel q cap = Some (firstn k q, skipn k q).
Proof.
  induction q as [|e q IH]; intros fuel cap k Hall Hlen Hf.
  - cbn [length] in Hlen. assert (k = 0) by lia. subst. rewrite clock_done by (cbn; lia). reflexivity.
  - destruct k as [|k'].
    + rewrite clock_done by lia. reflexivity.
    + destruct fuel as [|f]; [lia|]. cbn [clock].
      destruct (N.leb_spec (N.of_nat (length (e :: q))) cap) as [Hc|_]; [cbn [length] in *; lia|].
      cbn [forallb] in Hall. apply andb_prop in Hall as [He Hq]. unfold unacc in He.
      destruct (acc e); [discriminate|].
      rewrite (IH f cap k' Hq) by (cbn [length] in *; lia). reflexivity.
Qed.

(** First pass: running the queue over [l ++ tail] where [l] is still to be
    scanned and [tail] holds the already requeued (cleared) entries. *)
Lemma clock_first_pass l : forall tail fuel cap k ev mb r,
  scan k l = (ev, mb, r) ->
  N.of_nat (length (l ++ tail)) = (cap + N.of_nat k)%N ->
  forallb unacc tail = true ->
  length l + k <= fuel ->
  clock fuel (l ++ tail) cap =
    if length ev =? k then Some (ev, r ++ tail ++ map clear mb)
    else let k2 := k - length ev in
         let q := tail ++ map clear mb in
         Some (ev ++ firstn k2 q, skipn k2 q).
Proof.
  induction l as [|e l IH]; intros tail fuel cap k ev mb r Hs Hlen Hall Hf.
  - cbn in Hs. inversion Hs; subst. cbn [app length map]. rewrite app_nil_r.
    destruct k as [|k'].
    + cbn. rewrite clock_done by (cbn [app] in *; lia). reflexivity.
    + cbn [Nat.eqb length]. rewrite Nat.sub_0_r. cbn [app] in *.
      apply clock_unacc; auto; cbn [length] in *; lia.
  - cbn [scan] in Hs. destruct k as [|k'].
    + inversion Hs; subst. cbn [length Nat.eqb map]. rewrite app_nil_r.
      rewrite clock_done by lia. reflexivity.
    + destruct fuel as [|f]; [cbn [length] in Hf; lia|].
      cbn [clock app].
      destruct (N.leb_spec (N.of_nat (length (e :: l ++ tail))) cap) as [Hc|_];
        [cbn [app length] in *; lia|].
      destruct (acc e) eqn:Ha.
      * destruct (scan (S k') l) as [[ev' mb'] r'] eqn:Hs'. inversion Hs; subst.
        rewrite <- app_assoc.
        rewrite (IH (tail ++ [clear e]) f cap (S k') ev mb' r Hs').
        -- cbn [map]. rewrite <- !app_assoc. cbn [app]. reflexivity.
        -- rewrite !app_length in *. cbn [length] in *. lia.
        -- rewrite forallb_app, Hall. reflexivity.
        -- cbn [length] in Hf. lia.
      * destruct (scan k' l) as [[ev' mb'] r'] eqn:Hs'. inversion Hs; subst.
        rewrite (IH tail f cap k' ev' mb r Hs').
        -- cbn [length Nat.eqb Nat.sub]. destruct (length ev' =? k'); reflexivity.
        -- cbn [app length] in *. lia.
        -- exact Hall.
        -- cbn [length] in Hf. lia.
Qed.

Lemma firstn_map_clear k (l : list entry) : firstn k (map clear l) = map clear (firstn k l).
Proof. apply firstn_map. Qed.
Lemma skipn_map_clear k (l : list entry) : skipn k (map clear l) = map clear (skipn k l).
Proof. apply skipn_map. Qed.

Lemma map_eid_clear l : map eid (map clear l) = map eid l.
Proof. rewrite map_map. apply map_ext. reflexivity. Qed.

(** Main refinement theorem: on any queue order [l], the plan computed after
    sorting equals the classical algorithm run on [l]: same victims in the same
    order (up to the cleared flag of second-pass victims), and the final queue
    is the untouched suffix followed by the reprieved entries, cleared, in
    order. *)
Theorem plan_sorted_is_clock l cap ev mb :
  (cap < N.of_nat (length l))%N ->
  plan_sorted l cap = Some (ev, mb) ->
  exists evc r,
    clock (2 * length l) l cap = Some (evc, r ++ map clear mb) /\
    map clear evc = map clear ev /\
    (exists sc, l = sc ++ r /\ Permutation sc (ev ++ mb)).
Proof.
  intros Hgt H. unfold plan_sorted in H.
  destruct (N.leb_spec (N.of_nat (length l)) cap); [lia|].
  set (must := N.to_nat (N.of_nat (length l) - cap)) in *.
  destruct (scan must l) as [[ev0 mb0] r] eqn:Hs.
  destruct (scan_spec _ _ _ _ _ Hs) as (sc & Hl & Hev & Hmb & Hle & Hr).
  destruct (Nat.leb_spec (must - length ev0) (length mb0)) as [Hok|]; [|discriminate].
  inversion H; subst ev mb. clear H.
  pose proof (clock_first_pass l [] (2 * length l) cap must ev0 mb0 r Hs) as Hc.
  rewrite app_nil_r in Hc. cbn [app] in Hc.
  rewrite Hc; [|unfold must; lia|reflexivity|unfold must; lia].
  destruct (Nat.eqb_spec (length ev0) must) as [Heq|Hne].
  - rewrite Heq, Nat.sub_diag. cbn [firstn skipn]. rewrite app_nil_r.
    exists ev0, r. repeat split; auto.
    exists sc. split; auto. subst. symmetry. apply filter_perm_partition.
  - assert (r = []) as -> by (destruct r; [reflexivity|exfalso; apply Hne, Hr; congruence]).
    cbn zeta. rewrite firstn_map_clear, skipn_map_clear.
    eexists _, []. cbn [app]. split; [reflexivity|]. split.
    + rewrite !map_app, map_map. f_equal.
    + exists sc. split; auto. subst.
      rewrite <- app_assoc, firstn_skipn. symmetry. apply filter_perm_partition.
Qed.

Theorem plan_is_clock es cap ev mb :
  (cap < N.of_nat (length es))%N ->
  plan es cap = Some (ev, mb) ->
  exists l evc r,
    Permutation l es /\ StronglySorted rank_le l /\
    (forall rk, of_rank rk l = of_rank rk es) /\
    clock (2 * length l) l cap = Some (evc, r ++ map clear mb) /\
    map clear evc = map clear ev /\
    (exists sc, l = sc ++ r /\ Permutation sc (ev ++ mb)).
Proof.
  intros Hgt H. unfold plan in H.
  destruct (N.leb_spec (N.of_nat (length es)) cap); [lia|].
  destruct (plan_sorted_is_clock (ssort es) cap ev mb) as (evc & r & Hc & He & Hsc);
    [rewrite ssort_length; lia|exact H|].
  exists (ssort es), evc, r. repeat split; auto using ssort_perm, ssort_sorted, ssort_stable.
Qed.

(** Within capacity: nothing to do, and the classical algorithm agrees. *)
Theorem plan_within_capacity es cap :
  (N.of_nat (length es) <= cap)%N ->
  plan es cap = Some ([], []) /\ forall fuel l, Permutation l es -> clock fuel l cap = Some ([], l).
Proof.
  intros H. split.
  - unfold plan. destruct (N.leb_spec (N.of_nat (length es)) cap); [reflexivity|lia].
  - intros fuel l Hp. apply clock_done. rewrite (Permutation_length Hp). exact H.
Qed.

(** * Soundness of the verdict procedure *)

Lemma entry_eqb_eq a b : entry_eqb a b = true -> a = b.
Proof.
  unfold entry_eqb. destruct a, b; cbn. intros H.
  apply andb_prop in H as [H H3]. apply andb_prop in H as [H1 H2].
  apply Nat.eqb_eq in H1. apply Z.eqb_eq in H2. apply Bool.eqb_prop in H3. congruence.
Qed.

Lemma list_eqb_eq a : forall b, list_eqb a b = true -> a = b.
Proof.
  induction a as [|x a IH]; destruct b as [|y b]; cbn; try congruence.
  intros H. apply andb_prop in H as [H1 H2]. apply entry_eqb_eq in H1. f_equal; auto.
Qed.

Lemma remove_one_perm x l l' : remove_one x l = Some l' -> Permutation l (x :: l').
Proof.
  revert l'. induction l as [|y l IH]; cbn; [discriminate|]. intros l'.
  destruct (entry_eqb x y) eqn:He.
  - intros H. inversion H; subst. apply entry_eqb_eq in He. subst. reflexivity.
  - destruct (remove_one x l); [|discriminate]. intros H. inversion H; subst.
    rewrite (IH _ eq_refl). apply perm_swap.
Qed.

Lemma remove_all_perm xs : forall l r, remove_all xs l = Some r -> Permutation l (xs ++ r).
Proof.
  induction xs as [|x xs IH]; cbn; intros l r H.
  - inversion H. reflexivity.
  - destruct (remove_one x l) as [l'|] eqn:Hr; [|discriminate].
    apply remove_one_perm in Hr. rewrite Hr. constructor. now apply IH.
Qed.

Lemma sorted_ranks_sound l : sorted_ranks l = true -> Sorted rank_le l.
Proof.
  induction l as [|x l IH]; [constructor|].
  cbn [sorted_ranks]. destruct l as [|y l'].
  - intros _. repeat constructor.
  - intros H. apply andb_prop in H as [H1 H2]. constructor; [apply IH, H2|].
    constructor. unfold rank_le. now apply Z.leb_le.
Qed.

Theorem valid_plan_sound es cap ev mb :
  valid_plan es cap ev mb = true ->
  exists l evc q rest,
    Permutation l es /\ Sorted rank_le l /\
    clock (2 * length l) l cap = Some (evc, q) /\
    map clear evc = map clear ev /\
    q = rest ++ map clear mb /\
    Permutation es (ev ++ mb ++ rest).
Proof.
  unfold valid_plan, witness_order.
  destruct (remove_all (ev ++ mb) es) as [rest|] eqn:Hrest; [|discriminate].
  set (l := merge_ranks _ _ ++ ssort rest).
  intros H. apply andb_prop in H as [H Hclock].
  apply andb_prop in H as [H Hlen]. apply andb_prop in H as [Hsorted Hperm].
  destruct (remove_all l es) as [[|]|] eqn:Hl; try discriminate.
  apply remove_all_perm in Hl. rewrite app_nil_r in Hl.
  destruct (clock (2 * length l) l cap) as [[evc q]|] eqn:Hck; [|discriminate].
  apply andb_prop in Hclock as [He Hq]. apply list_eqb_eq in He, Hq.
  exists l, evc, q, (ssort rest).
  split; [symmetry; exact Hl|].
  split; [now apply sorted_ranks_sound|].
  split; [exact Hck|].
  split; [exact He|].
  split; [exact Hq|].
  apply remove_all_perm in Hrest. rewrite Hrest, <- app_assoc.
  apply Permutation_app_head, Permutation_app_head. symmetry. apply ssort_perm.
Qed.
