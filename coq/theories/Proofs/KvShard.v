(** Sharded caches, sequentially, in the kernel model: lookups probe the
    primary then the secondary shard path and return a descriptor on what is
    bound there; a successful [set] leaves every bound one of the key's two shard
    paths bound to the source's inode and never creates a second copy; hence a
    lookup after a successful set never returns an older value. *)
From Coq Require Import List NArith ZArith String Ascii Bool Arith Lia.
From Kismet Require Import Pure.Hash Pure.Trigger FS.Fs FS.Prog Spec.Wp Spec.ClassMon Spec.Calm Ops.Ops
  Conc.Effect Proofs.HashProofs Proofs.PutNeverOverwrites Proofs.NeverMasked
  Seq.Plain Seq.Steps Seq.Bind Seq.Sane Proofs.KvSeq.
Import ListNotations.

(** stat in the kernel model *)
Lemma stat_bound f e p fl : plainp p = true -> p <> [] -> forall st, snd (sem f e (CStat p fl)) = RStat st -> name_of f p <> None.
Proof.
  intros Hp Hne st. cbn [sem]. destruct (resolve f p) as [cp|er] eqn:Hr; [|discriminate].
  apply (resolve_plain f p cp Hp) in Hr. subst cp. destruct p as [|x p]; [congruence|].
  destruct (name_of f (x :: p)); [discriminate|discriminate].
Qed.

Lemma stat_answers f e p fl i : resolve f p = inl p -> p <> [] -> name_of f p = Some i -> inode_of f i <> None ->
  exists st, snd (sem f e (CStat p fl)) = RStat st.
Proof.
  intros Hr Hne Hi Hino. cbn [sem]. rewrite Hr. destruct p as [|x p]; [congruence|]. rewrite Hi. unfold with_inode.
  destruct (inode_of f i) as [y|]; [|congruence]. eexists. reflexivity.
Qed.

Lemma stat_keeps f e p fl : fst (sem f e (CStat p fl)) = f.
Proof. cbn [sem]. unfold with_inode. destruct (resolve f p) as [[|x cp]|]; try reflexivity. destruct (name_of f (x :: cp)) as [i|]; [|reflexivity]. destruct (inode_of f i); reflexivity. Qed.

Inductive gst := G0 | G1 (r1 : res) | G2 (r1 r2 : res).
Inductive ost := OU | OT (sid : N).
Inductive spst := PU | PC (sid : N) (st : option pst).

Section Shard.
  Variable dir : path.
  Variable nsh total : N.
  Variable k : key.
  Notation name := (k_name k).
  Notation dcd := (shard_cdir dir nsh total).
  Notation dstp sid := (cd_base (dcd sid) ++ [name]).
  Hypothesis Hdir : plainp dir = true.
  Hypothesis Hname : valid_name name = true.
  Variable ida idb : N.
  Hypothesis Hab : format_id ida <> format_id idb.
  Hypothesis Hids : shard_ids (k_hash k) (k_sec k) nsh = (ida, idb).

  Lemma dstp_plain sid : plainp (dstp sid) = true.
  Proof. apply (dst_plain (dcd sid) name); [apply (dcd_plain dir nsh total Hdir)|exact Hname]. Qed.
  Lemma dstp_nonnil sid : dstp sid <> []. Proof. destruct (cd_base (dcd sid)); discriminate. Qed.
  Lemma dstp_neq : dstp ida <> dstp idb. Proof. apply (dstp_ne dir nsh total k ida idb Hab). Qed.

  (** ** lookups *)
  Definition is_rfd (r : res) : bool := match r with RFd _ => true | _ => false end.

  Definition sg_step (s : gst) (ev : event) : option gst :=
    match s with
    | G0 => match ev with
            | EvCall (COpen p RDONLY) r => if path_eqb p (dstp ida) then Some (G1 r) else None
            | _ => None
            end
    | G1 r1 => match ev with
               | EvCall c r =>
                   if fd_only c then Some s
                   else match c with
                        | COpen p RDONLY => if (negb (is_rfd r1) && path_eqb p (dstp idb))%bool then Some (G2 r1 r) else None
                        | _ => None
                        end
               | _ => Some s
               end
    | G2 _ _ => match ev with EvCall c _ => if fd_only c then Some s else None | _ => Some s end
    end.

  Lemma sg_touched fd s : s <> G0 -> wpv sg_step (ensure_file_touched fd) (fun _ s' => s' = s) s.
  Proof.
    intros Hs. eapply wpv_mono; [|apply (gclass sg_step (fun s' => s' = s) fd_only) with (Q := anyc)]; [intros a s' (_ & ->); reflexivity| | | |reflexivity].
    - intros s0 c r -> Hc. destruct s; [congruence|..]; cbn [sg_step]; rewrite Hc; eauto.
    - intros s0 ev ->. destruct s; [congruence|..]; destruct ev; cbn; eauto.
    - unfold ensure_file_touched, try, stat_call, unit_call. allc_auto; apply allc_call; reflexivity.
  Qed.

  Theorem sg_sh_get :
    wpv sg_step (sh_get dir nsh total k)
        (fun r s' => match r with
                     | Ok (Some fd) => s' = G1 (RFd fd) \/ exists r1, s' = G2 r1 (RFd fd)
                     | _ => s' <> G0
                     end) G0.
  Proof.
    unfold sh_get. rewrite Hids. apply wpv_try. unfold cd_get at 1. rewrite (validate_ok name Hname). cbn [bind call1]. apply wpv_call. intros r _.
    cbn [sg_step]. rewrite path_eqb_refl.
    assert (Hsecond : forall r1, is_rfd r1 = false ->
              wpv sg_step (cd_get (dcd idb) name)
                (fun r0 s' => match r0 with Ok (Some fd) => s' = G1 (RFd fd) \/ exists r1, s' = G2 r1 (RFd fd) | _ => s' <> G0 end) (G1 r1)).
    { intros r1 Hr1. unfold cd_get. rewrite (validate_ok name Hname). cbn [bind call1]. apply wpv_call. intros r2 _.
      cbn [sg_step fd_only]. rewrite Hr1, path_eqb_refl. cbn [negb andb].
      destruct r2 as [|fd2| | | |e2]; try (apply wpv_ret; discriminate).
      - apply wpv_bind. eapply wpv_mono; [|apply (sg_touched fd2 (G2 r1 (RFd fd2)))]; [|discriminate]. intros a s' ->. apply wpv_ret. right. eexists. reflexivity.
      - apply wpv_ret. destruct (is_absent (OsErr e2)); discriminate. }
    destruct r as [|fd| | | |e]; try (apply wpv_ret; discriminate).
    - apply wpv_bind. eapply wpv_mono; [|apply (sg_touched fd (G1 (RFd fd)))]; [|discriminate]. intros a s' ->. apply wpv_ret. apply wpv_ret. left. reflexivity.
    - destruct (is_absent (OsErr e)); [|apply wpv_ret; discriminate]. apply wpv_ret. apply Hsecond. reflexivity.
  Qed.

  Variable f0 : fs.
  Definition sg_inv (s : gst) (f : fs) : Prop :=
    match s with
    | G0 => f = f0
    | G1 r1 => (forall x, name_of f x = name_of f0 x) /\
               match r1 with RFd fd => fdino f fd = name_of f0 (dstp ida) /\ name_of f0 (dstp ida) <> None | _ => True end
    | G2 _ r2 => (forall x, name_of f x = name_of f0 x) /\
                 match r2 with RFd fd => fdino f fd = name_of f0 (dstp idb) /\ name_of f0 (dstp idb) <> None | _ => True end
    end.

  Lemma fd_only_keeps f c r f' fd : fd_only c = true -> step1 f (EvCall c r) f' ->
    (forall x, name_of f' x = name_of f x) /\ fdino f' fd = fdino f fd.
  Proof.
    intros Hc H1. split.
    - intros x. apply (step1_spares _ _ _ x H1). destruct c; try discriminate; reflexivity.
    - cbn [step1] in H1. destruct H1 as [(e & -> & _)|(er & _ & [->|(Hcl & _)])]; [|reflexivity|destruct c; discriminate].
      pose proof (fd_calls_keep_fds f e c fd) as Hk. destruct c; try discriminate; exact Hk.
  Qed.

  Lemma sg_inv_step s ev s' f f' : sg_step s ev = Some s' -> step1 f ev f' -> names_plain f -> sg_inv s f -> sg_inv s' f'.
  Proof.
    intros Hm H1 _ HI. destruct s as [|r1|r1 r2].
    - cbn [sg_inv] in HI. subst f. destruct ev as [c r| | | | | ]; cbn [sg_step] in Hm; try discriminate.
      destruct c; try discriminate. destruct a; try discriminate. destruct (path_eqb p (dstp ida)) eqn:Hp; [|discriminate]. apply path_eqb_eq in Hp. subst p.
      injection Hm as <-. cbn [sg_inv]. split; [intros y; apply (step1_spares _ _ _ y H1); reflexivity|].
      destruct r as [|fd| | | |]; auto.
      apply step1_ok in H1; [|discriminate]. destruct H1 as (e & -> & Hr). symmetry in Hr. apply (open_effect f0 e _ RDONLY fd (dstp_plain ida) Hr).
    - destruct ev as [c r|t|wt b|n x|fr|tg pl]; cbn [sg_step] in Hm.
      2-6: injection Hm as <-; cbn [sg_inv] in *; destruct HI as (Hn & Hr); split; [intros y; rewrite (step1_spares _ _ _ y H1 I); apply Hn|];
           destruct r1; auto; cbn [step1] in H1; subst f'; exact Hr.
      destruct (fd_only c) eqn:Hc.
      + injection Hm as <-. cbn [sg_inv] in *. destruct HI as (Hn & Hr).
        split; [intros y; rewrite (proj1 (fd_only_keeps f c r f' 0 Hc H1) y); apply Hn|].
        destruct r1 as [|fd| | | |]; auto. rewrite (proj2 (fd_only_keeps f c r f' fd Hc H1)). exact Hr.
      + destruct c; try discriminate. destruct a; try discriminate.
        destruct (negb (is_rfd r1) && path_eqb p (dstp idb))%bool eqn:Hp; [|discriminate]. apply andb_true_iff in Hp. destruct Hp as (_ & Hp).
        apply path_eqb_eq in Hp. subst p. injection Hm as <-. cbn [sg_inv] in *. destruct HI as (Hn & _).
        split; [intros y; rewrite (step1_spares _ _ _ y H1 eq_refl); apply Hn|].
        destruct r as [|fd| | | |]; auto.
        apply step1_ok in H1; [|discriminate]. destruct H1 as (e & -> & Hr). symmetry in Hr.
        destruct (open_effect f e _ RDONLY fd (dstp_plain idb) Hr) as (H2 & H3). rewrite Hn in H2, H3. split; assumption.
    - destruct ev as [c r|t|wt b|n x|fr|tg pl]; cbn [sg_step] in Hm.
      2-6: injection Hm as <-; cbn [sg_inv] in *; destruct HI as (Hn & Hr); split; [intros y; rewrite (step1_spares _ _ _ y H1 I); apply Hn|];
           destruct r2; auto; cbn [step1] in H1; subst f'; exact Hr.
      destruct (fd_only c) eqn:Hc; [|discriminate]. injection Hm as <-. cbn [sg_inv] in *. destruct HI as (Hn & Hr).
      split; [intros y; rewrite (proj1 (fd_only_keeps f c r f' 0 Hc H1) y); apply Hn|].
      destruct r2 as [|fd| | | |]; auto. rewrite (proj2 (fd_only_keeps f c r f' fd Hc H1)). exact Hr.
  Qed.

  (** A sharded lookup changes no binding; a hit is a descriptor on what the
      primary shard path was bound to, else on what the secondary one was. *)
  Theorem sharded_get_reads w o : w_fs w = f0 -> names_plain f0 ->
    let '(r, w', _, _) := run (sh_get dir nsh total k) w o in
    (forall x, name_of (w_fs w') x = name_of f0 x) /\
    (forall fd, r = Ok (Some fd) ->
       (fdino (w_fs w') fd = name_of f0 (dstp ida) \/ fdino (w_fs w') fd = name_of f0 (dstp idb)) /\ fdino (w_fs w') fd <> None).
  Proof.
    intros Hw Hpl.
    pose proof (sane_run sg_step (sh_get dir nsh total k) _ G0 sg_inv sg_sh_get sg_inv_step w o ltac:(rewrite Hw; exact Hpl) Hw) as H.
    destruct (run (sh_get dir nsh total k) w o) as [[[r w'] o'] tr]. destruct H as (s' & HQ & HI & _).
    split.
    - destruct s' as [|r1|r1 r2]; cbn [sg_inv] in HI; [|exact (proj1 HI)..].
      destruct r as [[fd|]|e|]; try congruence; destruct HQ as [HQ|(r1 & HQ)]; discriminate.
    - intros fd ->. destruct HQ as [-> |(r1 & ->)]; cbn [sg_inv] in HI; destruct HI as (_ & (H1 & H2)); (split; [|rewrite H1; exact H2]); [left|right]; exact H1.
  Qed.

  (** The same for any program the lookup monitor accepts (the stack-level lookup
      wraps [sh_get] in result plumbing). *)
  Theorem sharded_get_reads_gen (p : prog (outcome (option nat))) w o :
    wpv sg_step p (fun r s' => match r with
                               | Ok (Some fd) => s' = G1 (RFd fd) \/ exists r1, s' = G2 r1 (RFd fd)
                               | _ => s' <> G0
                               end) G0 ->
    w_fs w = f0 -> names_plain f0 ->
    let '(r, w', _, _) := run p w o in
    (forall x, name_of (w_fs w') x = name_of f0 x) /\
    (forall fd, r = Ok (Some fd) ->
       (fdino (w_fs w') fd = name_of f0 (dstp ida) \/ fdino (w_fs w') fd = name_of f0 (dstp idb)) /\ fdino (w_fs w') fd <> None).
  Proof.
    intros Hp Hw Hpl.
    pose proof (sane_run sg_step p _ G0 sg_inv Hp sg_inv_step w o ltac:(rewrite Hw; exact Hpl) Hw) as H.
    destruct (run p w o) as [[[r w'] o'] tr]. destruct H as (s' & HQ & HI & _).
    split.
    - destruct s' as [|r1|r1 r2]; cbn [sg_inv] in HI; [|exact (proj1 HI)..].
      destruct r as [[fd|]|e|]; try congruence; destruct HQ as [HQ|(r1 & HQ)]; discriminate.
    - intros fd ->. destruct HQ as [-> |(r1 & ->)]; cbn [sg_inv] in HI; destruct HI as (_ & (H1 & H2)); (split; [|rewrite H1; exact H2]); [left|right]; exact H1.
  Qed.

  (** ** the copy a set does not write stays absent *)
  Variable v : path.
  Hypothesis Hv : plainp v = true.
  Hypothesis Hout : forall q, v <> dir ++ q.
  Hypothesis Hnanc : forall q, dir <> v ++ q.

  Definition other (sid : N) : N := if (sid =? ida)%N then idb else ida.
  Definition ocls (sid : N) (c : call) : bool := (spares (dstp (other sid)) c || unl (dstp (other sid)) c)%bool.

  Definition oc_step (s : ost) (ev : event) : option ost :=
    match s with
    | OU => match ev with
            | EvCall (CStat p true) r =>
                if path_eqb p (dstp ida) then Some (OT (if is_rstat r then ida else idb))
                else if path_eqb p (dstp idb) then Some (OT (if is_rstat r then idb else ida))
                else None
            | _ => None
            end
    | OT sid => match ev with EvCall c _ => if ocls sid c then Some s else None | _ => Some s end
    end.

  Lemma ocls_nr sid c : rebind_paths c = [] -> ocls sid c = true.
  Proof. intros H. unfold ocls, spares. rewrite H. reflexivity. Qed.
  Lemma oc_call sid s c r : s = OT sid -> ocls sid c = true -> exists s', oc_step s (EvCall c r) = Some s' /\ s' = OT sid.
  Proof. intros -> Hc. cbn [oc_step]. rewrite Hc. eauto. Qed.
  Lemma oc_sil sid s ev : s = OT sid -> match ev with EvCall _ _ => True | _ => exists s', oc_step s ev = Some s' /\ s' = OT sid end.
  Proof. intros ->. destruct ev; cbn; eauto. Qed.

  Lemma ocls_unlink sid p : plainp p = true -> ocls sid (CUnlink p) = true.
  Proof.
    intros Hp. unfold ocls, spares. cbn [rebind_paths forallb unl]. rewrite Hp. cbn [andb]. rewrite andb_true_r.
    destruct (path_eqb p (dstp (other sid))); reflexivity.
  Qed.

  (** everything a write on shard [sid] may do to names spares the other shard's path, or unlinks it *)
  Lemma wr_ok_ocls sid c : sid = ida \/ sid = idb -> wr_ok (dcd sid) name v c = true -> ocls sid c = true.
  Proof.
    intros Hsid H.
    assert (Hne : dstp sid <> dstp (other sid)).
    { unfold other. destruct Hsid as [-> | ->].
      - rewrite N.eqb_refl. exact dstp_neq.
      - destruct (N.eqb_spec idb ida) as [He|_]; [rewrite He in Hab; congruence|]. intros He. symmetry in He. exact (dstp_neq He). }
    assert (Hvx : v <> dstp (other sid)) by (apply (dcd_out dir nsh total v Hout)).
    destruct c; try (apply ocls_nr; reflexivity); cbn [wr_ok] in H; try discriminate H.
    - apply andb_true_iff in H. destruct H as (Ha & Hb). apply path_eqb_eq in Ha. apply path_eqb_eq in Hb. subst p q.
      unfold ocls, spares. cbn [rebind_paths forallb]. rewrite Hv, (dstp_plain sid). cbn [andb]. rewrite andb_true_r.
      destruct (path_eqb v (dstp (other sid))) eqn:H1; [apply path_eqb_eq in H1; contradiction|].
      destruct (path_eqb (dstp sid) (dstp (other sid))) eqn:H2; [apply path_eqb_eq in H2; contradiction|]. reflexivity.
    - apply andb_true_iff in H. destruct H as (_ & Hb). apply path_eqb_eq in Hb. subst q.
      unfold ocls, spares. cbn [rebind_paths forallb]. rewrite (dstp_plain sid). cbn [andb]. rewrite andb_true_r.
      destruct (path_eqb (dstp sid) (dstp (other sid))) eqn:H2; [apply path_eqb_eq in H2; contradiction|]. reflexivity.
    - apply ocls_unlink, H.
    - apply andb_true_iff in H. destruct H as (Hp & Hl). apply Nat.leb_le in Hl.
      unfold ocls, spares. cbn [rebind_paths forallb]. rewrite Hp. cbn [andb]. rewrite andb_true_r.
      destruct (path_eqb p (dstp (other sid))) eqn:H2; [|reflexivity]. apply path_eqb_eq in H2. subst p.
      rewrite !(dcd_base dir nsh total), !app_length in Hl. cbn in Hl. lia.
  Qed.

  Lemma oc_force_maintain h sid id : wpv oc_step (force_maintain_shard h dir nsh total id) (fun _ s' => s' = OT sid) (OT sid).
  Proof.
    unfold force_maintain_shard. apply wpv_try.
    eapply wpv_mono; [|apply (g_definitely_cleanup oc_step (fun s => s = OT sid) (ocls sid) (ocls_nr sid) (oc_call sid) (oc_sil sid) (dcd id) (cd_base (dcd id)) (OT sid))];
      [| | |reflexivity].
    - intros [est|e|] s1 ->; reflexivity.
    - intros n Hn. apply ocls_unlink. rewrite plainp_app, (dcd_plain dir nsh total Hdir id). cbn. now rewrite Hn.
    - intros n Hn. apply ocls_unlink. unfold cd_temp. rewrite !plainp_app, (dcd_plain dir nsh total Hdir id). cbn. now rewrite Hn.
  Qed.

  Theorem oc_sh_publish (which : bool) h :
    wpv oc_step (sh_publish (if which then cd_set else cd_put) h dir nsh total k v) (fun _ s' => exists sid, s' = OT sid) OU.
  Proof.
    assert (Heq : (if which then cd_set else cd_put) = cd_publish (if which then insert_or_update else insert_or_touch)) by (destruct which; reflexivity).
    rewrite Heq.
    unfold sh_publish, sort_by_load. rewrite Hids. unfold wpv. cbn [bind wp]. intros l1 l2. cbn [bind fst snd].
    assert (Hgo : forall h1 h2, (h1 = ida /\ h2 = idb) \/ (h1 = idb /\ h2 = ida) ->
              wpv oc_step (try (file_exists (dir ++ [format_id h2]) name) (fun ex =>
                             let sid := if ex then h2 else h1 in
                             try (cd_publish (if which then insert_or_update else insert_or_touch) (dcd sid) name v) (fun upd =>
                               update_estimate h h1 upd ;;;
                               match upd with
                               | Some _ => RandShard (eff_shards nsh) (fun r0 => force_maintain_shard h dir nsh total (other_shard_id (eff_shards nsh) sid r0))
                               | None => LoadGet h h1 (fun l => if (sharded_shard_capacity nsh total <? l / 2)%N then Mark 20 [] (force_maintain_shard h dir nsh total sid) else Ret (Ok tt))
                               end)))
                  (fun _ s' => exists sid, s' = OT sid) OU).
    { intros h1 h2 Hh. apply wpv_try. unfold file_exists. rewrite (validate_ok name Hname). cbn [bind call1]. apply wpv_call. intros r _.
      assert (Hst : oc_step OU (EvCall (CStat ((dir ++ [format_id h2]) ++ [name]) true) r) = Some (OT (if is_rstat r then h2 else h1))).
      { cbn [oc_step]. change ((dir ++ [format_id h2]) ++ [name]) with (dstp h2). destruct Hh as [(-> & ->)|(-> & ->)].
        - assert (He : path_eqb (dstp idb) (dstp ida) = false).
          { destruct (path_eqb (dstp idb) (dstp ida)) eqn:He; [|reflexivity]. apply path_eqb_eq in He. symmetry in He. exfalso. exact (dstp_neq He). }
          rewrite He, path_eqb_refl. reflexivity.
        - rewrite path_eqb_refl. reflexivity. }
      rewrite Hst.
      assert (Hsid : forall ex, is_rstat r = ex ->
                wpv oc_step (try (cd_publish (if which then insert_or_update else insert_or_touch) (dcd (if ex then h2 else h1)) name v) (fun upd =>
                               update_estimate h h1 upd ;;;
                               match upd with
                               | Some _ => RandShard (eff_shards nsh) (fun r0 => force_maintain_shard h dir nsh total (other_shard_id (eff_shards nsh) (if ex then h2 else h1) r0))
                               | None => LoadGet h h1 (fun l => if (sharded_shard_capacity nsh total <? l / 2)%N then Mark 20 [] (force_maintain_shard h dir nsh total (if ex then h2 else h1)) else Ret (Ok tt))
                               end))
                    (fun _ s' => exists sid, s' = OT sid) (OT (if is_rstat r then h2 else h1))).
      { intros ex <-. set (sid := if is_rstat r then h2 else h1).
        assert (Hsid : sid = ida \/ sid = idb) by (unfold sid; destruct (is_rstat r); destruct Hh as [(-> & ->)|(-> & ->)]; auto).
        apply wpv_try.
        assert (Hmir : forall (s0 : unit) ev (s0' : unit), o_step (dcd sid) name v s0 ev = Some s0' -> oc_step (OT sid) ev = Some (OT sid)).
        { intros [] ev [] Ho. destruct ev as [c r0| | | | | ]; cbn [o_step oc_step] in *; try reflexivity.
          destruct (wr_ok (dcd sid) name v c) eqn:Hc; [|discriminate]. rewrite (wr_ok_ocls sid c Hsid Hc). reflexivity. }
        pose proof (wpv_refine (o_step (dcd sid) name v) oc_step (fun _ => OT sid) Hmir _ _ tt
                      (o_cd_publish (dcd sid) name v (dcd_plain dir nsh total Hdir sid) Hname Hv which)) as Href.
        eapply wpv_mono; [|exact Href].
        intros [upd|e|] s1 (_ & -> & _); try (eexists; reflexivity).
        apply wpv_bind.
        eapply wpv_mono; [|apply (gclass oc_step (fun s => s = OT sid) (ocls sid) (oc_call sid) (oc_sil sid) (update_estimate h h1 upd) anyc)];
          [|unfold update_estimate; allc_auto|reflexivity].
        intros [] s2 (_ & ->). destruct upd as [x|].
        + unfold wpv. cbn [wp]. intros r0. apply (wpv_sil oc_step (fun s => s = OT sid) (oc_sil sid)); [reflexivity|exact I|]. intros s3 ->.
          eapply wpv_mono; [|apply oc_force_maintain]. intros a s4 ->. eexists. reflexivity.
        + unfold wpv. cbn [wp]. intros l. destruct (_ <? _)%N; [|eexists; reflexivity]. cbn [wp].
          apply (wpv_sil oc_step (fun s => s = OT sid) (oc_sil sid)); [reflexivity|exact I|]. intros s3 ->.
          eapply wpv_mono; [|apply oc_force_maintain]. intros a s4 ->. eexists. reflexivity. }
      destruct r as [| |st| | |er]; cbn [is_rstat]; try (apply wpv_ret; eexists; reflexivity).
      - apply (Hsid true eq_refl).
      - destruct (is_absent (OsErr er)); [apply (Hsid false eq_refl)|apply wpv_ret; eexists; reflexivity]. }
    destruct (_ <=? _)%N; apply Hgo; auto.
  Qed.

  Definition oc_sh_set h := oc_sh_publish true h.

  (** ** meaning: the other path is unbound from the probe on *)
  Hypothesis Hone : name_of f0 (dstp ida) = None \/ name_of f0 (dstp idb) = None.
  Hypothesis Hreach : forall sid i, sid = ida \/ sid = idb -> name_of f0 (dstp sid) = Some i -> resolve f0 (dstp sid) = inl (dstp sid) /\ inode_of f0 i <> None.

  Definition oc_inv (s : ost) (f : fs) : Prop :=
    match s with OU => f = f0 | OT sid => name_of f (dstp (other sid)) = None end.

  Lemma other_a : other ida = idb. Proof. unfold other. now rewrite N.eqb_refl. Qed.
  Lemma other_b : other idb = ida.
  Proof. unfold other. destruct (N.eqb_spec idb ida) as [He|_]; [rewrite He in Hab; congruence|reflexivity]. Qed.

  Lemma probe_absent e sid r : sid = ida \/ sid = idb -> r = snd (sem f0 e (CStat (dstp sid) true)) -> is_rstat r = false -> name_of f0 (dstp sid) = None.
  Proof.
    intros Hs Hr Hn. destruct (name_of f0 (dstp sid)) as [i|] eqn:Hi; [|reflexivity]. exfalso.
    destruct (Hreach sid i Hs Hi) as (Hres & Hino). destruct (stat_answers f0 e (dstp sid) true i Hres (dstp_nonnil sid) Hi Hino) as (st & Hst).
    rewrite Hst in Hr. subst r. discriminate.
  Qed.
  Lemma probe_present e sid r : r = snd (sem f0 e (CStat (dstp sid) true)) -> is_rstat r = true -> name_of f0 (dstp sid) <> None.
  Proof. intros Hr Hn. destruct r; try discriminate. symmetry in Hr. exact (stat_bound f0 e (dstp sid) true (dstp_plain sid) (dstp_nonnil sid) _ Hr). Qed.

  Lemma oc_inv_step s ev s' f f' : oc_step s ev = Some s' -> astep f ev f' -> names_plain f -> oc_inv s f -> oc_inv s' f'.
  Proof.
    intros Hm Ha _ HI. destruct s as [|sid].
    - cbn [oc_inv] in HI. subst f. destruct ev as [c r| | | | | ]; cbn [oc_step] in Hm; try discriminate.
      destruct c; try discriminate. destruct follow; try discriminate. destruct Ha as (e & -> & Hr). rewrite stat_keeps.
      destruct (path_eqb p (dstp ida)) eqn:Hpa.
      + apply path_eqb_eq in Hpa. subst p. injection Hm as <-. cbn [oc_inv]. destruct (is_rstat r) eqn:Hrs.
        * rewrite other_a. pose proof (probe_present e ida r Hr Hrs) as Hp. destruct Hone as [H|H]; [contradiction|exact H].
        * rewrite other_b. exact (probe_absent e ida r (or_introl eq_refl) Hr Hrs).
      + destruct (path_eqb p (dstp idb)) eqn:Hpb; [|discriminate]. apply path_eqb_eq in Hpb. subst p. injection Hm as <-. cbn [oc_inv].
        destruct (is_rstat r) eqn:Hrs.
        * rewrite other_b. pose proof (probe_present e idb r Hr Hrs) as Hp. destruct Hone as [H|H]; [exact H|contradiction].
        * rewrite other_a. exact (probe_absent e idb r (or_intror eq_refl) Hr Hrs).
    - cbn [oc_step oc_inv] in *. destruct ev as [c r|t|wt b|n x|fr|tg pl].
      2-6: injection Hm as <-; cbn [oc_inv]; rewrite (step1_spares _ _ _ _ (astep_step1 _ _ _ Ha) I); exact HI.
      destruct (ocls sid c) eqn:Hc; [|discriminate]. injection Hm as <-. cbn [oc_inv]. destruct Ha as (e & -> & Hr).
      unfold ocls in Hc. apply orb_true_iff in Hc. destruct Hc as [Hc|Hc]; [rewrite (sem_spares f e c _ Hc); exact HI|].
      destruct c; try discriminate. cbn [unl] in Hc. apply path_eqb_eq in Hc. subst p.
      pose proof (sem_res_unit f e (CUnlink (dstp (other sid)))) as Hx.
      change (snd (sem f e (CUnlink (dstp (other sid)))) = ROk \/ exists er, snd (sem f e (CUnlink (dstp (other sid)))) = RErr er) in Hx.
      destruct Hx as [Hx|(er & Hx)]; [apply unlink_effect; [apply dstp_plain|exact Hx]|rewrite (sem_err_names f e _ er _ Hx); exact HI].
  Qed.

  (** ** the two monitors agree on which path was chosen *)
  Notation SS := (ss_step dir nsh total k v ida idb).
  Definition linked (s1 : sst) (s2 : ost) : Prop :=
    match s1, s2 with Unprobed, OU => True | Chosen sid _, OT sid' => sid = sid' | _, _ => False end.

  Lemma link_step s1 s2 ev s1' s2' : linked s1 s2 -> SS s1 ev = Some s1' -> oc_step s2 ev = Some s2' -> linked s1' s2'.
  Proof.
    intros Hl H1 H2. destruct s1 as [|sid st], s2 as [|sid']; cbn [linked] in Hl; try contradiction.
    - destruct ev as [c r| | | | | ]; cbn [oc_step] in H2; try discriminate. destruct c; try discriminate. destruct follow; try discriminate.
      cbn [ss_step] in H1. destruct (path_eqb p (dstp ida)); [injection H1 as <-; injection H2 as <-; reflexivity|].
      destruct (path_eqb p (dstp idb)); [injection H1 as <-; injection H2 as <-; reflexivity|discriminate].
    - subst sid'. assert (Hs2 : s2' = OT sid) by (cbn [oc_step] in H2; destruct ev; [destruct (ocls sid c); [|discriminate]|..]; injection H2 as <-; reflexivity).
      subst s2'. cbn [ss_step] in H1. destruct st as [b|].
      + destruct (b && _)%bool; [injection H1 as <-; reflexivity|]. destruct (ps_step _ _ _ b ev); [|discriminate]. injection H1 as <-. reflexivity.
      + destruct ev; [destruct (scls _ _ _ _ _ _ _); [|discriminate]|..]; injection H1 as <-; reflexivity.
  Qed.

  Lemma link_run tr : forall s1 s2 s1' s2', linked s1 s2 ->
    mon_run (lift SS) (Some s1) tr = Some (Some s1') -> mon_run (lift oc_step) (Some s2) tr = Some (Some s2') -> linked s1' s2'.
  Proof.
    induction tr as [|ev tr IH]; intros s1 s2 s1' s2' Hl H1 H2; cbn [mon_run] in *.
    - injection H1 as <-. injection H2 as <-. exact Hl.
    - cbn [lift] in *. destruct (sane_ev ev).
      + destruct (SS s1 ev) as [t1|] eqn:E1; cbn [option_map] in H1; [|discriminate].
        destruct (oc_step s2 ev) as [t2|] eqn:E2; cbn [option_map] in H2; [|discriminate].
        eapply IH; [eapply link_step; eassumption|exact H1|exact H2].
      + rewrite mon_run_void in H1. discriminate.
  Qed.

  (** A sharded [set] that reports success: each of the key's two shard paths
      is bound to the source's inode or unbound, and at most one is bound -- no
      older value survives anywhere a lookup looks, and no second copy appears. *)
  Theorem sharded_set_no_stale h i0 w o : w_fs w = f0 -> o_fault o = None -> names_plain f0 -> name_of f0 v = Some i0 ->
    let '(r, w', _, _) := run (sh_publish cd_set h dir nsh total k v) w o in
    is_ok r = true ->
    (forall sid, sid = ida \/ sid = idb -> name_of (w_fs w') (dstp sid) = Some i0 \/ name_of (w_fs w') (dstp sid) = None) /\
    (name_of (w_fs w') (dstp ida) = None \/ name_of (w_fs w') (dstp idb) = None).
  Proof.
    intros Hw Hnf Hpl Hv0.
    pose proof (sane_run_nf_tr SS _ _ Unprobed (ss_inv dir nsh total k v i0)
                  (ss_sh_set dir nsh total k v Hdir Hname Hv Hout Hnanc ida idb Hab Hids h)
                  (fun s ev s' f f' Hm Ha => ss_inv_step dir nsh total k v Hdir Hname Hv Hout ida idb i0 s ev s' f f' Hm (astep_step1 _ _ _ Ha))
                  w o Hnf ltac:(rewrite Hw; exact Hpl) ltac:(cbn [ss_inv]; rewrite Hw; exact Hv0)) as H1.
    pose proof (sane_run_nf_tr oc_step _ _ OU oc_inv (oc_sh_set h) oc_inv_step w o Hnf ltac:(rewrite Hw; exact Hpl) Hw) as H2.
    destruct (run (sh_publish cd_set h dir nsh total k v) w o) as [[[r w'] o'] tr].
    destruct H1 as (s1 & Hm1 & HQ1 & HI1 & _). destruct H2 as (s2 & Hm2 & (sid2 & ->) & HI2 & _).
    intros Hok. destruct (HQ1 Hok) as (sid & Hsid & Hg).
    pose proof (link_run tr Unprobed OU s1 (OT sid2) I Hm1 Hm2) as Hl.
    assert (Hchosen : name_of (w_fs w') (dstp sid) = Some i0 \/ name_of (w_fs w') (dstp sid) = None).
    { destruct Hg as [-> | ->]; cbn [ss_inv ps_inv] in HI1; [left; exact (proj1 HI1)|right; exact HI1]. }
    assert (Hsame : sid2 = sid) by (destruct Hg as [-> | ->]; cbn [linked] in Hl; congruence). subst sid2. cbn [oc_inv] in HI2.
    assert (Hcases : forall t, t = ida \/ t = idb -> t = sid \/ t = other sid).
    { intros t Ht. destruct Hsid as [-> | ->]; rewrite ?other_a, ?other_b; destruct Ht; auto. }
    split.
    - intros t Ht. destruct (Hcases t Ht) as [-> | ->]; [exact Hchosen|right; exact HI2].
    - destruct Hsid as [-> | ->]; [rewrite other_a in HI2; right; exact HI2|rewrite other_b in HI2; left; exact HI2].
  Qed.

  (** ** sharded put *)
  Definition sp_step (s : spst) (ev : event) : option spst :=
    match s with
    | PU => match ev with
            | EvCall (CStat p true) r =>
                if path_eqb p (dstp ida) then Some (PC (if is_rstat r then ida else idb) (Some Before))
                else if path_eqb p (dstp idb) then Some (PC (if is_rstat r then idb else ida) (Some Before))
                else None
            | _ => None
            end
    | PC sid (Some st) =>
        if (match st with Before => false | _ => true end && match ev with EvCall c _ => unl (dstp sid) c | _ => false end)%bool
        then Some (PC sid (match ev with EvCall _ r => if accepted r then None else Some st | _ => Some st end))
        else option_map (fun st' => PC sid (Some st')) (pp_step (dcd sid) name v st ev)
    | PC sid None =>
        match ev with EvCall c _ => if scls dir nsh total k v sid c then Some s else None | _ => Some s end
    end.

  Lemma pp_to_sp sid st ev st' : pp_step (dcd sid) name v st ev = Some st' -> sp_step (PC sid (Some st)) ev = Some (PC sid (Some st')).
  Proof.
    intros H. cbn [sp_step].
    assert (Hn : (match st with Before => false | _ => true end && match ev with EvCall c _ => unl (dstp sid) c | _ => false end)%bool = false).
    { destruct ev as [c r| | | | | ]; try apply andb_false_r. destruct (unl (dstp sid) c) eqn:Hu; [|apply andb_false_r].
      destruct st; [reflexivity|exfalso..]; destruct c; try discriminate; cbn [unl] in Hu; apply path_eqb_eq in Hu; subst p;
        cbn [pp_step is_publ] in H; unfold pcls, okm, Pvd in H; cbn [rebind_paths forallb unl] in H; rewrite path_eqb_refl in H; cbn [negb] in H;
        rewrite !andb_false_r in H; cbn [orb] in H;
        (destruct (path_eqb (dstp sid) v) eqn:He; [apply path_eqb_eq in He; symmetry in He; exact (dcd_out dir nsh total v Hout sid [name] He)|discriminate]). }
    rewrite Hn, H. reflexivity.
  Qed.

  Definition Gput (sid : N) (s : spst) : Prop := s = PC sid (Some Linked) \/ s = PC sid (Some Existed) \/ s = PC sid None.

  Lemma sp_pub_call sid s c r : Gput sid s -> scls dir nsh total k v sid c = true -> exists s', sp_step s (EvCall c r) = Some s' /\ Gput sid s'.
  Proof.
    intros Hg Hc. unfold scls in Hc.
    assert (Hst : forall st, st <> Before -> exists s', sp_step (PC sid (Some st)) (EvCall c r) = Some s' /\ (s' = PC sid (Some st) \/ s' = PC sid None)).
    { intros st Hne. cbn [sp_step]. destruct (unl (dstp sid) c) eqn:Hu.
      - assert (Hb : match st with Before => false | _ => true end = true) by (destruct st; congruence). rewrite Hb. cbn [andb].
        eexists; split; [reflexivity|]. destruct (accepted r); auto.
      - rewrite andb_false_r. rewrite orb_false_r in Hc.
        assert (Hp : pcls (dcd sid) name v st c = true) by (unfold pcls; rewrite Hc; reflexivity).
        destruct (pp_call (dcd sid) name v st c r Hp) as (s' & -> & ->). cbn [option_map]. eauto. }
    destruct Hg as [-> |[-> | ->]].
    - destruct (Hst Linked ltac:(discriminate)) as (s' & -> & [-> | ->]); eexists; (split; [reflexivity|]); unfold Gput; auto.
    - destruct (Hst Existed ltac:(discriminate)) as (s' & -> & [-> | ->]); eexists; (split; [reflexivity|]); unfold Gput; auto.
    - cbn [sp_step]. fold (scls dir nsh total k v sid c). unfold scls. rewrite Hc. eexists; split; [reflexivity|]. unfold Gput; auto.
  Qed.
  Lemma sp_pub_sil sid s ev : Gput sid s -> match ev with EvCall _ _ => True | _ => exists s', sp_step s ev = Some s' /\ Gput sid s' end.
  Proof.
    intros [-> |[-> | ->]]; destruct ev; cbn [sp_step andb pp_step option_map]; try exact I; rewrite ?andb_false_r; cbn [option_map];
      eexists; (split; [reflexivity|]); unfold Gput; auto.
  Qed.

  Lemma sp_force_maintain h sid id s : Gput sid s -> wpv sp_step (force_maintain_shard h dir nsh total id) (fun _ s' => Gput sid s') s.
  Proof.
    intros Hg. unfold force_maintain_shard. apply wpv_try.
    eapply wpv_mono; [|apply (g_definitely_cleanup sp_step (Gput sid) (scls dir nsh total k v sid) (scls_nr dir nsh total k v sid) (sp_pub_call sid) (sp_pub_sil sid) (dcd id) (cd_base (dcd id)) s)];
      [| intros n Hn; apply (scls_unlink dir nsh total k v Hdir Hname Hv Hout Hnanc sid id n Hn)
       | intros n Hn; apply (scls_unlink dir nsh total k v Hdir Hname Hv Hout Hnanc sid id n Hn) | exact Hg].
    intros [est|e|] s1 Hg1; exact Hg1.
  Qed.

  Lemma sp_tail h h1 sid upd s : Gput sid s ->
    wpv sp_step (update_estimate h h1 upd ;;;
                 match upd with
                 | Some _ => RandShard (eff_shards nsh) (fun r0 => force_maintain_shard h dir nsh total (other_shard_id (eff_shards nsh) sid r0))
                 | None => LoadGet h h1 (fun l => if (sharded_shard_capacity nsh total <? l / 2)%N then Mark 20 [] (force_maintain_shard h dir nsh total sid) else Ret (Ok tt))
                 end) (fun _ s' => Gput sid s') s.
  Proof.
    intros Hg. apply wpv_bind.
    eapply wpv_mono; [|apply (gclass sp_step (Gput sid) (scls dir nsh total k v sid) (sp_pub_call sid) (sp_pub_sil sid) (update_estimate h h1 upd) anyc)];
      [|unfold update_estimate; allc_auto|exact Hg].
    intros [] s1 (_ & Hg1). destruct upd as [x|].
    - unfold wpv. cbn [wp]. intros r0. apply (wpv_sil sp_step (Gput sid) (sp_pub_sil sid)); [exact Hg1|exact I|]. intros s2 Hg2. apply sp_force_maintain, Hg2.
    - unfold wpv. cbn [wp]. intros l. destruct (_ <? _)%N; [|exact Hg1]. cbn [wp].
      apply (wpv_sil sp_step (Gput sid) (sp_pub_sil sid)); [exact Hg1|exact I|]. intros s2 Hg2. apply sp_force_maintain, Hg2.
  Qed.

  Theorem sp_sh_put h :
    wpv sp_step (sh_publish cd_put h dir nsh total k v)
        (fun r s' => is_ok r = true -> exists sid, (sid = ida \/ sid = idb) /\ Gput sid s') PU.
  Proof.
    unfold sh_publish, sort_by_load. rewrite Hids. unfold wpv. cbn [bind wp]. intros l1 l2. cbn [bind fst snd].
    assert (Hgo : forall h1 h2, (h1 = ida /\ h2 = idb) \/ (h1 = idb /\ h2 = ida) ->
              wpv sp_step (try (file_exists (dir ++ [format_id h2]) name) (fun ex =>
                             let sid := if ex then h2 else h1 in
                             try (cd_put (dcd sid) name v) (fun upd =>
                               update_estimate h h1 upd ;;;
                               match upd with
                               | Some _ => RandShard (eff_shards nsh) (fun r0 => force_maintain_shard h dir nsh total (other_shard_id (eff_shards nsh) sid r0))
                               | None => LoadGet h h1 (fun l => if (sharded_shard_capacity nsh total <? l / 2)%N then Mark 20 [] (force_maintain_shard h dir nsh total sid) else Ret (Ok tt))
                               end)))
                  (fun r s' => is_ok r = true -> exists sid, (sid = ida \/ sid = idb) /\ Gput sid s') PU).
    { intros h1 h2 Hh. apply wpv_try. unfold file_exists. rewrite (validate_ok name Hname). cbn [bind call1]. apply wpv_call. intros r _.
      assert (Hst : sp_step PU (EvCall (CStat ((dir ++ [format_id h2]) ++ [name]) true) r) = Some (PC (if is_rstat r then h2 else h1) (Some Before))).
      { cbn [sp_step]. change ((dir ++ [format_id h2]) ++ [name]) with (dstp h2). destruct Hh as [(-> & ->)|(-> & ->)].
        - assert (He : path_eqb (dstp idb) (dstp ida) = false).
          { destruct (path_eqb (dstp idb) (dstp ida)) eqn:He; [|reflexivity]. apply path_eqb_eq in He. symmetry in He. exfalso. exact (dstp_neq He). }
          rewrite He, path_eqb_refl. reflexivity.
        - rewrite path_eqb_refl. reflexivity. }
      rewrite Hst.
      assert (Hsid : forall ex, is_rstat r = ex ->
                wpv sp_step (try (cd_put (dcd (if ex then h2 else h1)) name v) (fun upd =>
                               update_estimate h h1 upd ;;;
                               match upd with
                               | Some _ => RandShard (eff_shards nsh) (fun r0 => force_maintain_shard h dir nsh total (other_shard_id (eff_shards nsh) (if ex then h2 else h1) r0))
                               | None => LoadGet h h1 (fun l => if (sharded_shard_capacity nsh total <? l / 2)%N then Mark 20 [] (force_maintain_shard h dir nsh total (if ex then h2 else h1)) else Ret (Ok tt))
                               end))
                    (fun r0 s' => is_ok r0 = true -> exists sid, (sid = ida \/ sid = idb) /\ Gput sid s') (PC (if is_rstat r then h2 else h1) (Some Before))).
      { intros ex <-. set (sid := if is_rstat r then h2 else h1).
        assert (Hsid : sid = ida \/ sid = idb) by (unfold sid; destruct (is_rstat r); destruct Hh as [(-> & ->)|(-> & ->)]; auto).
        apply wpv_try.
        pose proof (wpv_refine (pp_step (dcd sid) name v) sp_step (fun st => PC sid (Some st)) (pp_to_sp sid) _ _ _
                      (pp_cd_put (dcd sid) name v (dcd_plain dir nsh total Hdir sid) Hname Hv (dcd_out dir nsh total v Hout sid) (dcd_nanc dir nsh total v Hout Hnanc sid))) as Href.
        eapply wpv_mono; [|exact Href]. intros [upd|e|] s1 (st1 & -> & Hb); try discriminate.
        specialize (Hb eq_refl).
        assert (Hg1 : Gput sid (PC sid (Some st1))) by (unfold Gput; destruct st1; [congruence|auto..]).
        eapply wpv_mono; [|apply (sp_tail h h1 sid upd _ Hg1)]. intros a s2 Hg2 _. exists sid. split; assumption. }
      destruct r as [| |st| | |er]; cbn [is_rstat]; try (apply wpv_ret; discriminate).
      - apply (Hsid true eq_refl).
      - destruct (is_absent (OsErr er)); [apply (Hsid false eq_refl)|apply wpv_ret; discriminate]. }
    destruct (_ <=? _)%N; apply Hgo; auto.
  Qed.

  Variable i0 : nat.
  Definition sp_inv (s : spst) (f : fs) : Prop :=
    match s with
    | PU => f = f0
    | PC sid (Some st) => pp_inv (dcd sid) name v i0 (name_of f0 (dstp sid)) st f
    | PC sid None => name_of f (dstp sid) = None
    end.

  Hypothesis Hv0 : name_of f0 v = Some i0.

  Lemma sp_inv_step s ev s' f f' : sp_step s ev = Some s' -> astep f ev f' -> names_plain f -> sp_inv s f -> sp_inv s' f'.
  Proof.
    intros Hm Ha Hpl HI. destruct s as [|sid [st|]].
    - cbn [sp_inv] in HI. subst f. destruct ev as [c r| | | | | ]; cbn [sp_step] in Hm; try discriminate.
      destruct c; try discriminate. destruct follow; try discriminate. destruct Ha as (e & -> & Hr). rewrite stat_keeps.
      assert (Hinit : forall sid, sp_inv (PC sid (Some Before)) f0) by (intros sid; cbn [sp_inv pp_inv]; split; [exact Hv0|left; reflexivity]).
      destruct (path_eqb p (dstp ida)); [injection Hm as <-; apply Hinit|]. destruct (path_eqb p (dstp idb)); [injection Hm as <-; apply Hinit|discriminate].
    - cbn [sp_step] in Hm.
      destruct (match st with Before => false | _ => true end && match ev with EvCall c _ => unl (dstp sid) c | _ => false end)%bool eqn:Hu.
      + injection Hm as <-. apply andb_true_iff in Hu. destruct Hu as (Hst & Hu). destruct ev as [c r| | | | | ]; try discriminate.
        destruct c; try discriminate. cbn [unl] in Hu. apply path_eqb_eq in Hu. subst p. destruct Ha as (e & -> & Hr).
        pose proof (sem_res_unit f e (CUnlink (dstp sid))) as Hx.
        change (snd (sem f e (CUnlink (dstp sid))) = ROk \/ exists er, snd (sem f e (CUnlink (dstp sid))) = RErr er) in Hx.
        destruct Hx as [Hx|(er & Hx)]; rewrite Hx in Hr; subst r; cbn [accepted sp_inv].
        * apply unlink_effect; [apply dstp_plain|exact Hx].
        * assert (Hsame : forall x, name_of (fst (sem f e (CUnlink (dstp sid)))) x = name_of f x) by (intros x; eapply sem_err_names; exact Hx).
          cbn [sp_inv] in HI. destruct st; [discriminate|..]; cbn [pp_inv] in *; rewrite !Hsame; exact HI.
      + destruct (pp_step (dcd sid) name v st ev) as [st'|] eqn:Hps; [|discriminate]. injection Hm as <-. cbn [sp_inv] in *.
        eapply (pp_inv_step (dcd sid) name v (dcd_plain dir nsh total Hdir sid) Hname Hv (dcd_out dir nsh total v Hout sid) (dcd_nanc dir nsh total v Hout Hnanc sid)); eassumption.
    - cbn [sp_step sp_inv] in *. destruct ev as [c r|t|wt b|n x|fr|tg pl].
      2-6: injection Hm as <-; cbn [sp_inv]; rewrite (step1_spares _ _ _ _ (astep_step1 _ _ _ Ha) I); exact HI.
      destruct (scls dir nsh total k v sid c) eqn:Hc; [|discriminate]. injection Hm as <-. cbn [sp_inv]. destruct Ha as (e & -> & Hr).
      unfold scls in Hc. apply orb_true_iff in Hc. destruct Hc as [Hc|Hc].
      + destruct (okm_and _ _ c Hc) as (_ & Hc2). rewrite (sem_spares f e c (dstp sid) Hc2). exact HI.
      + destruct c; try discriminate. cbn [unl] in Hc. apply path_eqb_eq in Hc. subst p.
        pose proof (sem_res_unit f e (CUnlink (dstp sid))) as Hx.
        change (snd (sem f e (CUnlink (dstp sid))) = ROk \/ exists er, snd (sem f e (CUnlink (dstp sid))) = RErr er) in Hx.
        destruct Hx as [Hx|(er & Hx)]; [apply unlink_effect; [apply dstp_plain|exact Hx]|rewrite (sem_err_names f e _ er _ Hx); exact HI].
  Qed.

  Notation SP := sp_step.
  Definition linkedp (s1 : spst) (s2 : ost) : Prop :=
    match s1, s2 with PU, OU => True | PC sid _, OT sid' => sid = sid' | _, _ => False end.

  Lemma linkp_step s1 s2 ev s1' s2' : linkedp s1 s2 -> SP s1 ev = Some s1' -> oc_step s2 ev = Some s2' -> linkedp s1' s2'.
  Proof.
    intros Hl H1 H2. destruct s1 as [|sid st], s2 as [|sid']; cbn [linkedp] in Hl; try contradiction.
    - destruct ev as [c r| | | | | ]; cbn [oc_step] in H2; try discriminate. destruct c; try discriminate. destruct follow; try discriminate.
      cbn [sp_step] in H1. destruct (path_eqb p (dstp ida)); [injection H1 as <-; injection H2 as <-; reflexivity|].
      destruct (path_eqb p (dstp idb)); [injection H1 as <-; injection H2 as <-; reflexivity|discriminate].
    - subst sid'. assert (Hs2 : s2' = OT sid) by (cbn [oc_step] in H2; destruct ev; [destruct (ocls sid c); [|discriminate]|..]; injection H2 as <-; reflexivity).
      subst s2'. cbn [sp_step] in H1. destruct st as [st|].
      + destruct (_ && _)%bool; [injection H1 as <-; reflexivity|]. destruct (pp_step _ _ _ st ev); [|discriminate]. injection H1 as <-. reflexivity.
      + destruct ev; [destruct (scls _ _ _ _ _ _ _); [|discriminate]|..]; injection H1 as <-; reflexivity.
  Qed.

  Lemma linkp_run tr : forall s1 s2 s1' s2', linkedp s1 s2 ->
    mon_run (lift SP) (Some s1) tr = Some (Some s1') -> mon_run (lift oc_step) (Some s2) tr = Some (Some s2') -> linkedp s1' s2'.
  Proof.
    induction tr as [|ev tr IH]; intros s1 s2 s1' s2' Hl H1 H2; cbn [mon_run] in *.
    - injection H1 as <-. injection H2 as <-. exact Hl.
    - cbn [lift] in *. destruct (sane_ev ev).
      + destruct (SP s1 ev) as [t1|] eqn:E1; cbn [option_map] in H1; [|discriminate].
        destruct (oc_step s2 ev) as [t2|] eqn:E2; cbn [option_map] in H2; [|discriminate].
        eapply IH; [eapply linkp_step; eassumption|exact H1|exact H2].
      + rewrite mon_run_void in H1. discriminate.
  Qed.

  (** A sharded [put] that reports success: each of the key's two shard paths is
      bound to the source's inode, or to exactly what it was bound to before, or
      is unbound; at most one is bound. *)
  Theorem sharded_put_keeps h w o : w_fs w = f0 -> o_fault o = None -> names_plain f0 ->
    let '(r, w', _, _) := run (sh_publish cd_put h dir nsh total k v) w o in
    is_ok r = true ->
    (forall sid, sid = ida \/ sid = idb ->
       name_of (w_fs w') (dstp sid) = Some i0 \/ name_of (w_fs w') (dstp sid) = name_of f0 (dstp sid) \/ name_of (w_fs w') (dstp sid) = None) /\
    (name_of (w_fs w') (dstp ida) = None \/ name_of (w_fs w') (dstp idb) = None).
  Proof.
    intros Hw Hnf Hpl.
    assert (Hpl0 : names_plain (w_fs w)) by (rewrite Hw; exact Hpl).
    pose proof (sane_run_nf_tr SP _ _ PU sp_inv (sp_sh_put h) sp_inv_step w o Hnf Hpl0 Hw) as H1.
    pose proof (sane_run_nf_tr oc_step _ _ OU oc_inv (oc_sh_publish false h) oc_inv_step w o Hnf Hpl0 Hw) as H2.
    destruct (run (sh_publish cd_put h dir nsh total k v) w o) as [[[r w'] o'] tr].
    destruct H1 as (s1 & Hm1 & HQ1 & HI1 & _). destruct H2 as (s2 & Hm2 & (sid2 & ->) & HI2 & _).
    intros Hok. destruct (HQ1 Hok) as (sid & Hsid & Hg).
    pose proof (linkp_run tr PU OU s1 (OT sid2) I Hm1 Hm2) as Hl.
    assert (Hchosen : name_of (w_fs w') (dstp sid) = Some i0 \/ name_of (w_fs w') (dstp sid) = name_of f0 (dstp sid) \/ name_of (w_fs w') (dstp sid) = None).
    { destruct Hg as [-> |[-> | ->]]; cbn [sp_inv pp_inv] in HI1; [left; exact HI1|right; left; exact (proj1 HI1)|right; right; exact HI1]. }
    assert (Hsame : sid2 = sid) by (destruct Hg as [-> |[-> | ->]]; cbn [linkedp] in Hl; congruence). subst sid2. cbn [oc_inv] in HI2.
    assert (Hcases : forall t, t = ida \/ t = idb -> t = sid \/ t = other sid).
    { intros t Ht. destruct Hsid as [-> | ->]; rewrite ?other_a, ?other_b; destruct Ht; auto. }
    split.
    - intros t Ht. destruct (Hcases t Ht) as [-> | ->]; [exact Hchosen|right; right; exact HI2].
    - destruct Hsid as [-> | ->]; [rewrite other_a in HI2; right; exact HI2|rewrite other_b in HI2; left; exact HI2].
  Qed.
End Shard.


(** A lookup after a successful sharded set never returns an older value: any
    hit is a descriptor on the inode the set's source named. *)
Theorem sharded_set_then_get dir nsh total k v ida idb h i0 w o o2 :
  plainp dir = true -> valid_name (k_name k) = true -> plainp v = true ->
  (forall q, v <> dir ++ q) -> (forall q, dir <> v ++ q) ->
  format_id ida <> format_id idb -> shard_ids (k_hash k) (k_sec k) nsh = (ida, idb) ->
  let dstp sid := cd_base (shard_cdir dir nsh total sid) ++ [k_name k] in
  o_fault o = None -> names_plain (w_fs w) -> name_of (w_fs w) v = Some i0 ->
  (name_of (w_fs w) (dstp ida) = None \/ name_of (w_fs w) (dstp idb) = None) ->
  (forall sid i, sid = ida \/ sid = idb -> name_of (w_fs w) (dstp sid) = Some i -> resolve (w_fs w) (dstp sid) = inl (dstp sid) /\ inode_of (w_fs w) i <> None) ->
  let '(r, w1, _, _) := run (sh_publish cd_set h dir nsh total k v) w o in
  is_ok r = true ->
  let '(r2, w2, _, _) := run (sh_get dir nsh total k) w1 o2 in
  forall fd, r2 = Ok (Some fd) -> fdino (w_fs w2) fd = Some i0.
Proof.
  intros Hdir Hname Hv Hout Hnanc Hab Hids dstp Hnf Hpl Hv0 Hone Hreach.
  pose proof (sharded_set_no_stale dir nsh total k Hdir Hname ida idb Hab Hids (w_fs w) v Hv Hout Hnanc Hone Hreach h i0 w o eq_refl Hnf Hpl Hv0) as Hset.
  pose proof (run_names_plain (sh_publish cd_set h dir nsh total k v) w o Hpl) as Hpl1.
  destruct (run (sh_publish cd_set h dir nsh total k v) w o) as [[[r w1] o1] tr1]. intros Hok. destruct (Hset Hok) as (Hboth & _).
  pose proof (sharded_get_reads dir nsh total k Hdir Hname ida idb Hids (w_fs w1) w1 o2 eq_refl Hpl1) as Hget.
  destruct (run (sh_get dir nsh total k) w1 o2) as [[[r2 w2] o3] tr2]. destruct Hget as (_ & Hfd).
  intros fd Hr. destruct (Hfd fd Hr) as ([H1|H1] & H2); rewrite H1 in *.
  - destruct (Hboth ida (or_introl eq_refl)) as [H|H]; [exact H|congruence].
  - destruct (Hboth idb (or_intror eq_refl)) as [H|H]; [exact H|congruence].
Qed.
