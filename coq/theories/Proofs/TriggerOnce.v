(** One trigger event per write.  For arbitrary environment responses, a write through
    a plain or a sharded directory (set, put; hence the public Cache::set / put)
    observes AT MOST one event of the maintenance trigger, and exactly one when it
    succeeds; everything else a write does - maintenance itself, the forced
    maintenance of another shard, directory creation, the publication and its retry -
    observes none.  This is the premise of the growth bound's counting abstraction
    (Pure/Trigger.v, write_step: "a write first observes one event"). *)
From Coq Require Import List NArith ZArith String Bool Arith Lia.
From Kismet Require Import Pure.SecondChance Pure.Hash FS.Fs FS.Prog Spec.Wp Ops.Ops.
Import ListNotations.

Definition tg_step (n : nat) (ev : event) : option nat :=
  match ev with EvTrigger _ _ => Some (S n) | _ => Some n end.

Fixpoint notrig {A} (p : prog A) : Prop :=
  match p with
  | Ret _ => True
  | Call c k => forall r, notrig (k r)
  | Now k => forall t, notrig (k t)
  | Trigger _ _ => False
  | RandShard n k => forall x, notrig (k x)
  | LoadGet h i k => forall x, notrig (k x)
  | LoadSet h i v k => notrig k
  | Fresh k => forall s, notrig (k s)
  | Mark t pl k => notrig k
  end.

Lemma notrig_bind {A B} (p : prog A) (f : A -> prog B) : notrig p -> (forall a, notrig (f a)) -> notrig (bind p f).
Proof.
  induction p as [a|c k IH|k IH|w k IH|n k IH|h i k IH|h i v k IH|k IH|t pl k IH]; cbn [bind notrig]; intros Hp Hf; auto.
  all: try contradiction.
Qed.

Lemma notrig_try {A B} (p : prog (outcome A)) (f : A -> prog (outcome B)) : notrig p -> (forall a, notrig (f a)) -> notrig (try p f).
Proof. intros Hp Hf. unfold try. apply notrig_bind; [exact Hp|]. intros [a|e|]; [apply Hf|exact I|exact I]. Qed.

Lemma tg_frame {A} (p : prog A) : notrig p -> forall n, wp tg_step p (fun _ n' => n' = n) n.
Proof.
  induction p as [a|c k IH|k IH|w k IH|m k IH|h i k IH|h i v k IH|k IH|t pl k IH]; cbn [wp notrig]; unfold after; cbn [tg_step]; intros H n; auto.
  all: try contradiction.
Qed.

Ltac nt_leaf := cbn [notrig bind call1]; intros r; destruct r; cbn [notrig]; auto.

Lemma nt_quiet c : notrig (quiet c). Proof. unfold quiet. nt_leaf. Qed.
Lemma nt_unit_call c : notrig (unit_call c). Proof. unfold unit_call. nt_leaf. Qed.
Lemma nt_fd_call c : notrig (fd_call c). Proof. unfold fd_call. nt_leaf. Qed.
Lemma nt_stat_call c : notrig (stat_call c). Proof. unfold stat_call. nt_leaf. Qed.
Lemma nt_ret {A} (a : A) : notrig (Ret a). Proof. exact I. Qed.

Lemma nt_go fd a m : notrig (x <- unit_call (CFutimens fd a m) ;; quiet (CClose fd) ;;; Ret x).
Proof. apply notrig_bind; [apply nt_unit_call|]. intros x. apply notrig_bind; [apply nt_quiet|]. intros _. exact I. Qed.

Lemma nt_set_times p a m : notrig (set_times p a m).
Proof.
  unfold set_times. cbn [bind call1 notrig]. intros r.
  destruct r as [|fd| | | |e]; [|apply nt_go| | | |];
    (cbn [bind call1 notrig]; intros r2; destruct r2 as [|fd2| | | |e2]; first [exact I|apply nt_go]).
Qed.

Lemma nt_move_to_back p : notrig (move_to_back_of_list p).
Proof. unfold move_to_back_of_list. cbn [notrig]. intros t. apply nt_set_times. Qed.

Lemma nt_set_read_only p : notrig (set_read_only p).
Proof. unfold set_read_only. apply notrig_try; [apply nt_stat_call|]. intros st. apply nt_unit_call. Qed.

Lemma nt_touch p : notrig (touch p).
Proof. unfold touch. cbn [notrig]. intros t. apply notrig_bind; [apply nt_set_times|]. intros r. exact I. Qed.

Lemma nt_ensure_file_removed p : notrig (ensure_file_removed p).
Proof. unfold ensure_file_removed. apply notrig_bind; [apply nt_unit_call|]. intros r. exact I. Qed.

Lemma nt_insert_or_update a b : notrig (insert_or_update a b).
Proof.
  unfold insert_or_update. apply notrig_try; [apply nt_move_to_back|]. intros _.
  apply notrig_try; [apply nt_set_read_only|]. intros _. apply notrig_try; [apply nt_unit_call|]. intros _. apply nt_ensure_file_removed.
Qed.

Lemma nt_insert_or_touch a b : notrig (insert_or_touch a b).
Proof.
  unfold insert_or_touch. apply notrig_try; [apply nt_move_to_back|]. intros _.
  apply notrig_try; [apply nt_set_read_only|]. intros _.
  cbn [bind call1 notrig]. intros r. destruct r as [| | | | |e]; try apply nt_ensure_file_removed.
  destruct e; try exact I. apply notrig_try; [apply nt_touch|]. intros _. apply nt_ensure_file_removed.
Qed.

Lemma nt_evict_loop dir names : notrig (evict_loop dir names).
Proof. induction names as [|n rest IH]; cbn [evict_loop]; [exact I|]. apply notrig_try; [apply nt_ensure_file_removed|]. intros _. exact IH. Qed.

Lemma nt_move_back_loop dir names : notrig (move_back_loop dir names).
Proof.
  induction names as [|n rest IH]; cbn [move_back_loop]; [exact I|].
  apply notrig_bind; [apply nt_move_to_back|]. intros [u|e|]; [exact IH|destruct (is_absent e); [exact IH|exact I]|exact I].
Qed.

Lemma nt_collect_loop dir dh : forall names acc count, notrig (collect_loop dir dh names acc count).
Proof.
  induction names as [|n rest IH]; intros acc count; cbn [collect_loop]; [exact I|].
  destruct (dot_prefixed n); [apply IH|].
  cbn [bind call1 notrig]. intros r. destruct r as [| |st| | |e].
  1-2,4-5: apply notrig_bind; [apply nt_quiet|intros _; exact I].
  - destruct (st_dir st); apply IH.
  - destruct (is_absent (OsErr e)); [apply IH|apply notrig_bind; [apply nt_quiet|intros _; exact I]].
Qed.

Lemma nt_collect dir : notrig (collect_cached_files dir).
Proof.
  unfold collect_cached_files. apply notrig_try; [apply nt_fd_call|]. intros dh.
  cbn [bind call1 notrig]. intros r. destruct r as [| | | |names|e].
  1-4,6: apply notrig_bind; [apply nt_quiet|intros _; exact I].
  apply notrig_try; [apply nt_collect_loop|]. intros [files count]. exact I.
Qed.

Lemma nt_prune dir cap : notrig (prune dir cap).
Proof.
  unfold prune. apply notrig_try; [apply nt_collect|]. intros [[dh files] count].
  destruct (plan (entries_of files) cap) as [[ev mb]|].
  - apply notrig_bind; [apply nt_quiet|]. intros _. apply notrig_bind.
    + apply notrig_try; [apply nt_evict_loop|]. intros _. apply nt_move_back_loop.
    + intros r. exact I.
  - apply notrig_bind; [apply nt_quiet|]. intros _. exact I.
Qed.

Lemma nt_cleanup_temp_loop temp thr : forall names, notrig (cleanup_temp_loop temp names thr).
Proof.
  induction names as [|n rest IH]; cbn [cleanup_temp_loop]; [exact I|].
  cbn [bind call1 notrig]. intros r. destruct r as [| |st| | |e]; try exact IH.
  apply notrig_bind; [|intros _; exact IH]. destruct (st_mtime st <? thr)%Z; [apply nt_quiet|exact I].
Qed.

Lemma nt_cleanup_temporary_directory temp : notrig (cleanup_temporary_directory temp).
Proof.
  unfold cleanup_temporary_directory. cbn [notrig]. intros t. destruct (t <? MAX_AGE_NS)%Z; [exact I|].
  cbn [bind call1 notrig]. intros r. destruct r as [|dh| | | |e]; try exact I.
  - cbn [bind call1 notrig]. intros l.
    apply notrig_bind; [destruct l; try exact I; apply nt_cleanup_temp_loop|]. intros _.
    apply notrig_bind; [apply nt_quiet|]. intros _. exact I.
Qed.

Lemma nt_is_dir_follow p : notrig (is_dir_follow p).
Proof. unfold is_dir_follow. nt_leaf. Qed.

Lemma nt_create_dir_all_rev rp : notrig (create_dir_all_rev rp).
Proof.
  induction rp as [|x rparent IH]; cbn [create_dir_all_rev]; [exact I|].
  assert (Hs : forall e, notrig (match e with
                                  | EEXIST => (b <- is_dir_follow (rev (x :: rparent)) ;; Ret (if b then Ok tt else Err (OsErr e)))
                                  | _ => Ret (Err (OsErr e)) end)).
  { intros e. destruct e; try exact I. apply notrig_bind; [apply nt_is_dir_follow|]. intros b. exact I. }
  cbn [bind call1 notrig]. intros r. destruct r as [| | | | |e]; try exact I.
  destruct e; try exact I; try (apply (Hs EEXIST)).
  apply notrig_try; [exact IH|]. intros _. cbn [bind call1 notrig]. intros r2. destruct r2 as [| | | | |e2]; try exact I. apply Hs.
Qed.

Lemma nt_create_dir_all p : notrig (create_dir_all p).
Proof. apply nt_create_dir_all_rev. Qed.

Lemma nt_definitely_cleanup d base : notrig (definitely_cleanup d base).
Proof.
  unfold definitely_cleanup. apply notrig_bind; [apply nt_prune|]. intros [[est x]|e|]; try exact I.
  apply notrig_try; [apply nt_cleanup_temporary_directory|]. intros _. exact I.
Qed.

(** the publication, given its trigger outcome, observes nothing more *)
Lemma tg_cd_publish ins d name value : (forall a b, notrig (ins a b)) -> forall n,
  wp tg_step (cd_publish ins d name value) (fun r n' => n' <= S n /\ (forall x, r = Ok x -> n' = S n)) n.
Proof.
  intros Hins n. unfold cd_publish. destruct (validate name).
  2,3: cbn [wp]; split; [lia|intros x H; discriminate H].
  unfold try, maybe_cleanup. cbn [bind wp]. intros fired. unfold after. cbn [tg_step].
  assert (Hrest : forall ret : option N, notrig (r <- ins value (cd_base d ++ [name]) ;;
              match r with
              | Ok _ => (Ret (Ok ret) : prog (outcome (option N)))
              | _ => try (create_dir_all (removelast (cd_base d ++ [name]))) (fun _ => try (ins value (cd_base d ++ [name])) (fun _ => Ret (Ok ret)))
              end)).
  { intros ret. apply notrig_bind; [apply Hins|]. intros [u|e|]; try exact I;
      (apply notrig_try; [apply nt_create_dir_all|]; intros _; apply notrig_try; [apply Hins|]; intros _; exact I). }
  destruct fired.
  - apply wp_bind. apply wp_bind. eapply wp_mono; [|apply (tg_frame _ (nt_definitely_cleanup d (cd_base d)))].
    intros [est|e|] n1 ->; cbn [wp].
    + eapply wp_mono; [|apply (tg_frame _ (Hrest (Some est)))]. intros r n2 ->. split; [lia|reflexivity].
    + split; [lia|intros x H; discriminate H].
    + split; [lia|intros x H; discriminate H].
  - cbn [bind]. eapply wp_mono; [|apply (tg_frame _ (Hrest None))]. intros r n2 ->. split; [lia|reflexivity].
Qed.

Definition tpost {A} (n : nat) (r : outcome A) (n' : nat) : Prop :=
  n' <= S n /\ (forall x, r = Ok x -> n' = S n).

Lemma tg_try_first {A B} (p : prog (outcome A)) (f : A -> prog (outcome B)) n :
  wp tg_step p (tpost n) n -> (forall a, notrig (f a)) -> wp tg_step (try p f) (tpost n) n.
Proof.
  intros Hp Hf. unfold try. apply wp_bind. eapply wp_mono; [|exact Hp].
  intros [a|e|] n1 [H1 H2]; cbn [wp].
  - rewrite (H2 a eq_refl). eapply wp_mono; [|apply (tg_frame _ (Hf a))]. intros r n2 ->. split; [lia|reflexivity].
  - split; [exact H1|intros x H; discriminate H].
  - split; [exact H1|intros x H; discriminate H].
Qed.

Lemma tg_prefix {A B} (p : prog A) (f : A -> prog (outcome B)) n :
  notrig p -> (forall a, wp tg_step (f a) (tpost n) n) -> wp tg_step (bind p f) (tpost n) n.
Proof. intros Hp Hf. apply wp_bind. eapply wp_mono; [|apply (tg_frame _ Hp)]. intros a n1 ->. apply Hf. Qed.

Lemma tg_fail {B} (r : outcome B) n : (forall x, r <> Ok x) -> wp tg_step (Ret r) (tpost n) n.
Proof. intros H. cbn [wp]. split; [lia|]. intros x Hx. exfalso. exact (H x Hx). Qed.

Lemma tpost_cd_publish ins d name value n : (forall a b, notrig (ins a b)) ->
  wp tg_step (cd_publish ins d name value) (tpost n) n.
Proof. intros H. apply tg_cd_publish, H. Qed.

Lemma nt_sort_by_load h n t ids : notrig (sort_by_load h n t ids).
Proof. unfold sort_by_load. cbn [notrig]. intros l1 l2. exact I. Qed.

Lemma nt_file_exists dirp name : notrig (file_exists dirp name).
Proof. unfold file_exists. destruct (validate name); try exact I. nt_leaf. Qed.

Lemma nt_update_estimate h id upd : notrig (update_estimate h id upd).
Proof. unfold update_estimate. destruct upd; cbn [notrig]; [exact I|]. intros i. destruct (i <? 255)%N; exact I. Qed.

Lemma nt_force_maintain_shard h dir n t id : notrig (force_maintain_shard h dir n t id).
Proof. unfold force_maintain_shard. apply notrig_try; [apply nt_definitely_cleanup|]. intros est. exact I. Qed.

Lemma tg_sh_publish ins h dir nsh total k v n :
  (forall d name value, wp tg_step (ins d name value) (tpost n) n) ->
  wp tg_step (sh_publish ins h dir nsh total k v) (tpost n) n.
Proof.
  intros Hins. unfold sh_publish. apply tg_prefix; [apply nt_sort_by_load|]. intros [h1 h2].
  unfold try at 1. apply tg_prefix; [apply nt_file_exists|]. intros [ex|e|].
  - apply tg_try_first; [apply Hins|]. intros upd.
    apply notrig_bind; [apply nt_update_estimate|]. intros _.
    destruct upd; cbn [notrig].
    + intros r. apply nt_force_maintain_shard.
    + intros l. destruct (_ <? _)%N; [apply nt_force_maintain_shard|exact I].
  - apply tg_fail. intros x H. discriminate H.
  - apply tg_fail. intros x H. discriminate H.
Qed.

Theorem write_observes_one_event (which : bool) h f k v n :
  wp tg_step (if which then f_set h f k v else f_put h f k v) (tpost n) n.
Proof.
  destruct which, f as [dir cap|dir nsh total]; cbn [f_set f_put]; unfold drop_opt, cd_set, cd_put.
  - apply tg_try_first; [apply tpost_cd_publish, nt_insert_or_update|]. intros _. exact I.
  - apply tg_sh_publish. intros d name value. apply tpost_cd_publish, nt_insert_or_update.
  - apply tg_try_first; [apply tpost_cd_publish, nt_insert_or_touch|]. intros _. exact I.
  - apply tg_sh_publish. intros d name value. apply tpost_cd_publish, nt_insert_or_touch.
Qed.

Lemma nt_maybe_sync_path cfg p : notrig (maybe_sync_path cfg p).
Proof.
  unfold maybe_sync_path. destruct (s_autosync cfg); [|exact I].
  apply notrig_try; [apply nt_fd_call|]. intros fd. cbn [bind call1 notrig]. intros r.
  destruct r; (apply notrig_bind; [apply nt_quiet|intros _; exact I]).
Qed.

Theorem public_write_observes_one_event (which : bool) cfg k v n :
  wp tg_step (if which then cache_set cfg k v else cache_put cfg k v) (tpost n) n.
Proof.
  assert (H : forall wh, wp tg_step (try (maybe_sync_path cfg v) (fun _ => write_impl wh cfg k v)) (tpost n) n).
  { intros wh. unfold try. apply tg_prefix; [apply nt_maybe_sync_path|]. intros [u|e|].
    - unfold write_impl. destruct (s_writer cfg) as [w|].
      + exact (write_observes_one_event wh (s_handle cfg) w k v n).
      + apply tg_fail. intros x H. discriminate H.
    - apply tg_fail. intros x H. discriminate H.
    - apply tg_fail. intros x H. discriminate H. }
  destruct which; [exact (H true)|exact (H false)].
Qed.

Theorem public_write_observes_one_event_run (which : bool) cfg k v w o :
  let '(r, _, _, tr) := run (if which then cache_set cfg k v else cache_put cfg k v) w o in
  exists n', mon_run tg_step 0 tr = Some n' /\ n' <= 1 /\ (r = Ok tt -> n' = 1).
Proof.
  pose proof (wp_run tg_step _ _ 0 w o (public_write_observes_one_event which cfg k v 0)) as H.
  destruct (run (if which then cache_set cfg k v else cache_put cfg k v) w o) as [[[r w'] o'] tr].
  destruct H as (n' & Hm & H1 & H2). exists n'. split; [exact Hm|]. split; [exact H1|]. intros Hr. exact (H2 tt Hr).
Qed.

(** lookups, touches and the plain temp directory observe none *)
Lemma nt_ensure_file_touched fd : notrig (ensure_file_touched fd).
Proof. unfold ensure_file_touched. apply notrig_try; [apply nt_stat_call|]. intros st. destruct (_ <? _)%Z; [apply nt_unit_call|exact I]. Qed.

Lemma nt_cd_get d name : notrig (cd_get d name).
Proof.
  unfold cd_get. destruct (validate name); try exact I.
  cbn [bind call1 notrig]. intros r. destruct r as [|fd| | | |e]; try exact I.
  apply notrig_bind; [apply nt_ensure_file_touched|]. intros _. exact I.
Qed.

Lemma nt_cd_touch d name : notrig (cd_touch d name).
Proof. unfold cd_touch. destruct (validate name); try exact I. apply nt_touch. Qed.

Theorem lookups_and_touches_observe_no_event f k : notrig (f_get f k) /\ notrig (f_touch f k).
Proof.
  destruct f as [dir cap|dir n t]; cbn [f_get f_touch]; split; try apply nt_cd_get; try apply nt_cd_touch.
  - unfold sh_get. destruct (shard_ids _ _ _) as [h1 h2]. apply notrig_try; [apply nt_cd_get|]. intros [fd|]; [exact I|apply nt_cd_get].
  - unfold sh_touch. destruct (shard_ids _ _ _) as [h1 h2]. apply notrig_try; [apply nt_cd_touch|]. intros [|]; [exact I|apply nt_cd_touch].
Qed.

Theorem plain_temp_dir_observes_no_event d : notrig (ensure_temp_dir d).
Proof.
  unfold ensure_temp_dir. apply notrig_try; [|intros _; exact I].
  unfold ensure_directory. apply notrig_bind; [apply nt_is_dir_follow|]. intros b. destruct b; [exact I|apply nt_create_dir_all].
Qed.

Lemma tg_monitor_meaning n w b c r t :
  tg_step n (EvTrigger w b) = Some (S n) /\ tg_step n (EvCall c r) = Some n /\ tg_step n (EvNow t) = Some n.
Proof. repeat split. Qed.
