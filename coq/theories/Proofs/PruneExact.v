(** prune evicts exactly what the planner prescribes, for arbitrary environment
    responses: if [prune dir cap] returns [Ok (estimate, n)], then the unlink
    calls it issued are, in order, [dir/name] for the victims of
    [plan (entries_of observed) cap], where [observed] is the list of
    (name, mtime, read-mark) it obtained by stat for the listed, non-dot,
    non-directory entries, in listing order; [n] is their number.  With C08 (the
    planner is the classical Second Chance clock) this is C07's statement
    relative to what maintenance observed. *)
From Coq Require Import List NArith ZArith String Bool Arith Lia.
From Kismet Require Import Pure.SecondChance Pure.Hash FS.Fs FS.Prog Spec.Wp Spec.ClassMon Ops.Ops.
Import ListNotations.
Local Open Scope Z_scope.

Record ostate := mkO { o_obs : list cfile; o_unl : list path }.

Definition o_step (s : ostate) (ev : event) : option ostate :=
  match ev with
  | EvCall (CStat p false) (RStat st) =>
      if st_dir st then Some s
      else Some (mkO (o_obs s ++ [mkCfile (last p EmptyString) (st_mtime st) (st_mtime st <=? st_atime st)]) (o_unl s))
  | EvCall (CUnlink p) _ => Some (mkO (o_obs s) (o_unl s ++ [p]))
  | _ => Some s
  end.

Lemma collect_loop_obs dir dh names : forall acc count s base,
  o_obs s = base ++ rev acc ->
  wp o_step (collect_loop dir dh names acc count)
     (fun r s' => o_unl s' = o_unl s /\ match r with Ok (files, _) => o_obs s' = base ++ files | _ => True end) s.
Proof.
  induction names as [|n rest IH]; intros acc count s base Hobs; cbn [collect_loop].
  - cbn [wp]. split; [reflexivity|exact Hobs].
  - destruct (dot_prefixed n); [apply IH; exact Hobs|].
    cbn [bind call1 wp]. intros r. unfold after.
    destruct r as [| |st| | |er]; cbn [o_step];
      try (cbn [wp bind quiet call1]; intros r2; unfold after; cbn [o_step wp]; split; [reflexivity|exact I]).
    + destruct (st_dir st).
      * apply IH. exact Hobs.
      * eapply wp_mono; [|apply (IH _ _ _ base)].
        -- intros a s' (Hu & Hq). split; [exact Hu|exact Hq].
        -- cbn [o_obs rev]. rewrite Hobs, last_last, app_assoc. reflexivity.
    + destruct (is_absent (OsErr er)); [apply IH; exact Hobs|].
      cbn [wp bind quiet call1]. intros r2. unfold after. cbn [o_step wp]. split; [reflexivity|exact I].
Qed.

Lemma evict_loop_unl dir names : forall s,
  wp o_step (evict_loop dir names)
     (fun r s' => o_obs s' = o_obs s /\ match r with Ok _ => o_unl s' = o_unl s ++ map (fun n => dir ++ [n]) names | _ => True end) s.
Proof.
  induction names as [|n rest IH]; intros s; cbn [evict_loop].
  - cbn [wp map]. rewrite app_nil_r. auto.
  - unfold try, ensure_file_removed, unit_call. cbn [bind call1 wp]. intros r. unfold after. cbn [o_step].
    assert (Hgo : wp o_step (evict_loop dir rest)
              (fun r0 s' => o_obs s' = o_obs s /\ match r0 with Ok _ => o_unl s' = o_unl s ++ map (fun n0 => dir ++ [n0]) (n :: rest) | _ => True end)
              (mkO (o_obs s) (o_unl s ++ [dir ++ [n]]))).
    { eapply wp_mono; [|apply IH]. intros a s' (Ho & Hq). split; [exact Ho|].
      destruct a; auto. rewrite Hq. cbn [o_unl map]. rewrite <- app_assoc. reflexivity. }
    destruct r as [| | | | |er]; cbn [wp bind]; try exact Hgo.
    destruct (is_absent (OsErr er)); cbn [wp]; [exact Hgo|]. split; [reflexivity|exact I].
Qed.

(** Programs that neither stat by path nor unlink leave the observation state alone. *)
Definition oinert (c : call) : bool := match c with CUnlink _ | CStat _ _ => false | _ => true end.
Lemma frame_oinert {A} (p : prog A) :
  allc oinert p (fun _ => True) -> forall s, wp o_step p (fun _ s' => s' = s) s.
Proof.
  unfold allc.
  induction p as [a|c k IH|k IH|w k IH|n k IH|h i k IH|h i v k IH|k IH|t pl k IH]; cbn [wp]; unfold after; cbn [k_step]; intros H s; auto.
  - intros r. specialize (H r). destruct (oinert c) eqn:Hc; [|contradiction].
    assert (Hs : o_step s (EvCall c r) = Some s) by (destruct c; try discriminate Hc; reflexivity).
    rewrite Hs. apply IH, H.
  - intros t. cbn [o_step]. apply IH, H.
  - intros b. cbn [o_step]. apply IH, H.
  - intros x. cbn [o_step]. apply IH, H.
  - intros x. cbn [o_step]. apply IH, H.
  - cbn [o_step]. apply IH, H.
Qed.

#[local] Hint Extern 1 (oinert _ = true) => reflexivity : allc.
#[local] Hint Resolve allc_call : allc.
Lemma set_times_oinert p a m : allc oinert (set_times p a m) (fun _ => True).
Proof. unfold set_times, unit_call, quiet. allc_auto. Qed.
Lemma move_back_oinert dir names : allc oinert (move_back_loop dir names) (fun _ => True).
Proof.
  induction names as [|n rest IH]; cbn [move_back_loop]; [apply allc_ret; exact I|].
  unfold move_to_back_of_list. cbn [bind]. apply allc_now. intros t.
  eapply allc_bind; [apply set_times_oinert|].
  intros [u|e|] _; try exact IH; [destruct (is_absent e); [exact IH|apply allc_ret; exact I]|apply allc_ret; exact I].
Qed.

Definition o_init : ostate := mkO [] [].

Theorem prune_evicts_exactly_the_plan dir cap :
  wp o_step (prune dir cap)
     (fun r s' => match r with
                  | Ok (est, nev) =>
                      exists ev mb, plan (entries_of (o_obs s')) cap = Some (ev, mb) /\
                        o_unl s' = map (fun e => dir ++ [name_at (o_obs s') e]) ev /\
                        nev = N.of_nat (List.length ev)
                  | _ => True
                  end) o_init.
Proof.
  unfold prune, try, collect_cached_files, fd_call. cbn [bind call1 wp]. intros r. unfold after. cbn [o_step].
  destruct r as [|dh| | | |er]; cbn [wp bind]; auto.
  intros r2. unfold after. cbn [o_step].
  destruct r2 as [| | | |names|er2]; try (cbn [wp bind quiet call1]; intros r3; unfold after; cbn [o_step wp]; exact I).
  apply wp_bind. apply wp_bind.
  eapply wp_mono; [|apply (collect_loop_obs dir dh names [] 0%N o_init [])]; [|reflexivity].
  intros [[files count]|e|] s1 (Hu & Hobs); cbn [wp bind]; auto.
  cbn [app] in Hobs.
  destruct (plan (entries_of files) cap) as [[ev mb]|] eqn:Hplan.
  - cbn [bind quiet call1 wp]. intros r3. unfold after. cbn [o_step].
    apply wp_bind. apply wp_bind.
    eapply wp_mono; [|apply (evict_loop_unl dir (map (name_at files) ev) s1)].
    intros [u|e|] s2 (Ho2 & Hq); cbn [wp]; auto.
    eapply wp_mono; [|apply (frame_oinert _ (move_back_oinert dir (map (name_at files) mb)) s2)].
    intros a s3 ->. cbn [wp]. destruct a as [u2|e|]; auto.
    exists ev, mb. rewrite Ho2, Hobs. split; [exact Hplan|]. split; [|reflexivity].
    rewrite Hq, Hu. cbn [o_init o_unl app]. rewrite map_map. reflexivity.
  - cbn [bind quiet call1 wp]. intros r3. unfold after. cbn [o_step wp]. exact I.
Qed.
