(** Handles are served from the start: for stacks of any depth and arbitrary
    environment responses, the descriptor a lookup returns has not been read from
    since it was opened, or since the library rewound it with an accepted
    seek-to-0 - also when a consistency checker (which reads the copies it
    compares) is configured.  The checker is only assumed to read nothing but the
    two descriptors it is given. *)
From Coq Require Import List NArith ZArith String Bool Arith Lia.
From Kismet Require Import Pure.Hash FS.Fs FS.Prog Spec.Wp Ops.Ops.
Import ListNotations.

(** state: descriptors read from since their open / last accepted rewind *)
Definition oz_step (s : list nat) (ev : event) : option (list nat) :=
  match ev with
  | EvCall (COpen _ _) (RFd fd) => Some (remove Nat.eq_dec fd s)
  | EvCall (CRead fd _) _ => Some (fd :: s)
  | EvCall (CCopy src _) _ => Some (src :: s)
  | EvCall (CSeek fd off) r =>
      match r with
      | RErr _ => Some s
      | _ => if (off =? 0)%N then Some (remove Nat.eq_dec fd s) else Some (fd :: s)
      end
  | _ => Some s
  end.

Definition clean (fd : nat) (s : list nat) : Prop := ~ In fd s.

Lemma clean_remove fd s : clean fd (remove Nat.eq_dec fd s).
Proof. unfold clean. apply remove_In. Qed.
Lemma clean_remove_other fd x s : clean fd s -> clean fd (remove Nat.eq_dec x s).
Proof. unfold clean. intros H Hin. apply in_remove in Hin. tauto. Qed.

(** programs that neither read, copy nor seek only shrink the dirty set *)
Definition noread (c : call) : bool := match c with CRead _ _ | CCopy _ _ | CSeek _ _ => false | _ => true end.

Lemma oz_noread_step s c r : noread c = true -> exists s1, oz_step s (EvCall c r) = Some s1 /\ forall x, clean x s -> clean x s1.
Proof.
  intros Hc. destruct c; try discriminate Hc; cbn [oz_step]; try (eexists; split; [reflexivity|auto]).
  destruct r; eexists; (split; [reflexivity|]); auto. intros x Hx. apply clean_remove_other, Hx.
Qed.

Definition shrinks {A} (p : prog A) : Prop := forall s, wp oz_step p (fun _ s' => forall x, clean x s -> clean x s') s.

Lemma shrinks_ret {A} (a : A) : shrinks (Ret a). Proof. intros s. cbn [wp]. auto. Qed.
Lemma shrinks_bind {A B} (p : prog A) (f : A -> prog B) : shrinks p -> (forall a, shrinks (f a)) -> shrinks (bind p f).
Proof. intros Hp Hf s. apply wp_bind. eapply wp_mono; [|apply Hp]. intros a s1 H1. eapply wp_mono; [|apply Hf]. intros b s2 H2 x Hx. auto. Qed.
Lemma shrinks_call {B} c (k : res -> prog B) : noread c = true -> (forall r, shrinks (k r)) -> shrinks (Call c k).
Proof.
  intros Hc H s. cbn [wp]. intros r. unfold after. destruct (oz_noread_step s c r Hc) as (s1 & -> & H1).
  eapply wp_mono; [|apply H]. intros a s2 H2 x Hx. auto.
Qed.

Lemma shrinks_quiet c : noread c = true -> shrinks (quiet c).
Proof. intros Hc. unfold quiet. cbn [bind call1]. apply shrinks_call; [exact Hc|]. intros r. cbn [bind]. apply shrinks_ret. Qed.

Lemma shrinks_touched fd : shrinks (ensure_file_touched fd).
Proof.
  unfold ensure_file_touched, try, stat_call, unit_call. cbn [bind call1]. apply shrinks_call; [reflexivity|]. intros r. cbn [bind].
  destruct r; try apply shrinks_ret. destruct (_ <? _)%Z; [|apply shrinks_ret]. cbn [bind call1]. apply shrinks_call; [reflexivity|]. intros r2. cbn [bind]. apply shrinks_ret.
Qed.

(** one level: a hit is clean, nothing else gets dirty *)
Definition hpost (s : list nat) (r : outcome (option nat)) (s' : list nat) : Prop :=
  (forall x, clean x s -> clean x s') /\ match r with Ok (Some fd) => clean fd s' | _ => True end.

Lemma oz_cd_get d name s : wp oz_step (cd_get d name) (hpost s) s.
Proof.
  unfold cd_get. destruct (validate name); cbn [wp]; try (split; auto; fail).
  cbn [bind call1 wp]. intros r. unfold after. cbn [oz_step].
  destruct r as [|fd| | | |e]; cbn [bind wp]; try (split; auto; fail).
  - apply wp_bind. eapply wp_mono; [|apply shrinks_touched]. intros x0 s1 H1. cbn [wp]. split.
    + intros x Hx. apply H1, clean_remove_other, Hx.
    + apply H1, clean_remove.
  - destruct (is_absent (OsErr e)); split; auto.
Qed.

Lemma oz_f_get f k s : wp oz_step (f_get f k) (hpost s) s.
Proof.
  destruct f as [dir cap|dir n t]; cbn [f_get]; [apply oz_cd_get|].
  unfold sh_get. destruct (shard_ids _ _ _) as [h1 h2]. unfold try. apply wp_bind. eapply wp_mono; [|apply oz_cd_get].
  intros [[fd|]|e|] s1 (H1 & H2); cbn [wp]; try (split; auto; fail).
  eapply wp_mono; [|apply oz_cd_get]. intros r s2 (H3 & H4). split; [auto|exact H4].
Qed.

Section Checker.
  Variable chk : option checker.
  (** a checker dirties at most the two descriptors it is given *)
  Hypothesis chk_reads_its_arguments : match chk with
    | Some ck => forall a b s, wp oz_step (ck a b) (fun _ s' => forall x, x <> a -> x <> b -> clean x s -> clean x s') s
    | None => True end.

  Definition lpost (ret : option nat) (s : list nat) (r : outcome (option nat)) (s' : list nat) : Prop :=
    match r with
    | Ok (Some fd) => clean fd s'
    | Ok None => ret = None /\ (forall x, clean x s -> clean x s')
    | _ => True
    end.

  Lemma lpost_mono ret s0 s r s' : (forall x, clean x s0 -> clean x s) -> lpost ret s r s' -> lpost ret s0 r s'.
  Proof. intros H. destruct r as [[fd|]|e|]; cbn [lpost]; auto. intros (H1 & H2). split; auto. Qed.

  Lemma oz_ro_loop stack k : forall ret s, (forall p, ret = Some p -> clean p s) ->
    wp oz_step (ro_get_loop stack chk k ret) (lpost ret s) s.
  Proof.
    induction stack as [|c rest IH]; intros ret s Hret; cbn [ro_get_loop].
    - cbn [wp lpost]. destruct ret as [p|]; [apply Hret; reflexivity|split; auto].
    - unfold try_c at 1. apply wp_bind. eapply wp_mono; [|apply oz_f_get].
      assert (Hdrop : forall {B} (x : outcome B) s0, wp oz_step (match ret with Some p => quiet (CClose p) | None => skip end ;;; Ret x) (fun r _ => r = x) s0).
      { intros B x s0. destruct ret; cbn [skip quiet bind call1 wp]; [intros r; unfold after; cbn [oz_step wp]|]; reflexivity. }
      intros [[hfd|]|e|] s1 (H1 & H2).
      + destruct chk as [ck|] eqn:Hchk.
        * destruct ret as [prev|].
          -- (* compare with the first hit, rewind it, go on *)
             unfold try_c. apply wp_bind. eapply wp_mono; [|apply (chk_reads_its_arguments prev hfd)]. intros r1 s2 H3.
             assert (Hcl : forall (x : outcome (option nat)) s0, (match x with Ok _ => False | _ => True end) ->
                             wp oz_step ((quiet (CClose hfd) ;;; quiet (CClose prev)) ;;; Ret x) (fun r _ => r = x) s0).
             { intros x s0 Hx. cbn [quiet bind call1 wp]. intros r. unfold after. cbn [oz_step wp]. intros r2. unfold after. cbn [oz_step wp]. reflexivity. }
             destruct r1 as [u|e|]; [|eapply wp_mono; [|apply (Hcl (Err e) s2 I)]; intros r s3 ->; exact I|eapply wp_mono; [|apply (Hcl Panic s2 I)]; intros r s3 ->; exact I].
             apply wp_bind. unfold unit_call. cbn [bind call1 wp]. intros r2. unfold after. cbn [oz_step N.eqb].
             destruct r2 as [| | | | |e2]; cbn [wp].
             6: { eapply wp_mono; [|apply (Hcl (Err (OsErr e2)) s2 I)]. intros r s3 ->. exact I. }
             all: cbn [quiet bind call1 wp]; intros r3; unfold after; cbn [oz_step];
               (eapply wp_mono; [|apply (IH (Some prev)); intros p Hp; injection Hp as <-; apply clean_remove]);
               intros [[fdx|]|e3|] s3 H4; cbn [lpost] in *; auto; destruct H4 as (H4 & _); discriminate H4.
          -- (* the first hit of this loop *)
             eapply wp_mono; [|apply (IH (Some hfd)); intros p Hp; injection Hp as <-; exact H2].
             intros [[fdx|]|e3|] s3 H4; cbn [lpost] in *; auto. destruct H4 as (H4 & _). discriminate H4.
        * cbn [wp lpost]. exact H2.
      + eapply wp_mono; [|apply (IH ret s1); intros p Hp; apply H1, Hret, Hp].
        intros r s2 H3. exact (lpost_mono ret s s1 r s2 H1 H3).
      + eapply wp_mono; [|apply Hdrop]. intros r s2 ->. exact I.
      + eapply wp_mono; [|apply Hdrop]. intros r s2 ->. exact I.
  Qed.

  Theorem lookup_serves_from_the_start cfg k : s_checker cfg = chk -> forall s,
    wp oz_step (cache_get cfg k) (fun r s' => match r with Ok (Some fd) => clean fd s' | _ => True end) s.
  Proof.
    intros Hc s. unfold cache_get. rewrite Hc.
    assert (Hro : forall s0, wp oz_step (ro_get (s_readers cfg) chk k) (lpost None s0) s0).
    { intros s0. unfold ro_get. destruct (s_readers cfg); [cbn [wp lpost]; split; auto|]. apply oz_ro_loop. intros p Hp. discriminate Hp. }
    assert (Hro' : forall s0, wp oz_step (ro_get (s_readers cfg) chk k) (fun r s' => match r with Ok (Some fd) => clean fd s' | _ => True end) s0).
    { intros s0. eapply wp_mono; [|apply Hro]. intros [[fd|]|e|] s1 H; cbn [lpost] in H; auto. }
    destruct (s_writer cfg) as [w|]; [|apply Hro'].
    unfold try at 1. apply wp_bind. eapply wp_mono; [|apply oz_f_get].
    intros [[f|]|e|] s1 (H1 & H2); cbn [wp]; try exact I; [|apply Hro'].
    unfold with_checked. rewrite Hc. destruct chk as [ck|] eqn:Hchk.
    - unfold try, try_c. apply wp_bind. apply wp_bind. eapply wp_mono; [|apply Hro].
      intros [[rd|]|e|] s2 H3; cbn [lpost] in H3.
      + (* a read-side hit: compare, rewind the write-side handle *)
        apply wp_bind. eapply wp_mono; [|apply (chk_reads_its_arguments f rd)]. intros r1 s3 _.
        destruct r1 as [u|e|].
        * apply wp_bind. unfold unit_call. cbn [bind call1 wp]. intros r2. unfold after. cbn [oz_step N.eqb].
          destruct r2 as [| | | | |e2]; cbn [wp].
          6: { cbn [quiet bind call1 wp]. intros r3. unfold after. cbn [oz_step wp]. intros r4. unfold after. cbn [oz_step wp]. exact I. }
          all: cbn [quiet bind call1 wp]; intros r3; unfold after; cbn [oz_step wp]; apply clean_remove.
        * cbn [quiet bind call1 wp]. intros r3. unfold after. cbn [oz_step wp]. intros r4. unfold after. cbn [oz_step wp]. exact I.
        * cbn [quiet bind call1 wp]. intros r3. unfold after. cbn [oz_step wp]. intros r4. unfold after. cbn [oz_step wp]. exact I.
      + cbn [bind wp]. destruct H3 as (_ & H3). apply H3, H2.
      + cbn [quiet bind call1 wp]. intros r3. unfold after. cbn [oz_step wp]. exact I.
      + cbn [quiet bind call1 wp]. intros r3. unfold after. cbn [oz_step wp]. exact I.
    - cbn [try bind wp]. exact H2.
  Qed.
End Checker.

(** The model's checkers read only their arguments. *)
From Kismet Require Import Ops.Client.
Lemma read_all_dirties fd s : wp oz_step (read_all fd) (fun _ s' => forall x, x <> fd -> clean x s -> clean x s') s.
Proof.
  unfold read_all, quiet. cbn [bind call1 wp]. intros r. unfold after. cbn [oz_step wp]. intros r2. unfold after. cbn [oz_step wp].
  intros x Hx Hc [E|Hin]; [congruence|exact (Hc Hin)].
Qed.

Theorem model_checkers_read_their_arguments a b fail s :
  wp oz_step (chk_byteeq a b) (fun _ s' => forall x, x <> a -> x <> b -> clean x s -> clean x s') s /\
  wp oz_step (chk_count fail a b) (fun _ s' => forall x, x <> a -> x <> b -> clean x s -> clean x s') s.
Proof.
  split; unfold chk_byteeq, chk_count; (apply wp_bind; eapply wp_mono; [|apply read_all_dirties]; intros da s1 H1;
    apply wp_bind; eapply wp_mono; [|apply read_all_dirties]; intros db s2 H2; cbn [wp]; unfold after; cbn [oz_step wp]; intros x Ha Hb Hc; auto).
Qed.

Theorem serves_from_the_start_run cfg k w o : s_checker cfg = None ->
  let '(r, _, _, tr) := run (cache_get cfg k) w o in
  forall fd, r = Ok (Some fd) -> exists s', mon_run oz_step [] tr = Some s' /\ clean fd s'.
Proof.
  intros Hc. pose proof (wp_run oz_step _ _ [] w o (lookup_serves_from_the_start None I cfg k Hc [])) as H.
  destruct (run (cache_get cfg k) w o) as [[[r w'] o'] tr]. destruct H as (s' & Hm & HQ). intros fd ->. eauto.
Qed.
