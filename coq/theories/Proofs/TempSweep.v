(** The temp-directory sweep is complete.

    Relative to what it measures, for arbitrary environment responses:
    [cleanup_temporary_directory] stats EVERY entry the listing returned, in
    order, and each entry that stat shows older than the limit (relative to the
    clock reading taken before the scan) is IMMEDIATELY followed by the unlink of
    that very path; a successful sweep ends with no entry unmeasured and no stale
    measurement without its unlink.  (That nothing else is unlinked is [MaintScope].)

    In the kernel model, fault-free: every entry that was measured as a stale
    NON-DIRECTORY is unbound when the sweep returns - stale debris does go. *)
From Coq Require Import List NArith ZArith String Bool Arith Lia.
From Kismet Require Import Pure.Hash FS.Fs FS.Prog Spec.Wp Spec.ClassMon Ops.Ops Conc.Effect Proofs.PutNeverOverwrites
  Seq.Plain Seq.Steps Seq.Bind Seq.Sane.
Import ListNotations.
Local Open Scope Z_scope.

Section Sweep.
  Variable temp : path.

  Record wstate := mkW {
    w_thr : option Z;                 (* threshold = clock reading - limit *)
    w_todo : option (list string);    (* entries listed and not yet measured; None before the listing *)
    w_pend : option (path * bool);    (* measured stale (and: as a directory?), unlink not yet issued *)
    w_gone : list path                (* stale NON-DIRECTORY measurements whose unlink was issued *)
  }.

  Definition ws_step (s : wstate) (ev : event) : option wstate :=
    match ev with
    | EvNow t => match w_pend s with None => Some (mkW (Some (t - MAX_AGE_NS)) (w_todo s) None (w_gone s)) | Some _ => None end
    | EvCall c r =>
        match w_pend s with
        | Some (p, isdir) =>                          (* the very next call must be the unlink of [p] *)
            match c with
            | CUnlink q => if path_eqb q p then Some (mkW (w_thr s) (w_todo s) None (if isdir then w_gone s else p :: w_gone s)) else None
            | _ => None
            end
        | None =>
            match c, r with
            | CReadDir _, RNames l => Some (mkW (w_thr s) (Some l) None (w_gone s))
            | CStat p false, _ =>
                match w_todo s with
                | Some (n :: rest) =>
                    if path_eqb p (temp ++ [n]) then
                      Some (mkW (w_thr s) (Some rest)
                                (match r, w_thr s with
                                 | RStat st, Some thr => if (st_mtime st <? thr) then Some (p, st_dir st) else None
                                 | _, _ => None
                                 end) (w_gone s))
                    else None
                | _ => None
                end
            | CUnlink _, _ => None                       (* no unlink without a stale measurement *)
            | _, _ => match rebind_paths c with [] => Some s | _ => None end      (* nothing else may rebind a name *)
            end
        end
    | _ => Some s
    end.

  Lemma sweep_loop names thr : forall gone,
    wp ws_step (cleanup_temp_loop temp names thr)
       (fun _ s' => w_todo s' = Some [] /\ w_pend s' = None /\ w_thr s' = Some thr)
       (mkW (Some thr) (Some names) None gone).
  Proof.
    induction names as [|n rest IH]; intros gone; cbn [cleanup_temp_loop].
    - cbn [wp]. auto.
    - cbn [bind call1 wp]. intros r. unfold after. cbn [ws_step w_pend w_todo w_thr w_gone]. rewrite path_eqb_refl.
      destruct r as [| |st| | |e]; cbn [bind wp]; try apply IH.
      destruct (st_mtime st <? thr) eqn:Hst; cbn [bind wp quiet call1 skip].
      + intros r2. unfold after. cbn [ws_step w_pend]. rewrite path_eqb_refl. cbn [wp bind]. apply IH.
      + apply IH.
  Qed.

  Theorem sweep_is_complete : forall s0, w_pend s0 = None ->
    wp ws_step (cleanup_temporary_directory temp)
       (fun r s' => match r with
                    | Ok _ => w_pend s' = None /\ (w_todo s' = Some [] \/ w_todo s' = w_todo s0)
                    | _ => True
                    end) s0.
  Proof.
    intros [thr0 todo0 pend0 gone0] Hp0. cbn [w_pend] in Hp0. subst pend0.
    unfold cleanup_temporary_directory. cbn [wp]. intros t. unfold after. cbn [ws_step w_todo w_pend w_gone w_thr].
    destruct (t <? MAX_AGE_NS); [cbn [wp w_pend w_todo]; auto|].
    cbn [bind call1 wp]. intros r. unfold after. cbn [ws_step w_pend w_todo w_gone w_thr rebind_paths].
    destruct r as [|dh| | | |e]; cbn [bind wp w_pend w_todo]; auto.
    - intros l. unfold after. cbn [ws_step w_pend w_todo w_gone w_thr rebind_paths].
      destruct l as [| | | |names|e2]; cbn [bind wp skip].
      5: { apply wp_bind. eapply wp_mono; [|apply sweep_loop]. intros _ s1 (Ht & Hp & _).
           cbn [bind quiet call1 wp]. intros r3. unfold after. cbn [ws_step rebind_paths]. rewrite Hp. cbn [wp]. split; [exact Hp|left; exact Ht]. }
      all: cbn [quiet call1 bind wp]; intros r3; unfold after; cbn [ws_step w_pend wp w_todo rebind_paths]; auto.
    - destruct (is_absent (OsErr e)); cbn [w_pend w_todo]; auto.
  Qed.

  Theorem sweep_run w o s0 : w_pend s0 = None ->
    let '(r, _, _, tr) := run (cleanup_temporary_directory temp) w o in
    exists s', mon_run ws_step s0 tr = Some s' /\
      match r with Ok _ => w_pend s' = None /\ (w_todo s' = Some [] \/ w_todo s' = w_todo s0) | _ => True end.
  Proof.
    intros H0. pose proof (wp_run ws_step _ _ s0 w o (sweep_is_complete s0 H0)) as H.
    destruct (run (cleanup_temporary_directory temp) w o) as [[[r w'] o'] tr]. exact H.
  Qed.

  (** ** in the kernel model, fault-free: what was measured stale and is not a directory is gone *)
  Hypothesis Htemp : plainp temp = true.

  Lemma wp_wpv {S0 A} (m : S0 -> event -> option S0) (p : prog A) : forall (Q : A -> S0 -> Prop) s, wp m p Q s -> wpv m p Q s.
  Proof.
    unfold wpv.
    induction p as [a|c k IH|k IH|w k IH|n k IH|h i k IH|h i v k IH|k IH|t pl k IH]; intros Q s H; cbn [wp] in *.
    - exact H.
    - intros r. specialize (H r). unfold after in *. cbn [lift]. destruct (sane_ev (EvCall c r)); [|apply wp_void].
      destruct (m s (EvCall c r)) as [s1|]; [|destruct H]. cbn [option_map]. apply IH, H.
    - intros t. specialize (H t). unfold after in *. cbn [lift sane_ev]. destruct (m s (EvNow t)) as [s1|]; [|destruct H]. cbn [option_map]. apply IH, H.
    - intros b. specialize (H b). unfold after in *. cbn [lift sane_ev]. destruct (m s (EvTrigger w b)) as [s1|]; [|destruct H]. cbn [option_map]. apply IH, H.
    - intros x. specialize (H x). unfold after in *. cbn [lift sane_ev]. destruct (m s (EvRandShard n x)) as [s1|]; [|destruct H]. cbn [option_map]. apply IH, H.
    - intros x. apply IH, H.
    - apply IH, H.
    - intros x. specialize (H x). unfold after in *. cbn [lift sane_ev]. destruct (m s (EvFresh x)) as [s1|]; [|destruct H]. cbn [option_map]. apply IH, H.
    - unfold after in *. cbn [lift sane_ev]. destruct (m s (EvMark t pl)) as [s1|]; [|destruct H]. cbn [option_map]. apply IH, H.
  Qed.

  (** stat just said "a file, not a directory": the unlink of that path succeeds *)
  Lemma stat_file_then_unlink f e e' p st : plainp p = true -> p <> [] ->
    snd (sem f e (CStat p false)) = RStat st -> st_dir st = false -> snd (sem f e' (CUnlink p)) = ROk.
  Proof.
    intros Hp Hne. cbn [sem]. destruct (resolve f p) as [cp|er] eqn:Hr; [|discriminate].
    apply (resolve_plain f p cp Hp) in Hr. subst cp. destruct p as [|x q]; [congruence|].
    destruct (name_of f (x :: q)) as [i|]; [|discriminate]. unfold with_inode. destruct (inode_of f i) as [y|]; [|discriminate].
    cbn [snd]. intros H Hd. injection H as <-. cbn [stat_of st_dir] in Hd. rewrite Hd. reflexivity.
  Qed.

  Definition KI (s : wstate) (f : fs) : Prop :=
    (forall p, In p (w_gone s) -> plainp p = true /\ name_of f p = None) /\
    match w_todo s with Some l => forallb plain_comp l = true | None => True end /\
    match w_pend s with
    | Some (p, isdir) => plainp p = true /\ p <> [] /\ (isdir = false -> forall e, snd (sem f e (CUnlink p)) = ROk)
    | None => True
    end.

  Lemma KI_step s ev s' f f' : ws_step s ev = Some s' -> astep f ev f' -> names_plain f -> KI s f -> KI s' f'.
  Proof.
    intros Hm Ha Hpl (Hg & Ht & Hp).
    destruct ev as [c r|t|wt b|m z|fr|tg pl]; cbn [ws_step] in Hm.
    2: { destruct (w_pend s); [discriminate|]. injection Hm as <-. cbn [astep] in Ha. subst f'. unfold KI; cbn [w_gone w_todo w_pend]. split; [exact Hg|]. split; [exact Ht|exact I]. }
    2-5: injection Hm as <-; cbn [astep] in Ha; subst f'; (split; [exact Hg|split; [exact Ht|exact Hp]]).
    destruct Ha as (e & -> & Hr).
    assert (Hframe : forall q, plainp q = true -> name_of f q = None -> rebind_paths c = [] -> name_of (fst (sem f e c)) q = None).
    { intros q _ Hn Hnr. rewrite (sem_spares f e c q); [exact Hn|]. unfold spares. rewrite Hnr. reflexivity. }
    destruct (w_pend s) as [[p isdir]|] eqn:Hpend.
    - (* the unlink of the pending path *)
      destruct c; try discriminate. destruct (path_eqb p0 p) eqn:Hq; [|discriminate]. apply path_eqb_eq in Hq. subst p0. injection Hm as <-.
      destruct Hp as (Hp1 & Hp2 & Hp3).
      assert (Hothers : forall q, In q (w_gone s) -> plainp q = true /\ name_of (fst (sem f e (CUnlink p))) q = None).
      { intros q Hin. destruct (Hg q Hin) as (Hq1 & Hq2). split; [exact Hq1|].
        destruct (path_eq_dec p q) as [->|Hne].
        - pose proof (sem_res_unit f e (CUnlink q)) as Hu. change (snd (sem f e (CUnlink q)) = ROk \/ exists er, snd (sem f e (CUnlink q)) = RErr er) in Hu.
          destruct Hu as [Hu|(er & Hu)]; [apply unlink_effect; assumption|rewrite (sem_err_names f e (CUnlink q) er q Hu); exact Hq2].
        - rewrite (sem_spares f e (CUnlink p) q); [exact Hq2|]. unfold spares. cbn [rebind_paths forallb]. rewrite Hp1. cbn [andb]. rewrite andb_true_r.
          apply negb_true_iff. destruct (path_eqb p q) eqn:E; [apply path_eqb_eq in E; contradiction|reflexivity]. }
      unfold KI; cbn [w_gone w_todo w_pend]. split; [|split; [exact Ht|exact I]].
      destruct isdir; [exact Hothers|].
      intros q [<-|Hin]; [|exact (Hothers q Hin)].
      split; [exact Hp1|]. apply unlink_effect; [exact Hp1|apply Hp3; reflexivity].
    - (* no pending unlink *)
      assert (Hgone : forall s1, w_gone s1 = w_gone s -> rebind_paths c = [] -> forall q, In q (w_gone s1) -> plainp q = true /\ name_of (fst (sem f e c)) q = None).
      { intros s1 Hs1 Hnr q Hin. rewrite Hs1 in Hin. destruct (Hg q Hin) as (Hq1 & Hq2). split; [exact Hq1|apply Hframe; assumption]. }
      destruct c; cbn [rebind_paths] in Hm; try discriminate; try (injection Hm as Hs; subst s'; unfold KI; rewrite Hpend; split; [apply (Hgone s eq_refl eq_refl)|split; [exact Ht|exact I]]).
      + (* stat *)
        destruct follow; [injection Hm as Hs; subst s'; unfold KI; rewrite Hpend; split; [apply (Hgone s eq_refl eq_refl)|split; [exact Ht|exact I]]|].
        destruct (w_todo s) as [[|n rest]|] eqn:Htodo; try discriminate.
        destruct (path_eqb p (temp ++ [n])) eqn:Hq; [|discriminate]. apply path_eqb_eq in Hq. subst p. injection Hm as <-.
        cbn [forallb] in Ht. apply andb_true_iff in Ht. destruct Ht as (Hn & Hrest).
        assert (Hpp : plainp (temp ++ [n]) = true) by (rewrite plainp_app, Htemp; cbn [plainp forallb]; rewrite Hn; reflexivity).
        assert (Hfs : fst (sem f e (CStat (temp ++ [n]) false)) = f).
        { cbn [sem]. unfold with_inode. destruct (resolve f (temp ++ [n])) as [[|x cp]|]; try reflexivity. destruct (name_of f (x :: cp)) as [i|]; [|reflexivity]. destruct (inode_of f i); reflexivity. }
        rewrite Hfs. unfold KI; cbn [w_gone w_todo w_pend]. split; [exact Hg|]. split; [exact Hrest|].
        destruct r as [| |st| | |er]; try exact I. destruct (w_thr s) as [thr|]; [|exact I]. destruct (st_mtime st <? thr); [|exact I].
        split; [exact Hpp|]. split; [destruct temp; discriminate|]. intros Hd e'.
        apply (stat_file_then_unlink f e e' (temp ++ [n]) st Hpp); [destruct temp; discriminate|symmetry; exact Hr|exact Hd].
      + (* readdir *)
        destruct r as [| | | |l|er]; injection Hm as <-; unfold KI; rewrite ?Hpend; (split; [apply (Hgone s eq_refl eq_refl)|]); (split; [|exact I]); try exact Ht.
        cbn [w_todo]. symmetry in Hr. exact (readdir_plain f e dh l Hpl Hr).
  Qed.

  (** [s'] is the sweep monitor's state after the run's trace ([lift]: the monitor
      as is, as long as listings return plain names - which they do). *)
  Theorem stale_files_do_go w o : o_fault o = None -> names_plain (w_fs w) ->
    let '(r, w', _, tr) := run (cleanup_temporary_directory temp) w o in
    exists s', mon_run (lift ws_step) (Some (mkW None None None [])) tr = Some (Some s') /\
      (forall p, In p (w_gone s') -> name_of (w_fs w') p = None) /\
      match r with Ok _ => w_pend s' = None /\ (w_todo s' = Some [] \/ w_todo s' = None) | _ => True end.
  Proof.
    intros Hnf Hpl.
    pose proof (sane_run_nf_tr ws_step (cleanup_temporary_directory temp) _ (mkW None None None []) KI
                  (wp_wpv ws_step _ _ _ (sweep_is_complete (mkW None None None []) eq_refl)) KI_step w o Hnf Hpl
                  (conj (fun p (H : In p []) => match H with end) (conj I I))) as H.
    destruct (run (cleanup_temporary_directory temp) w o) as [[[r w'] o'] tr].
    destruct H as (s' & Hm & HQ & (Hg & _) & _). exists s'. split; [exact Hm|]. split; [intros p Hin; exact (proj2 (Hg p Hin))|exact HQ].
  Qed.
End Sweep.
