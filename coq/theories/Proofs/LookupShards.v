(** Where a sharded directory is looked up.  For arbitrary environment responses, a
    lookup or a touch of a key in a sharded directory names exactly two paths and
    no other: the key's name inside the shard directory of its primary candidate
    and inside that of its secondary candidate, the candidates being
    [shard_ids hash secondary n] (Props/C12: a closed function of the two hashes and
    the shard count).  No other shard directory, no top-level file, no listing. *)
From Coq Require Import List NArith ZArith String Bool Arith Lia.
From Kismet Require Import Pure.Hash FS.Fs FS.Prog Spec.Wp Spec.ClassMon Spec.Calm Ops.Ops.
Import ListNotations.

(** every path a call names satisfies [okp]; descriptor calls name none *)
Definition paths_ok (okp : path -> bool) (c : call) : bool :=
  match c with
  | COpen p _ | CCreate p _ | CCreateTrunc p _ | COpenTmp p | CStat p _ | CChmod p _ | CUnlink p | CMkdir p | COpenDir p => okp p
  | CRename p q | CLink p q => (okp p && okp q)%bool
  | _ => true
  end.

Definition one_of (p1 p2 : path) (p : path) : bool := (path_eqb p p1 || path_eqb p p2)%bool.

Lemma path_eqb_refl x : path_eqb x x = true.
Proof. unfold path_eqb. destruct (path_eq_dec x x); [reflexivity|contradiction]. Qed.

Section TwoPaths.
  Variables p1 p2 : path.
  Notation cls := (paths_ok (one_of p1 p2)).

  Lemma tp_fd_calls fd a m : cls (CFstat fd) = true /\ cls (CFutimens fd a m) = true /\ cls (CClose fd) = true.
  Proof. repeat split. Qed.

  Lemma tp_open1 a : cls (COpen p1 a) = true.
  Proof. cbn [paths_ok]. unfold one_of. rewrite path_eqb_refl. reflexivity. Qed.
  Lemma tp_open2 a : cls (COpen p2 a) = true.
  Proof. cbn [paths_ok]. unfold one_of. rewrite path_eqb_refl. apply orb_true_r. Qed.

  Lemma allc_call_then {B} c (f : res -> B) : cls c = true -> allc cls (r <- call1 c ;; Ret (f r)) (fun _ => True).
  Proof. intros H. eapply allc_bind; [apply allc_call; exact H|]. intros r _. exact I. Qed.

  Lemma tp_ensure_file_touched fd : allc cls (ensure_file_touched fd) anyc.
  Proof.
    unfold ensure_file_touched, try, stat_call.
    eapply allc_bind. { apply allc_call_then; reflexivity. }
    intros [st|e|] _; try exact I.
    destruct (st_atime st <? st_mtime st)%Z; [|exact I].
    unfold unit_call. eapply allc_weaken; [apply allc_call_then; reflexivity|intros; exact I].
  Qed.

  Lemma tp_cd_get_at (p : path) d name : cd_base d ++ [name] = p -> cls (COpen p RDONLY) = true ->
    allc cls (cd_get d name) anyc.
  Proof.
    intros Hp Hc. unfold cd_get. destruct (validate name); try exact I.
    rewrite Hp. eapply allc_bind; [apply allc_call; exact Hc|]. intros r _.
    destruct r as [|fd| | | |e]; try exact I.
    eapply allc_bind; [apply tp_ensure_file_touched|]. intros; exact I.
  Qed.

  Lemma tp_go fd a m : allc cls (x <- unit_call (CFutimens fd a m) ;; quiet (CClose fd) ;;; Ret x) anyc.
  Proof.
    unfold unit_call, quiet.
    eapply allc_bind. { apply allc_call_then; reflexivity. }
    intros x _. eapply allc_bind. { apply allc_call_then; reflexivity. }
    intros; exact I.
  Qed.

  Lemma tp_set_times_at p a m : cls (COpen p RDONLY) = true -> cls (COpen p WRONLY) = true -> allc cls (set_times p a m) anyc.
  Proof.
    intros H1 H2. unfold set_times. eapply allc_bind; [apply allc_call; exact H1|]. intros r _. cbv zeta.
    destruct r as [|fd| | | |e]; [|apply tp_go| | | |];
      (eapply allc_bind; [apply allc_call; exact H2|]; intros r2 _; destruct r2 as [|fd2| | | |e2]; first [exact I|apply tp_go]).
  Qed.

  Lemma tp_cd_touch_at (p : path) d name : cd_base d ++ [name] = p -> cls (COpen p RDONLY) = true -> cls (COpen p WRONLY) = true ->
    allc cls (cd_touch d name) anyc.
  Proof.
    intros Hp H1 H2. unfold cd_touch. destruct (validate name); try exact I.
    rewrite Hp. unfold touch. apply allc_now. intros t.
    eapply allc_bind; [apply (tp_set_times_at p (Some t) None H1 H2)|]. intros; exact I.
  Qed.
End TwoPaths.

Theorem sharded_lookups_name_two_paths dir n t k :
  let '(a, b) := shard_ids (k_hash k) (k_sec k) n in
  let p1 := (dir ++ [format_id a]) ++ [k_name k] in
  let p2 := (dir ++ [format_id b]) ++ [k_name k] in
  allc (paths_ok (one_of p1 p2)) (sh_get dir n t k) anyc /\ allc (paths_ok (one_of p1 p2)) (sh_touch dir n t k) anyc.
Proof.
  unfold sh_get, sh_touch. destruct (shard_ids (k_hash k) (k_sec k) n) as [a b].
  set (p1 := (dir ++ [format_id a]) ++ [k_name k]). set (p2 := (dir ++ [format_id b]) ++ [k_name k]).
  split.
  - unfold try. eapply allc_bind; [apply (tp_cd_get_at p1 p2 p1); [reflexivity|apply tp_open1]|].
    intros [[fd|]|e|] _; try exact I. apply (tp_cd_get_at p1 p2 p2); [reflexivity|apply tp_open2].
  - unfold try. eapply allc_bind; [apply (tp_cd_touch_at p1 p2 p1); [reflexivity|apply tp_open1|apply tp_open1]|].
    intros [[|]|e|] _; try exact I. apply (tp_cd_touch_at p1 p2 p2); [reflexivity|apply tp_open2|apply tp_open2].
Qed.

Theorem sharded_lookups_name_two_paths_run dir n t k w o :
  let '(a, b) := shard_ids (k_hash k) (k_sec k) n in
  let p1 := (dir ++ [format_id a]) ++ [k_name k] in
  let p2 := (dir ++ [format_id b]) ++ [k_name k] in
  let '(_, _, _, tr) := run (sh_get dir n t k) w o in
  Forall (fun ev => match ev with EvCall c _ => paths_ok (one_of p1 p2) c = true | _ => True end) tr.
Proof.
  pose proof (sharded_lookups_name_two_paths dir n t k) as H.
  destruct (shard_ids (k_hash k) (k_sec k) n) as [a b]. cbv zeta in *. destruct H as [H _].
  pose proof (allc_run _ _ _ H w o) as Hr. destruct (run (sh_get dir n t k) w o) as [[[r w'] o'] tr]. exact (proj2 Hr).
Qed.

Lemma two_paths_meaning p1 p2 q a : q <> p1 -> q <> p2 ->
  paths_ok (one_of p1 p2) (COpen q a) = false /\ paths_ok (one_of p1 p2) (COpenDir q) = false /\ paths_ok (one_of p1 p2) (CStat q true) = false.
Proof.
  intros H1 H2. cbn [paths_ok]. unfold one_of, path_eqb.
  destruct (path_eq_dec q p1); [contradiction|]. destruct (path_eq_dec q p2); [contradiction|]. repeat split.
Qed.
