(** Lookups report errors: for stacks of any depth and arbitrary environment
    responses, a lookup that returns a result - a hit or a miss - has received no
    error other than an absence (NotFound / stale handle) at any of its read-only
    opens: an I/O error, a permission error, descriptor exhaustion at ANY level
    surfaces as an error of the lookup, it is never turned into a miss or skipped. *)
From Coq Require Import List NArith ZArith String Bool Arith Lia.
From Kismet Require Import Pure.Hash FS.Fs FS.Prog Spec.Wp Spec.ClassMon Spec.Calm Ops.Ops Proofs.LookupOrder.
Import ListNotations.

(** state: "a read-only open was answered with an error that is not an absence" *)
Definition le_step (s : bool) (ev : event) : option bool :=
  match ev with
  | EvCall (COpen _ RDONLY) (RErr e) => Some (s || negb (is_absent (OsErr e)))%bool
  | _ => Some s
  end.

Definition lr {A} (p : prog (outcome A)) : Prop :=
  forall s, wp le_step p (fun r s' => match r with Ok _ => s' = s | _ => True end) s.

Lemma le_total s ev : exists s1, le_step s ev = Some s1.
Proof. destruct ev as [c r| | | | | ]; cbn [le_step]; eauto. destruct c; eauto. destruct a, r; eauto. Qed.

(** programs that open nothing read-only leave the state alone *)
Lemma le_frame {A} (p : prog A) (Q : A -> Prop) : allc nopen p Q -> forall s, wp le_step p (fun _ s' => s' = s) s.
Proof.
  unfold allc.
  induction p as [a|c k IH|k IH|w k IH|n k IH|h i k IH|h i v k IH|k IH|t pl k IH]; cbn [wp]; unfold after; cbn [k_step]; intros H s; auto.
  - intros r. specialize (H r). destruct (nopen c) eqn:Hc; [|contradiction].
    assert (Hs : le_step s (EvCall c r) = Some s) by (destruct c; try reflexivity; destruct a; try reflexivity; discriminate Hc).
    rewrite Hs. apply IH, H.
  - intros t. cbn [le_step]. apply IH, H.
  - intros b. cbn [le_step]. apply IH, H.
  - intros x. cbn [le_step]. apply IH, H.
  - intros x. cbn [le_step]. apply IH, H.
  - cbn [le_step]. apply IH, H.
Qed.

Lemma lr_ret {A} (r : outcome A) : lr (Ret r).
Proof. intros s. cbn [wp]. destruct r; auto. Qed.

Lemma lr_try {A B} (p : prog (outcome A)) (f : A -> prog (outcome B)) : lr p -> (forall a, lr (f a)) -> lr (try p f).
Proof.
  intros Hp Hf s. unfold try. apply wp_bind. eapply wp_mono; [|apply Hp].
  intros [a|e|] s1 H1; cbn [wp]; auto. subst s1. apply Hf.
Qed.

Lemma le_any {A} (p : prog A) : forall s, wp le_step p (fun _ _ => True) s.
Proof.
  induction p as [a|c k IH|k IH|w k IH|n k IH|h i k IH|h i v k IH|k IH|t pl k IH]; cbn [wp]; unfold after; intros s; auto.
  - intros r. destruct (le_total s (EvCall c r)) as (s1 & ->). apply IH.
  - intros t. cbn [le_step]. apply IH.
  - intros b. cbn [le_step]. apply IH.
  - intros x. cbn [le_step]. apply IH.
  - intros x. cbn [le_step]. apply IH.
  - cbn [le_step]. apply IH.
Qed.

Lemma lr_try_c {A B} (p : prog (outcome A)) (cl : prog unit) (f : A -> prog (outcome B)) : lr p -> (forall a, lr (f a)) -> lr (try_c p cl f).
Proof.
  intros Hp Hf s. unfold try_c. apply wp_bind. eapply wp_mono; [|apply Hp].
  intros [a|e|] s1 H1.
  - subst s1. apply Hf.
  - apply wp_bind. eapply wp_mono; [|apply le_any]. intros _ s2 _. cbn [wp]. exact I.
  - apply wp_bind. eapply wp_mono; [|apply le_any]. intros _ s2 _. cbn [wp]. exact I.
Qed.

Lemma lr_cd_get d name : lr (cd_get d name).
Proof.
  intros s. unfold cd_get. destruct (validate name); cbn [wp]; auto.
  cbn [bind call1 wp]. intros r. unfold after. cbn [le_step].
  destruct r as [|fd| | | |e]; cbn [bind wp]; auto.
  - apply wp_bind. eapply wp_mono; [|apply (le_frame _ _ (touched_nopen fd))]. intros x0 s1 ->. cbn [wp]. reflexivity.
  - destruct (is_absent (OsErr e)) eqn:Ha; cbn [negb orb wp]; [rewrite orb_false_r; reflexivity|exact I].
Qed.

Lemma lr_f_get f k : lr (f_get f k).
Proof.
  destruct f as [dir cap|dir n t]; cbn [f_get]; [apply lr_cd_get|].
  unfold sh_get. destruct (shard_ids _ _ _) as [h1 h2]. apply lr_try; [apply lr_cd_get|]. intros [fd|]; [apply lr_ret|apply lr_cd_get].
Qed.

Lemma lr_ro_get_loop stack k : forall ret, lr (ro_get_loop stack None k ret).
Proof.
  induction stack as [|c rest IH]; intros ret; cbn [ro_get_loop]; [apply lr_ret|].
  apply lr_try_c; [apply lr_f_get|]. intros [hfd|]; [apply lr_ret|apply IH].
Qed.

Theorem lookups_report_errors cfg k : s_checker cfg = None -> lr (cache_get cfg k).
Proof.
  intros Hc. unfold cache_get. rewrite Hc.
  assert (Hro : lr (ro_get (s_readers cfg) None k)) by (unfold ro_get; destruct (s_readers cfg); [apply lr_ret|apply lr_ro_get_loop]).
  destruct (s_writer cfg) as [w|]; [|exact Hro].
  apply lr_try; [apply lr_f_get|]. intros [f|]; [|exact Hro].
  unfold with_checked. rewrite Hc. apply lr_try; [apply lr_ret|]. intros f'. apply lr_ret.
Qed.

Theorem lookups_report_errors_run cfg k w o : s_checker cfg = None ->
  let '(r, _, _, tr) := run (cache_get cfg k) w o in
  match r with Ok _ => mon_run le_step false tr = Some false | _ => True end.
Proof.
  intros Hc. pose proof (wp_run le_step _ _ false w o (lookups_report_errors cfg k Hc false)) as H.
  destruct (run (cache_get cfg k) w o) as [[[r w'] o'] tr]. destruct H as (s' & Hm & HQ). destruct r; auto. rewrite Hm, HQ. reflexivity.
Qed.
