(** Lookup order of stacked caches, for stacks of ANY depth and any mix of plain
    and sharded levels, for arbitrary environment responses.

    A level consults its entry paths in a fixed order (plain: the entry; sharded:
    the primary shard's entry, then - only after a miss - the secondary's).  The
    monitor is given the whole itinerary - the write cache's level, then the
    read-only levels in registration order - and accepts a read-only open only if
    it names the next path of the itinerary; a hit ends the level.  Without a
    checker it accepts NO open after the first hit.  Theorems: [cache_get]
    follows the itinerary; a successful lookup returns the FIRST handle obtained
    on it, a miss means the whole itinerary was walked without one; with a checker
    (that opens nothing by path itself) success means the whole itinerary was
    walked - every redundant copy was seen - and the handle returned is still the
    first. *)
From Coq Require Import List NArith ZArith String Bool Arith Lia.
From Kismet Require Import Pure.Hash FS.Fs FS.Prog Spec.Wp Spec.ClassMon Spec.Calm Ops.Ops Proofs.PutNeverOverwrites.
Import ListNotations.

Definition front_paths (f : front) (k : key) : list path :=
  match f with
  | FPlain dir _ => [dir ++ [k_name k]]
  | FSharded dir n t =>
      let '(h1, h2) := shard_ids (k_hash k) (k_sec k) n in
      [(dir ++ [format_id h1]) ++ [k_name k]; (dir ++ [format_id h2]) ++ [k_name k]]
  end.

Definition itinerary (cfg : stack_cfg) (k : key) : list (list path) :=
  match s_writer cfg with Some w => [front_paths w k] | None => [] end ++ map (fun f => front_paths f k) (s_readers cfg).

Definition lstate := (list (list path) * option nat)%type.

Definition first_of (found : option nat) (fd : nat) : option nat := match found with Some f => Some f | None => Some fd end.

Definition lo_step (all : bool) (s : lstate) (ev : event) : option lstate :=
  match ev with
  | EvCall (COpen p RDONLY) r =>
      match fst s with
      | (q :: alts) :: rest =>
          if path_eqb p q then
            let todo' := match r with
                         | RFd _ => rest
                         | _ => match alts with [] => rest | _ => alts :: rest end
                         end in
            match snd s, r with
            | None, RFd fd => Some (todo', Some fd)
            | None, _ => Some (todo', None)
            | Some f, _ => if all then Some (todo', Some f) else None
            end
          else None
      | _ => None
      end
  | _ => Some s
  end.

(** programs that open nothing read-only by path leave the monitor alone *)
Definition nopen (c : call) : bool := match c with COpen _ RDONLY => false | _ => true end.

Lemma frame_nopen all {A} (p : prog A) (Q : A -> Prop) :
  allc nopen p Q -> forall s, wp (lo_step all) p (fun a s' => Q a /\ s' = s) s.
Proof.
  unfold allc.
  induction p as [a|c k IH|k IH|w k IH|n k IH|h i k IH|h i v k IH|k IH|t pl k IH]; cbn [wp]; unfold after; cbn [k_step]; intros H s; auto.
  - intros r. specialize (H r). destruct (nopen c) eqn:Hc; [|contradiction].
    assert (Hs : lo_step all s (EvCall c r) = Some s) by (destruct c; try reflexivity; destruct a; try reflexivity; discriminate Hc).
    rewrite Hs. apply IH, H.
  - intros t. cbn [lo_step]. apply IH, H.
  - intros b. cbn [lo_step]. apply IH, H.
  - intros x. cbn [lo_step]. apply IH, H.
  - intros x. cbn [lo_step]. apply IH, H.
  - cbn [lo_step]. apply IH, H.
Qed.

#[local] Hint Extern 1 (nopen _ = true) => reflexivity : allc.
#[local] Hint Resolve allc_call : allc.

Lemma touched_nopen fd : allc nopen (ensure_file_touched fd) anyc.
Proof. unfold ensure_file_touched, try, stat_call, unit_call. allc_auto. Qed.
Lemma quiet_nopen c : nopen c = true -> allc nopen (quiet c) anyc.
Proof. intros H. unfold quiet. allc_auto. Qed.

(** what a level's lookup does to the monitor state *)
Definition lpost (rest : list (list path)) (found : option nat) (r : outcome (option nat)) (s' : lstate) : Prop :=
  match r with
  | Ok (Some fd) => s' = (rest, first_of found fd)
  | Ok None => s' = (rest, found)
  | _ => True
  end.

Definition after_miss (alts : list path) (rest : list (list path)) : list (list path) :=
  match alts with [] => rest | _ => alts :: rest end.

Lemma lo_cd_get all d name alts rest found : (all = true \/ found = None) ->
  wp (lo_step all) (cd_get d name)
     (fun r s' => match r with
                  | Ok (Some fd) => s' = (rest, first_of found fd)
                  | Ok None => s' = (after_miss alts rest, found)
                  | _ => True
                  end) (((cd_base d ++ [name]) :: alts) :: rest, found).
Proof.
  intros Hm. unfold cd_get. destruct (validate name); cbn [wp]; auto.
  cbn [bind call1 wp]. intros r. unfold after. cbn [lo_step fst snd]. rewrite path_eqb_refl.
  assert (Htouched : forall fd s, wp (lo_step all) (_ <- ensure_file_touched fd ;; Ret (Ok (Some fd))) (fun r0 s' => r0 = Ok (Some fd) /\ s' = s) s).
  { intros fd s. apply wp_bind. eapply wp_mono; [|apply (frame_nopen all _ _ (touched_nopen fd))]. intros x s' (_ & ->). cbn [wp]. auto. }
  destruct found as [f|]; [destruct Hm as [-> | Hm]; [|discriminate]|]; destruct r as [|fd| | | |e]; cbn [bind wp first_of]; auto.
  - eapply wp_mono; [|apply Htouched]. intros r0 s' (-> & ->). reflexivity.
  - destruct (is_absent (OsErr e)); cbn [wp]; auto.
  - eapply wp_mono; [|apply Htouched]. intros r0 s' (-> & ->). reflexivity.
  - destruct (is_absent (OsErr e)); cbn [wp]; auto.
Qed.

Lemma lo_f_get all f k rest found : (all = true \/ found = None) ->
  wp (lo_step all) (f_get f k) (lpost rest found) (front_paths f k :: rest, found).
Proof.
  intros Hm. destruct f as [dir cap|dir n t]; cbn [f_get front_paths].
  - eapply wp_mono; [|apply (lo_cd_get all (plain_cdir dir cap) (k_name k) [] rest found Hm)].
    intros [[fd|]|e|] s' H; cbn [lpost]; auto.
  - unfold sh_get. destruct (shard_ids (k_hash k) (k_sec k) n) as [h1 h2]. unfold try. apply wp_bind.
    eapply wp_mono; [|apply (lo_cd_get all (shard_cdir dir n t h1) (k_name k) [(dir ++ [format_id h2]) ++ [k_name k]] rest found Hm)].
    intros [[fd|]|e|] s' H; cbn [wp lpost]; auto. subst s'. cbn [after_miss].
    eapply wp_mono; [|apply (lo_cd_get all (shard_cdir dir n t h2) (k_name k) [] rest found Hm)].
    intros [[fd|]|e|] s' H; cbn [lpost]; auto.
Qed.

(** ** without a checker: stop at the first hit *)
Lemma lo_ro_loop_none stack k : forall rest,
  wp (lo_step false) (ro_get_loop stack None k None)
     (fun r s' => match r with
                  | Ok (Some fd) => snd s' = Some fd
                  | Ok None => s' = (rest, None)
                  | _ => True
                  end) (map (fun f => front_paths f k) stack ++ rest, None).
Proof.
  induction stack as [|c stack IH]; intros rest; cbn [ro_get_loop map app].
  - cbn [wp]. reflexivity.
  - unfold try_c. apply wp_bind.
    eapply wp_mono; [|apply (lo_f_get false c k (map (fun f => front_paths f k) stack ++ rest) None (or_intror eq_refl))].
    intros [[fd|]|e|] s' H; cbn [lpost first_of] in H.
    + subst s'. cbn [wp]. reflexivity.
    + subst s'. apply IH.
    + cbn [skip bind wp]. exact I.
    + cbn [skip bind wp]. exact I.
Qed.

Theorem lookup_order_no_checker cfg k : s_checker cfg = None ->
  wp (lo_step false) (cache_get cfg k)
     (fun r s' => match r with
                  | Ok (Some fd) => snd s' = Some fd
                  | Ok None => s' = ([], None)
                  | _ => True
                  end) (itinerary cfg k, None).
Proof.
  intros Hc. unfold cache_get, itinerary. rewrite Hc.
  assert (Hro : forall rest, wp (lo_step false) (ro_get (s_readers cfg) None k)
            (fun r s' => match r with Ok (Some fd) => snd s' = Some fd | Ok None => s' = (rest, None) | _ => True end)
            (map (fun f => front_paths f k) (s_readers cfg) ++ rest, None)).
  { intros rest. unfold ro_get. destruct (s_readers cfg) as [|c st] eqn:Hr; [cbn [map app wp]; reflexivity|]. apply lo_ro_loop_none. }
  destruct (s_writer cfg) as [w|]; cbn [app].
  - unfold try. apply wp_bind.
    eapply wp_mono; [|apply (lo_f_get false w k (map (fun f => front_paths f k) (s_readers cfg)) None (or_intror eq_refl))].
    intros [[fd|]|e|] s' H; cbn [lpost first_of] in H; cbn [wp]; auto.
    + subst s'. unfold with_checked. rewrite Hc. cbn [bind wp]. reflexivity.
    + subst s'. specialize (Hro []). rewrite app_nil_r in Hro. exact Hro.
  - specialize (Hro []). rewrite app_nil_r in Hro. exact Hro.
Qed.

(** ** with a checker: the whole itinerary is walked *)
Section Checked.
  Variable ck : checker.
  Hypothesis ck_nopen : forall a b, allc nopen (ck a b) anyc.

  Lemma lo_ro_loop_all stack k : forall rest ret fnd, (fnd = None -> ret = None) ->
    wp (lo_step true) (ro_get_loop stack (Some ck) k ret)
       (fun r s' => match r with
                    | Ok x => s' = (rest, match fnd with Some f => Some f | None => x end) /\ (forall p, ret = Some p -> x = Some p)
                    | _ => True
                    end) (map (fun f => front_paths f k) stack ++ rest, fnd).
  Proof.
    induction stack as [|c stack IH]; intros rest ret fnd Hrel; cbn [ro_get_loop map app].
    - cbn [wp]. split; [|auto]. destruct fnd; [reflexivity|]. rewrite (Hrel eq_refl). reflexivity.
    - unfold try_c at 1. apply wp_bind.
      eapply wp_mono; [|apply (lo_f_get true c k (map (fun f => front_paths f k) stack ++ rest) fnd (or_introl eq_refl))].
      assert (Hdrop : forall e s, wp (lo_step true) (match ret with Some p => quiet (CClose p) | None => skip end ;;; Ret (@Err (option nat) e)) (fun r _ => r = Err e) s).
      { intros e s. destruct ret; cbn [skip quiet bind call1 wp]; [intros r; unfold after; cbn [lo_step wp]|]; reflexivity. }
      assert (Hdropp : forall s, wp (lo_step true) (match ret with Some p => quiet (CClose p) | None => skip end ;;; Ret (@Panic (option nat))) (fun r _ => r = Panic) s).
      { intros s. destruct ret; cbn [skip quiet bind call1 wp]; [intros r; unfold after; cbn [lo_step wp]|]; reflexivity. }
      intros [[hfd|]|e|] s' H; cbn [lpost] in H;
        [| |eapply wp_mono; [|apply Hdrop]; intros a s2 ->; exact I|eapply wp_mono; [|apply Hdropp]; intros a s2 ->; exact I].
      + subst s'. destruct ret as [prev|].
        * (* a later hit: compare with the first, go on *)
          assert (Hf : exists f, fnd = Some f) by (destruct fnd as [f|]; [eauto|discriminate (Hrel eq_refl)]).
          destruct Hf as (f & ->). cbn [first_of].
          unfold try_c. apply wp_bind.
          eapply wp_mono; [|apply (frame_nopen true _ _ (ck_nopen prev hfd))]. intros r1 s1 (_ & ->).
          assert (Hcl : forall (x : outcome (option nat)) s, wp (lo_step true) ((quiet (CClose hfd) ;;; quiet (CClose prev)) ;;; Ret x)
                          (fun r _ => match r with Ok _ => x = r | _ => True end) s).
          { intros x s. cbn [quiet bind call1 wp]. intros r. unfold after. cbn [lo_step]. cbn [wp]. intros r2. unfold after. cbn [lo_step wp]. destruct x; auto. }
          destruct r1 as [u|e|]; [|eapply wp_mono; [|apply Hcl]; intros [x|e2|] s2 Hx; auto; discriminate Hx|eapply wp_mono; [|apply Hcl]; intros [x|e2|] s2 Hx; auto; discriminate Hx].
          apply wp_bind. unfold unit_call. cbn [bind call1 wp]. intros r2. unfold after. cbn [lo_step wp].
          destruct r2 as [| | | | |e2]; cbn [wp].
          6: { eapply wp_mono; [|apply Hcl]. intros [x|e3|] s2 Hx; auto. discriminate Hx. }
          all: cbn [quiet bind call1 wp]; intros r3; unfold after; cbn [lo_step];
            (eapply wp_mono; [|apply (IH rest (Some prev) (Some f))]; [|discriminate]);
            intros [x|e3|] s2 Hx; auto.
        * (* the first hit of this loop *)
          eapply wp_mono; [|apply (IH rest (Some hfd) (first_of fnd hfd))]; [|destruct fnd; discriminate].
          intros [x|e|] s2 Hx; auto. destruct Hx as (Hs & Hret). split; [|intros p Hp; discriminate Hp].
          rewrite Hs. destruct fnd as [f|]; cbn [first_of]; [reflexivity|]. rewrite (Hret hfd eq_refl). reflexivity.
      + subst s'. apply IH. exact Hrel.
  Qed.

  Theorem lookup_order_checked cfg k : s_checker cfg = Some ck ->
    wp (lo_step true) (cache_get cfg k)
       (fun r s' => match r with Ok x => s' = ([], x) | _ => True end) (itinerary cfg k, None).
  Proof.
    intros Hc. unfold cache_get, itinerary. rewrite Hc.
    assert (Hro : forall fnd, wp (lo_step true) (ro_get (s_readers cfg) (Some ck) k)
              (fun r s' => match r with Ok x => s' = ([], match fnd with Some f => Some f | None => x end) | _ => True end)
              (map (fun f => front_paths f k) (s_readers cfg), fnd)).
    { intros fnd. unfold ro_get. destruct (s_readers cfg) as [|c st] eqn:Hr; [cbn [map wp]; destruct fnd; reflexivity|].
      pose proof (lo_ro_loop_all (c :: st) k [] None fnd (fun _ => eq_refl)) as H. rewrite app_nil_r in H.
      eapply wp_mono; [|exact H]. intros [x|e|] s' Hx; auto. exact (proj1 Hx). }
    destruct (s_writer cfg) as [w|]; cbn [app]; [|exact (Hro None)].
    unfold try at 1. apply wp_bind.
    eapply wp_mono; [|apply (lo_f_get true w k (map (fun f => front_paths f k) (s_readers cfg)) None (or_introl eq_refl))].
    intros [[f|]|e|] s' H; cbn [lpost first_of] in H; cbn [wp]; auto; subst s'; [|exact (Hro None)].
    unfold with_checked. rewrite Hc. unfold try, try_c. apply wp_bind. apply wp_bind.
    eapply wp_mono; [|apply (Hro (Some f))].
    assert (Hq : forall c s, nopen c = true -> wp (lo_step true) (quiet c) (fun _ s' => s' = s) s).
    { intros c s Hn. eapply wp_mono; [|apply (frame_nopen true _ _ (quiet_nopen c Hn))]. intros a s' (_ & ->). reflexivity. }
    intros [[rd|]|e|] s1 Hs1.
    - subst s1. apply wp_bind.
      eapply wp_mono; [|apply (frame_nopen true _ _ (ck_nopen f rd))]. intros r1 s2 (_ & ->).
      destruct r1 as [u|e|].
      + apply wp_bind. unfold unit_call. cbn [bind call1 wp]. intros r2. unfold after. cbn [lo_step wp].
        destruct r2 as [| | | | |e2]; cbn [wp].
        6: { cbn [quiet bind call1 wp]. intros r3. unfold after. cbn [lo_step wp]. intros r4. unfold after. cbn [lo_step wp]. exact I. }
        all: cbn [quiet bind call1 wp]; intros r3; unfold after; cbn [lo_step wp]; reflexivity.
      + cbn [quiet bind call1 wp]. intros r3. unfold after. cbn [lo_step wp]. intros r4. unfold after. cbn [lo_step wp]. exact I.
      + cbn [quiet bind call1 wp]. intros r3. unfold after. cbn [lo_step wp]. intros r4. unfold after. cbn [lo_step wp]. exact I.
    - subst s1. cbn [bind wp]. reflexivity.
    - cbn [quiet bind call1 wp]. intros r3. unfold after. cbn [lo_step wp]. exact I.
    - cbn [quiet bind call1 wp]. intros r3. unfold after. cbn [lo_step wp]. exact I.
  Qed.
End Checked.

(** On every sequential run. *)
Theorem lookup_order_run cfg k w o : s_checker cfg = None ->
  let '(r, _, _, tr) := run (cache_get cfg k) w o in
  exists s', mon_run (lo_step false) (itinerary cfg k, None) tr = Some s' /\
    match r with Ok (Some fd) => snd s' = Some fd | Ok None => s' = ([], None) | _ => True end.
Proof.
  intros Hc. pose proof (wp_run (lo_step false) (cache_get cfg k) _ (itinerary cfg k, None) w o (lookup_order_no_checker cfg k Hc)) as H.
  destruct (run (cache_get cfg k) w o) as [[[r w'] o'] tr]. exact H.
Qed.

(** * touch: marks the first copy found, and no other *)
Definition flat_itinerary (cfg : stack_cfg) (k : key) : list path := List.concat (itinerary cfg k).

Definition tstate := (list path * bool)%type.       (* paths still to try; "a copy was marked" *)

Definition to_step (s : tstate) (ev : event) : option tstate :=
  match ev with
  | EvCall (COpen p RDONLY) _ =>
      if snd s then None
      else match fst s with
           | q :: rest => if path_eqb p q then Some (rest, false) else None
           | [] => None
           end
  | EvCall (CFutimens _ (Some _) None) r => match r with RErr _ => Some s | _ => Some (fst s, true) end
  | _ => Some s
  end.

Definition tpost (rest : list path) (r : outcome bool) (s' : tstate) : Prop :=
  match r with
  | Ok true => snd s' = true
  | Ok false => s' = (rest, false)
  | _ => True
  end.

Lemma to_touch p rest : wp to_step (touch p) (tpost rest) (p :: rest, false).
Proof.
  unfold touch. cbn [wp]. intros t. unfold after. cbn [to_step].
  apply wp_bind. unfold set_times. cbn [bind call1 wp]. intros r. unfold after. cbn [to_step fst snd]. rewrite path_eqb_refl.
  assert (Hgo : forall fd, wp to_step (x <- unit_call (CFutimens fd (Some t) None) ;; quiet (CClose fd) ;;; Ret x)
                    (fun a s' => wp to_step (Ret match a with Ok _ => Ok true | Err e => if is_absent e then Ok false else Err e | Panic => Panic end) (tpost rest) s') (rest, false)).
  { intros fd. unfold unit_call, quiet. cbn [bind call1 wp]. intros r2. unfold after. cbn [to_step fst].
    destruct r2 as [| | | | |e]; cbn [bind wp]; intros r3; unfold after; cbn [to_step wp tpost snd]; try reflexivity.
    destruct (is_absent (OsErr e)); cbn [tpost]; auto. }
  destruct r as [|fd| | | |e]; try apply Hgo.
  all: cbn [bind wp]; intros r2; unfold after; cbn [to_step]; destruct r2 as [|fd2| | | |e2]; try apply Hgo; cbn [wp tpost]; auto.
  all: try (destruct (is_absent (OsErr e2)); cbn [tpost]; auto).
  all: cbn [is_absent tpost]; auto.
Qed.

Lemma to_cd_touch d name rest : wp to_step (cd_touch d name) (tpost rest) ((cd_base d ++ [name]) :: rest, false).
Proof. unfold cd_touch. destruct (validate name); cbn [wp tpost]; auto. apply to_touch. Qed.

Lemma to_f_touch f k rest : wp to_step (f_touch f k) (tpost rest) (front_paths f k ++ rest, false).
Proof.
  destruct f as [dir cap|dir n t]; cbn [f_touch front_paths app].
  - apply (to_cd_touch (plain_cdir dir cap)).
  - unfold sh_touch. destruct (shard_ids (k_hash k) (k_sec k) n) as [h1 h2]. cbn [app]. unfold try. apply wp_bind.
    eapply wp_mono; [|apply (to_cd_touch (shard_cdir dir n t h1) (k_name k) (((dir ++ [format_id h2]) ++ [k_name k]) :: rest))].
    intros [[|]|e|] s' H; cbn [tpost] in H; cbn [wp tpost]; auto. subst s'.
    apply (to_cd_touch (shard_cdir dir n t h2)).
Qed.

Lemma to_ro_touch stack k : forall rest,
  wp to_step (ro_touch stack k) (tpost rest) (List.concat (map (fun f => front_paths f k) stack) ++ rest, false).
Proof.
  induction stack as [|c stack IH]; intros rest; cbn [ro_touch map List.concat app].
  - cbn [wp tpost]. reflexivity.
  - rewrite <- app_assoc. unfold try. apply wp_bind. eapply wp_mono; [|apply to_f_touch].
    intros [[|]|e|] s' H; cbn [tpost] in H; cbn [wp tpost]; auto. subst s'. apply IH.
Qed.

Theorem touch_order cfg k :
  wp to_step (cache_touch cfg k) (tpost []) (flat_itinerary cfg k, false).
Proof.
  unfold cache_touch, flat_itinerary, itinerary.
  pose proof (to_ro_touch (s_readers cfg) k []) as Hro. rewrite app_nil_r in Hro.
  destruct (s_writer cfg) as [w|]; cbn [app List.concat]; [|exact Hro].
  unfold try. apply wp_bind. eapply wp_mono; [|apply to_f_touch].
  intros [[|]|e|] s' H; cbn [tpost] in H; cbn [wp tpost]; auto. subst s'. exact Hro.
Qed.
