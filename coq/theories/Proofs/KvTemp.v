(** Publication from ANY plain source path - in particular a temporary file
    inside the cache's own [.kismet_temp] directory, which is what
    [set_temp_file] / [put_temp_file] and the populate paths publish.  The
    maintenance step that precedes the publication may delete the source itself
    (a temp file it measures as stale); the publication then fails, and success is
    still only reported for an entry that is really there.  One monitor for
    rename ([which = true]) and link ([which = false]). *)
From Coq Require Import List NArith ZArith String Ascii Bool Arith Lia.
From Kismet Require Import Pure.Hash FS.Fs FS.Prog Spec.Wp Spec.ClassMon Spec.Calm Ops.Ops
  Conc.Effect Proofs.PutNeverOverwrites Proofs.NeverMasked
  Seq.Plain Seq.Steps Seq.Bind Seq.Sane Proofs.KvSeq.
Import ListNotations.

Section Publish.
  Variable d : cdir.
  Variable name : string.
  Variable v : path.
  Variable which : bool.
  Notation dst := (cd_base d ++ [name]).
  Hypothesis Hbase : plainp (cd_base d) = true.
  Hypothesis Hname : valid_name name = true.
  Hypothesis Hv : plainp v = true.
  Hypothesis Hvd : v <> dst.
  Hypothesis Hnanc : forall q, cd_base d <> v ++ q.
  Notation PVD := (Pvd d name v).

  Definition is_pubw (c : call) : bool :=
    match c with
    | CRename a b => (which && path_eqb a v && path_eqb b dst)%bool
    | CLink a b => (negb which && path_eqb a v && path_eqb b dst)%bool
    | _ => false
    end.

  (** calls that spare both names; the unlink of the source (maintenance may find
      it stale; the writer drops it at the end); before the publication, the
      unlink of the entry (maintenance may evict it) *)
  Definition cls (s : pst) (c : call) : bool :=
    (okm PVD c || unl v c || match s with Before => unl dst c | _ => false end)%bool.

  Definition pw_step (s : pst) (ev : event) : option pst :=
    match ev with
    | EvCall c r =>
        if is_pubw c then
          Some (match s with
                | Before => match r with
                            | RErr e => if (negb which && match e with EEXIST => true | _ => false end)%bool then Existed else Before
                            | _ => Linked
                            end
                | _ => s
                end)
        else if cls s c then Some s else None
    | _ => Some s
    end.

  Lemma cls_nr s c : rebind_paths c = [] -> cls s c = true.
  Proof. intros H. unfold cls. now rewrite (okm_nr PVD c H). Qed.

  Lemma pubw_not_cls s c : cls s c = true -> is_pubw c = false.
  Proof.
    destruct c; try reflexivity; unfold cls, okm, Pvd; cbn [rebind_paths forallb is_pubw unl].
    - assert (Hf : (match s with Before => false | _ => false end) = false) by (destruct s; reflexivity). rewrite Hf, !orb_false_r, andb_true_r.
      destruct (path_eqb p v); [|now rewrite andb_false_r]. cbn [negb andb]. rewrite ?andb_false_r. cbn. discriminate.
    - assert (Hf : (match s with Before => false | _ => false end) = false) by (destruct s; reflexivity). rewrite Hf, !orb_false_r, andb_true_r.
      destruct (path_eqb q dst); [|now rewrite !andb_false_r]. cbn [negb andb]. rewrite ?andb_false_r. discriminate.
  Qed.

  Lemma pw_call s c r : cls s c = true -> exists s', pw_step s (EvCall c r) = Some s' /\ s' = s.
  Proof. intros H. cbn [pw_step]. rewrite (pubw_not_cls s c H), H. eauto. Qed.
  Lemma pw_sil s ev : match ev with EvCall _ _ => True | _ => exists s', pw_step s ev = Some s' /\ s' = s end.
  Proof. destruct ev; cbn; eauto. Qed.
  Lemma pw_class s {A} (p : prog A) Q : allc (cls s) p Q -> wpv pw_step p (fun a s' => Q a /\ s' = s) s.
  Proof.
    intros H. apply (gclass pw_step (fun s' => s' = s) (cls s)); [| |exact H|reflexivity].
    - intros s0 c r -> Hc. destruct (pw_call s c r Hc) as (s' & -> & ->). eauto.
    - intros s0 ev ->. pose proof (pw_sil s ev) as Hs. destruct ev; auto. all: destruct Hs as (s' & -> & ->); eauto.
  Qed.

  Lemma cls_unl_v s : cls s (CUnlink v) = true.
  Proof. unfold cls. cbn [unl]. rewrite path_eqb_refl. rewrite orb_true_r. reflexivity. Qed.

  Lemma pw_fin s : wpv pw_step (ensure_file_removed v) (fun _ s' => s' = s) s.
  Proof.
    eapply wpv_mono; [|apply (pw_class s _ anyc)]; [intros a s' (_ & ->); reflexivity|].
    apply gc_ensure_file_removed, cls_unl_v.
  Qed.

  Definition ipost (s : pst) (r : outcome unit) (s' : pst) : Prop := (is_ok r = true -> s' <> Before) /\ (s <> Before -> s' = s).

  Lemma pw_insert s : wpv pw_step ((if which then insert_or_update else insert_or_touch) v dst) (ipost s) s.
  Proof.
    assert (Hfin : forall s2, s2 <> Before -> (s <> Before -> s2 = s) -> wpv pw_step (ensure_file_removed v) (ipost s) s2).
    { intros s2 H2 H3. eapply wpv_mono; [|apply (pw_fin s2)]. intros a s' ->. split; auto. }
    assert (Hpre : forall {B} (k : prog (outcome B)) (Q : outcome B -> pst -> Prop),
              (forall e, Q (Err e) s) -> Q Panic s -> wpv pw_step k Q s ->
              wpv pw_step (try (move_to_back_of_list v) (fun _ => try (set_read_only v) (fun _ => k))) Q s).
    { intros B k Q He Hp Hk. apply wpv_try.
      eapply wpv_mono; [|apply (pw_class s _ _ (gc_move_to_back (cls s) (cls_nr s) v))]. intros [u|e|] s1 (_ & ->); [|apply He|apply Hp].
      apply wpv_try. eapply wpv_mono; [|apply (pw_class s _ _ (gc_set_read_only (cls s) (cls_nr s) v))]. intros [u1|e|] s1 (_ & ->); [exact Hk|apply He|apply Hp]. }
    destruct which eqn:Hw.
    - unfold insert_or_update. apply Hpre; [intros e; split; [discriminate|auto]|split; [discriminate|auto]|].
      apply wpv_try. unfold unit_call. cbn [bind call1]. apply wpv_call. intros r _.
      assert (Hp : is_pubw (CRename v dst) = true) by (cbn [is_pubw]; rewrite Hw, !path_eqb_refl; reflexivity).
      cbn [pw_step]. rewrite Hp, ?Hw. cbn [negb andb].
      destruct s; destruct r as [| | | | |er]; cbn [bind];
        first [apply wpv_ret; split; [discriminate|congruence] | apply wpv_ret; apply Hfin; [discriminate|congruence] | apply wpv_ret; apply Hfin; [discriminate|auto] | apply wpv_ret; split; [discriminate|auto]].
    - unfold insert_or_touch. apply Hpre; [intros e; split; [discriminate|auto]|split; [discriminate|auto]|].
      cbn [bind call1]. apply wpv_call. intros r _.
      assert (Hp : is_pubw (CLink v dst) = true) by (cbn [is_pubw]; rewrite Hw, !path_eqb_refl; reflexivity).
      cbn [pw_step]. rewrite Hp, ?Hw. cbn [negb andb].
      assert (Htouch : forall s2, s2 <> Before -> (s <> Before -> s2 = s) ->
                wpv pw_step (try (touch dst) (fun _ => ensure_file_removed v)) (ipost s) s2).
      { intros s2 H2 H3. apply wpv_try. eapply wpv_mono; [|apply (pw_class s2 _ _ (gc_touch (cls s2) (cls_nr s2) dst))].
        intros [b|e|] s3 (_ & ->); [apply Hfin; assumption|split; [discriminate|exact H3]..]. }
      destruct s.
      + destruct r as [| | | | |er]; try (apply Hfin; [discriminate|congruence]).
        destruct er; cbn [negb andb]; try (apply wpv_ret; split; [discriminate|congruence]). apply Htouch; [discriminate|congruence].
      + destruct r as [| | | | |er]; try (apply Hfin; [discriminate|auto]).
        destruct er; try (apply wpv_ret; split; [discriminate|auto]). apply Htouch; [discriminate|auto].
      + destruct r as [| | | | |er]; try (apply Hfin; [discriminate|auto]).
        destruct er; try (apply wpv_ret; split; [discriminate|auto]). apply Htouch; [discriminate|auto].
  Qed.

  Lemma cls_unlink s p : plainp p = true -> (s = Before \/ p <> dst) -> cls s (CUnlink p) = true.
  Proof.
    intros Hp Hs. unfold cls. cbn [unl]. destruct (path_eqb p v) eqn:Ev; [rewrite orb_true_r; reflexivity|].
    destruct (path_eqb p dst) eqn:Ed.
    - apply path_eqb_eq in Ed. destruct Hs as [-> |Hs]; [rewrite orb_true_r; reflexivity|contradiction].
    - unfold okm, Pvd. cbn [rebind_paths forallb]. rewrite Hp, Ev, Ed. reflexivity.
  Qed.

  Lemma cls_mkdir s a b : cd_base d = a ++ b -> cls s (CMkdir a) = true.
  Proof.
    intros Hab. unfold cls, okm, Pvd. cbn [rebind_paths forallb].
    assert (Hpa : plainp a = true) by (rewrite Hab, plainp_app in Hbase; apply andb_true_iff in Hbase; tauto).
    assert (Hav : path_eqb a v = false).
    { destruct (path_eqb a v) eqn:He; [|reflexivity]. apply path_eqb_eq in He. subst a. exfalso. exact (Hnanc b Hab). }
    assert (Had : path_eqb a dst = false).
    { destruct (path_eqb a dst) eqn:He; [|reflexivity]. apply path_eqb_eq in He. exfalso.
      apply (f_equal (@List.length string)) in He. apply (f_equal (@List.length string)) in Hab. rewrite !app_length in *. cbn in He. lia. }
    rewrite Hpa, Hav, Had. reflexivity.
  Qed.

  Theorem pw_cd_publish :
    wpv pw_step (cd_publish (if which then insert_or_update else insert_or_touch) d name v) (fun r s' => is_ok r = true -> s' <> Before) Before.
  Proof.
    unfold cd_publish. rewrite (validate_ok name Hname). apply wpv_try.
    eapply wpv_mono; [|apply (g_maybe_cleanup pw_step (fun s' => s' = Before) (cls Before) (cls_nr Before))].
    - intros [ret|e|] s1 ->; [|discriminate..].
      apply wpv_bind. eapply wpv_mono; [|apply (pw_insert Before)]. intros r s2 (Hok & _).
      destruct r as [u|e|]; [apply wpv_ret; intros _; apply Hok; reflexivity|..].
      all: apply wpv_try; rewrite removelast_last;
        (eapply wpv_mono; [|apply (pw_class s2 _ _ (gc_create_dir_all (cls s2) (cls_nr s2) (cd_base d) (cls_mkdir s2)))]);
        intros [u|e2|] s3 (_ & ->); try discriminate;
        apply wpv_try; (eapply wpv_mono; [|apply (pw_insert s2)]); intros [u2|e3|] s4 (Hok2 & _); try discriminate;
        apply wpv_ret; intros _; apply Hok2; reflexivity.
    - intros s0 c r -> Hc. destruct (pw_call Before c r Hc) as (s' & -> & ->). eauto.
    - intros s0 ev ->. pose proof (pw_sil Before ev) as Hs. destruct ev; auto. all: destruct Hs as (s' & -> & ->); eauto.
    - intros n Hn. apply cls_unlink; [|left; reflexivity]. rewrite plainp_app, Hbase. cbn. now rewrite Hn.
    - intros n Hn. apply cls_unlink; [|left; reflexivity]. unfold cd_temp. rewrite !plainp_app, Hbase. cbn. now rewrite Hn.
    - reflexivity.
  Qed.

  (** ** meaning *)
  Variable i0 : nat.
  Variable j0 : option nat.

  (** [strict]: every answer is the kernel model's (no fault oracle): then an EEXIST
      from link tells the truth. *)
  Definition pw_inv (strict : bool) (s : pst) (f : fs) : Prop :=
    match s with
    | Before => (name_of f v = Some i0 \/ name_of f v = None) /\ (name_of f dst = j0 \/ name_of f dst = None)
    | Linked => name_of f dst = Some i0 /\ (name_of f v = Some i0 \/ name_of f v = None)
    | Existed => (if strict then which = false /\ name_of f dst = j0 /\ j0 <> None else name_of f dst = j0 \/ name_of f dst = None \/ name_of f dst = Some i0)
                 /\ (name_of f v = Some i0 \/ name_of f v = None)
    end.

  Lemma dstp : plainp dst = true. Proof. exact (dst_plain d name Hbase Hname). Qed.

  Lemma cls_step strict s c r f f' : cls s c = true -> step1 f (EvCall c r) f' -> pw_inv strict s f -> pw_inv strict s f'.
  Proof.
    intros Hc H1 HI. pose proof dstp as Hdp.
    assert (Hvkeep : unl v c = true -> name_of f' dst = name_of f dst /\ (name_of f' v = name_of f v \/ name_of f' v = None)).
    { intros Hu. split; [exact (unl_other f c r f' v dst Hv Hvd Hu H1)|exact (unl_self f c r f' v Hv Hu H1)]. }
    assert (Hdkeep : unl dst c = true -> name_of f' v = name_of f v /\ (name_of f' dst = name_of f dst \/ name_of f' dst = None)).
    { intros Hu. split; [exact (unl_other f c r f' dst v Hdp (fun H => Hvd (eq_sym H)) Hu H1)|exact (unl_self f c r f' dst Hdp Hu H1)]. }
    unfold cls in Hc. apply orb_true_iff in Hc. destruct Hc as [Hc|Hc]; [apply orb_true_iff in Hc; destruct Hc as [Hc|Hc]|].
    - destruct (okm_and _ _ c Hc) as (Hc1 & Hc2).
      destruct s; cbn [pw_inv] in *; rewrite ?(step1_spares _ _ _ dst H1 Hc2), ?(step1_spares _ _ _ v H1 Hc1); exact HI.
    - destruct (Hvkeep Hc) as (Hd & Hs).
      assert (Hsrc : (name_of f v = Some i0 \/ name_of f v = None) -> (name_of f' v = Some i0 \/ name_of f' v = None)).
      { intros [H|H]; destruct Hs as [Hs|Hs]; rewrite ?Hs; auto. }
      destruct s; cbn [pw_inv] in *; rewrite Hd; destruct HI as (Ha & Hb); split; auto.
    - destruct s; try discriminate. destruct (Hdkeep Hc) as (Hs & Hd). cbn [pw_inv] in *. rewrite Hs. destruct HI as (Ha & Hb). split; [exact Ha|].
      destruct Hd as [Hd|Hd]; rewrite ?Hd; auto.
  Qed.

  Lemma pw_inv_step strict s ev s' f f' : pw_step s ev = Some s' -> step1 f ev f' -> (strict = true -> astep f ev f') ->
    pw_inv strict s f -> pw_inv strict s' f'.
  Proof.
    intros Hm H1 Hstrict HI. pose proof dstp as Hdp.
    destruct ev as [c r|t|wt b|n x|fr|tg pl]; cbn [pw_step] in Hm.
    2-6: injection Hm as <-; destruct s; cbn [pw_inv] in *; rewrite !(step1_spares _ _ _ _ H1 I); exact HI.
    destruct (is_pubw c) eqn:Hp; [|destruct (cls s c) eqn:Hc; [|discriminate]; injection Hm as <-; exact (cls_step strict s c r f f' Hc H1 HI)].
    injection Hm as <-.
    assert (Herr : forall er, r = RErr er -> forall x, name_of f' x = name_of f x) by (intros er -> x; apply (step1_err _ _ _ _ _ H1)).
    (* what an accepted publication does *)
    assert (Hacc : accepted r = true -> name_of f v <> None /\ name_of f' dst = name_of f v /\ (name_of f' v = name_of f v \/ name_of f' v = None) /\ (which = false -> name_of f dst = None)).
    { intros Ha. destruct (accepted_answered _ _ _ _ H1 Ha) as (e & -> & Hr).
      destruct c; try discriminate; cbn [is_pubw] in Hp; apply andb_true_iff in Hp; destruct Hp as (Hp & Hb); apply andb_true_iff in Hp; destruct Hp as (Hw & Hpa);
        apply path_eqb_eq in Hpa; apply path_eqb_eq in Hb; subst p q.
      - pose proof (sem_res_unit f e (CRename v dst)) as Hu. change (snd (sem f e (CRename v dst)) = ROk \/ exists er, snd (sem f e (CRename v dst)) = RErr er) in Hu.
        destruct Hu as [Hu|(er & Hu)]; [|rewrite Hu in Hr; subst r; discriminate].
        destruct (rename_effect f e v dst Hv Hdp Hu) as (Hd & Hn). pose proof (rename_source f e v dst Hv Hdp Hvd Hu) as Hs.
        repeat split; [exact Hn|exact Hd|tauto|intros Hf; rewrite Hf in Hw; discriminate].
      - pose proof (sem_res_unit f e (CLink v dst)) as Hu. change (snd (sem f e (CLink v dst)) = ROk \/ exists er, snd (sem f e (CLink v dst)) = RErr er) in Hu.
        destruct Hu as [Hu|(er & Hu)]; [|rewrite Hu in Hr; subst r; discriminate].
        destruct (link_effect f e v dst Hv Hdp Hu) as (Hd & Hn & Habs).
        repeat split; [exact Hn|exact Hd| |intros _; exact Habs].
        left. apply sem_spares. unfold spares. cbn [rebind_paths forallb]. rewrite Hdp. cbn. rewrite andb_true_r. apply negb_true_iff.
        destruct (path_eqb dst v) eqn:He; [apply path_eqb_eq in He; symmetry in He; contradiction|reflexivity]. }
    destruct s.
    - cbn [pw_inv] in HI. destruct HI as (Hs & Hd).
      destruct r as [| | | | |er].
      1-5: destruct (Hacc eq_refl) as (Hn & H2 & H3 & _); cbn [pw_inv]; (assert (Hv0 : name_of f v = Some i0) by tauto); rewrite H2, Hv0; (split; [reflexivity|]); rewrite Hv0 in H3; exact H3.
      destruct (negb which && match er with EEXIST => true | _ => false end)%bool eqn:Hex; cbn [pw_inv]; rewrite !(Herr _ eq_refl); [|tauto].
      apply andb_true_iff in Hex. destruct Hex as (Hw & Hee). apply negb_true_iff in Hw. destruct er; try discriminate.
      split; [|exact Hs]. destruct strict; [|tauto].
      destruct (Hstrict eq_refl) as (e & _ & Hr). destruct c; try discriminate; cbn [is_pubw] in Hp; rewrite Hw in Hp; try discriminate.
      cbn [negb andb] in Hp. apply andb_true_iff in Hp. destruct Hp as (Hpa & Hb). apply path_eqb_eq in Hpa. apply path_eqb_eq in Hb. subst p q.
      symmetry in Hr. assert (Hne : name_of f dst <> None) by (apply (link_eexist f e v dst Hdp); [destruct (cd_base d); discriminate|exact Hr]).
      destruct Hd as [Hd|Hd]; [|contradiction]. split; [exact Hw|]. split; [exact Hd|congruence].
    - cbn [pw_inv] in *. destruct HI as (Hd & Hs). destruct r as [| | | | |er]; [..|rewrite !(Herr _ eq_refl); tauto].
      all: destruct (Hacc eq_refl) as (Hn & H2 & H3 & H4); (assert (Hv0 : name_of f v = Some i0) by tauto); rewrite H2, Hv0; (split; [reflexivity|]); rewrite Hv0 in H3; exact H3.
    - cbn [pw_inv] in *. destruct HI as (Hd & Hs). destruct r as [| | | | |er]; [..|rewrite !(Herr _ eq_refl); tauto].
      all: destruct (Hacc eq_refl) as (Hn & H2 & H3 & H4); (assert (Hv0 : name_of f v = Some i0) by tauto); rewrite H2, Hv0; rewrite Hv0 in H3; (split; [|exact H3]).
      all: destruct strict; [|tauto].
      all: exfalso; destruct Hd as (Hw & Hd & Hj); rewrite (H4 Hw) in Hd; congruence.
  Qed.

  Definition pubprog := cd_publish (if which then insert_or_update else insert_or_touch) d name v.

  (** Success: with every answer the kernel model's, for rename and link; with a
      fault oracle as well for rename (no answer of a rename needs to be trusted). *)
  Theorem publish_binds w o : o_fault o = None -> names_plain (w_fs w) ->
    name_of (w_fs w) v = Some i0 -> name_of (w_fs w) dst = j0 ->
    let '(r, w', _, _) := run pubprog w o in
    is_ok r = true ->
    name_of (w_fs w') dst = Some i0 \/ (which = false /\ name_of (w_fs w') dst = j0 /\ j0 <> None).
  Proof.
    intros Hnf Hpl Hv0 Hj.
    assert (HI0 : pw_inv true Before (w_fs w)) by (cbn [pw_inv]; auto).
    pose proof (sane_run_nf pw_step pubprog _ Before (pw_inv true) pw_cd_publish
                  (fun s ev s' f f' Hm Ha _ HI => pw_inv_step true s ev s' f f' Hm (astep_step1 _ _ _ Ha) (fun _ => Ha) HI) w o Hnf Hpl HI0) as H.
    destruct (run pubprog w o) as [[[r w'] o'] tr]. destruct H as (s' & HQ & HI & _).
    intros Hok. specialize (HQ Hok). destruct s'; [congruence|left; exact (proj1 HI)|right; exact (proj1 HI)].
  Qed.

  Theorem set_binds_under_faults w o : which = true -> names_plain (w_fs w) ->
    name_of (w_fs w) v = Some i0 -> name_of (w_fs w) dst = j0 ->
    let '(r, w', _, _) := run pubprog w o in
    is_ok r = true -> name_of (w_fs w') dst = Some i0.
  Proof.
    intros Hw Hpl Hv0 Hj.
    (* under a fault oracle use the weak invariant, strengthened by: [Existed] is not reachable when [which] *)
    pose (J := fun (s : pst) (f : fs) => pw_inv false s f /\ s <> Existed).
    assert (HJ0 : J Before (w_fs w)) by (unfold J; cbn [pw_inv]; split; [auto|discriminate]).
    assert (Hstep : forall s ev s' f f', pw_step s ev = Some s' -> step1 f ev f' -> names_plain f -> J s f -> J s' f').
    { intros s ev s' f f' Hm H1 _ (HI & Hne). split; [exact (pw_inv_step false s ev s' f f' Hm H1 (fun H => ltac:(discriminate H)) HI)|].
      destruct ev as [c r| | | | | ]; cbn [pw_step] in Hm; try (injection Hm as <-; exact Hne).
      destruct (is_pubw c); [|destruct (cls s c); [injection Hm as <-; exact Hne|discriminate]].
      injection Hm as <-. destruct s; [|discriminate|congruence]. destruct r; try discriminate. rewrite Hw. cbn [negb andb]. discriminate. }
    pose proof (sane_run pw_step pubprog _ Before J pw_cd_publish Hstep w o Hpl HJ0) as H.
    destruct (run pubprog w o) as [[[r w'] o'] tr]. destruct H as (s' & HQ & (HI & Hne) & _).
    intros Hok. specialize (HQ Hok). destruct s'; [congruence|exact (proj1 HI)|congruence].
  Qed.

  (** At every crash point, with any fault before: old binding, nothing, or the source's inode. *)
  Theorem publish_is_atomic w o n : names_plain (w_fs w) ->
    name_of (w_fs w) v = Some i0 -> name_of (w_fs w) dst = j0 ->
    let '(w', _, _, _) := run_crash pubprog w o n in
    name_of (w_fs w') dst = j0 \/ name_of (w_fs w') dst = None \/ name_of (w_fs w') dst = Some i0.
  Proof.
    intros Hpl Hv0 Hj.
    assert (HI0 : pw_inv false Before (w_fs w)) by (cbn [pw_inv]; auto).
    pose proof (sane_crash pw_step pubprog _ Before (pw_inv false) pw_cd_publish
                  (fun s ev s' f f' Hm H1 _ HI => pw_inv_step false s ev s' f f' Hm H1 (fun H => ltac:(discriminate H)) HI) w o n Hpl HI0) as H.
    destruct (run_crash pubprog w o n) as [[[w' o'] tr] b]. destruct H as (s' & HI & _).
    destruct s'; cbn [pw_inv] in HI; tauto.
  Qed.

  (** Whatever the outcome and with any fault, when the run ends: old binding,
      nothing, or the source's inode (the source may even be missing).  Stated for
      any program the monitor accepts. *)
  Theorem publish_any_gen {A} (p : prog A) Q w o : wpv pw_step p Q Before -> names_plain (w_fs w) ->
    (name_of (w_fs w) v = Some i0 \/ name_of (w_fs w) v = None) -> name_of (w_fs w) dst = j0 ->
    let '(_, w', _, _) := run p w o in
    name_of (w_fs w') dst = j0 \/ name_of (w_fs w') dst = None \/ name_of (w_fs w') dst = Some i0.
  Proof.
    intros Hp Hpl Hv0 Hj.
    assert (HI0 : pw_inv false Before (w_fs w)) by (cbn [pw_inv]; auto).
    pose proof (sane_run pw_step p Q Before (pw_inv false) Hp
                  (fun s ev s' f f' Hm H1 _ HI => pw_inv_step false s ev s' f f' Hm H1 (fun H => ltac:(discriminate H)) HI) w o Hpl HI0) as H.
    destruct (run p w o) as [[[r w'] o'] tr]. destruct H as (s' & _ & HI & _).
    destruct s'; cbn [pw_inv] in HI; tauto.
  Qed.

  (** [set_binds_under_faults] without assuming that the source exists. *)
  Theorem set_binds_weak_gen {X} (p : prog (outcome X)) w o :
    wpv pw_step p (fun r s' => is_ok r = true -> s' <> Before) Before ->
    which = true -> names_plain (w_fs w) ->
    (name_of (w_fs w) v = Some i0 \/ name_of (w_fs w) v = None) -> name_of (w_fs w) dst = j0 ->
    let '(r, w', _, _) := run p w o in
    is_ok r = true -> name_of (w_fs w') dst = Some i0.
  Proof.
    intros Hp Hw Hpl Hv0 Hj.
    pose (J := fun (s : pst) (f : fs) => pw_inv false s f /\ s <> Existed).
    assert (HJ0 : J Before (w_fs w)) by (unfold J; cbn [pw_inv]; split; [auto|discriminate]).
    assert (Hstep : forall s ev s' f f', pw_step s ev = Some s' -> step1 f ev f' -> names_plain f -> J s f -> J s' f').
    { intros s ev s' f f' Hm H1 _ (HI & Hne). split; [exact (pw_inv_step false s ev s' f f' Hm H1 (fun H => ltac:(discriminate H)) HI)|].
      destruct ev as [c r| | | | | ]; cbn [pw_step] in Hm; try (injection Hm as <-; exact Hne).
      destruct (is_pubw c); [|destruct (cls s c); [injection Hm as <-; exact Hne|discriminate]].
      injection Hm as <-. destruct s; [|discriminate|congruence]. destruct r; try discriminate. rewrite Hw. cbn [negb andb]. discriminate. }
    pose proof (sane_run pw_step p _ Before J Hp Hstep w o Hpl HJ0) as H.
    destruct (run p w o) as [[[r w'] o'] tr]. destruct H as (s' & HQ & (HI & Hne) & _).
    intros Hok. specialize (HQ Hok). destruct s'; [congruence|exact (proj1 HI)|congruence].
  Qed.
End Publish.


(** * The temp-file API of the stack over a plain write cache *)
Section TempApi.
  Variable cfg : stack_cfg.
  Variable dir : path.
  Variable cap : N.
  Hypothesis Hw : s_writer cfg = Some (FPlain dir cap).
  Variable k : key.
  Variable p : path.          (* the caller's NamedTempFile, anywhere: typically in the cache's temp directory *)
  Variable fd : nat.
  Variable which : bool.
  Notation d := (plain_cdir dir cap).
  Notation dst := (dir ++ [k_name k]).
  Hypothesis Hbase : plainp dir = true.
  Hypothesis Hname : valid_name (k_name k) = true.
  Hypothesis Hp : plainp p = true.
  Hypothesis Hpd : p <> dst.
  Hypothesis Hnanc : forall q, dir <> p ++ q.

  Lemma gc_finalize (ok : call -> bool) : (forall c, rebind_paths c = [] -> ok c = true) -> ok (CUnlink p) = true ->
    forall sync, allc ok (finalize_tempfile fd p sync) anyc.
  Proof.
    intros Hnr Hu sync. unfold finalize_tempfile, try_c, unit_call, quiet.
    assert (H1 : ok (CFchmod fd 292) = true) by (apply Hnr; reflexivity).
    assert (H2 : ok (CFsync fd) = true) by (apply Hnr; reflexivity).
    assert (H3 : ok (CClose fd) = true) by (apply Hnr; reflexivity).
    destruct sync; allc_auto; apply allc_call; assumption.
  Qed.

  Lemma pw_write_temp :
    wpv (pw_step d (k_name k) p which) (cache_write_temp which cfg k fd p) (fun r s' => is_ok r = true -> s' <> Before) Before.
  Proof.
    unfold cache_write_temp. apply wpv_try.
    eapply wpv_mono; [|apply (pw_class d (k_name k) p which Before _ _
                               (gc_finalize (cls d (k_name k) p Before) (cls_nr d (k_name k) p Before) (cls_unl_v d (k_name k) p Before) (s_autosync cfg)))].
    intros [u|e|] s1 (_ & ->); try discriminate.
    apply wpv_bind. unfold write_impl. rewrite Hw.
    assert (Hpub : wpv (pw_step d (k_name k) p which) (if which then f_set (s_handle cfg) (FPlain dir cap) k p else f_put (s_handle cfg) (FPlain dir cap) k p)
                     (fun r s' => is_ok r = true -> s' <> Before) Before).
    { pose proof (pw_cd_publish d (k_name k) p which Hbase Hname Hp Hnanc) as Hc.
      destruct which; cbn [f_set f_put]; unfold drop_opt, cd_set, cd_put; apply wpv_try; (eapply wpv_mono; [|exact Hc]);
        intros [x|e|] s2 Hok; try discriminate; apply wpv_ret; intros _; apply Hok; reflexivity. }
    eapply wpv_mono; [|exact Hpub]. intros r s2 Hok.
    eapply wpv_mono; [|apply (pw_class d (k_name k) p which s2 (quiet (CUnlink p) ;;; Ret r) (fun r0 => r0 = r))].
    - intros r0 s3 (-> & ->). exact Hok.
    - unfold quiet. pose proof (cls_unl_v d (k_name k) p s2) as Hu. allc_auto; try (apply allc_call; exact Hu).
  Qed.

  (** [set_temp_file] / [put_temp_file] that report success have bound the key's name
      to the temp file's inode (put: or left it on exactly its old binding). *)
  Theorem temp_file_api_binds i0 j0 w o : o_fault o = None -> names_plain (w_fs w) ->
    name_of (w_fs w) p = Some i0 -> name_of (w_fs w) dst = j0 ->
    let '(r, w', _, _) := run (cache_write_temp which cfg k fd p) w o in
    is_ok r = true ->
    name_of (w_fs w') dst = Some i0 \/ (which = false /\ name_of (w_fs w') dst = j0 /\ j0 <> None).
  Proof.
    intros Hnf Hpl Hv0 Hj.
    assert (HI0 : pw_inv d (k_name k) p which i0 j0 true Before (w_fs w)) by (cbn [pw_inv]; auto).
    pose proof (sane_run_nf (pw_step d (k_name k) p which) (cache_write_temp which cfg k fd p) _ Before (pw_inv d (k_name k) p which i0 j0 true) pw_write_temp
                  (fun s ev s' f f' Hm Ha _ HI => pw_inv_step d (k_name k) p which Hbase Hname Hp Hpd Hnanc i0 j0 true s ev s' f f' Hm (astep_step1 _ _ _ Ha) (fun _ => Ha) HI) w o Hnf Hpl HI0) as H.
    destruct (run (cache_write_temp which cfg k fd p) w o) as [[[r w'] o'] tr]. destruct H as (s' & HQ & HI & _).
    intros Hok. specialize (HQ Hok). destruct s'; [congruence|left; exact (proj1 HI)|right; exact (proj1 HI)].
  Qed.
End TempApi.
