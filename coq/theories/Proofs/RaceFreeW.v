(** Concurrent activity never surfaces as an error in the WRITERS either.

    What the allowed actions of other participants (publish an entry, evict an
    entry, reclaim a stale temp file, create a directory) can do to the calls of
    a plain [set] / [put] - maintenance included - is:
    - make a call that names an ENTRY of a cache or temp directory (stat,
      open, unlink, opendir) answer with an absence error;
    - make the publishing link find the name already taken (EEXIST).
    They cannot touch the writer's own source file (it is private until the
    publication), cannot remove a directory, and cannot make a descriptor-based
    call fail.  [wrace_ok v] is that response class for a writer whose source is
    [v].  Theorem: as long as every response lies in the class, a plain set / put
    (and the stack-level front ends over a plain write cache) returns no I/O error
    and does not panic: the trigger may fire or not, the listing may be anything,
    any entry may vanish between the listing and its use.  Stated with a monitor,
    like [RaceFree], so that it holds for every participant of every pool. *)
From Coq Require Import List NArith ZArith String Bool Arith Lia.
From Kismet Require Import Pure.Hash Pure.SecondChance FS.Fs FS.Prog Spec.Wp Ops.Ops Conc.Pool Conc.PoolProofs Proofs.SecondChanceProofs Proofs.RaceFree Proofs.PutNeverOverwrites.
Import ListNotations.

Section Writers.
  Variable v : path.

  Definition wrace_ok (c : call) (r : res) : bool :=
    match c, r with
    | COpen p _, RFd _ => true
    | COpen p _, RErr e => (negb (path_eqb p v) && absent_errno e)%bool
    | CStat p _, RStat _ => true
    | CStat p _, RErr e => (negb (path_eqb p v) && absent_errno e)%bool
    | COpenDir _, RFd _ => true
    | COpenDir _, RErr e => absent_errno e
    | CReadDir _, RNames _ => true
    | CUnlink _, ROk => true
    | CUnlink _, RErr e => absent_errno e
    | CLink _ _, ROk => true
    | CLink _ _, RErr EEXIST => true
    | (CRename _ _ | CChmod _ _ | CFchmod _ _ | CFutimens _ _ _ | CClose _ | CCloseDir _ | CFsync _), ROk => true
    | (COpen _ _ | CStat _ _ | COpenDir _ | CReadDir _ | CUnlink _ | CLink _ _ | CRename _ _ | CChmod _ _ | CFchmod _ _
       | CFutimens _ _ _ | CClose _ | CCloseDir _ | CFsync _), _ => false
    | _, _ => true
    end.

  Definition w_step (s : bool) (ev : event) : option bool :=
    match ev with EvCall c r => Some (s && wrace_ok c r)%bool | _ => Some s end.

  Definition rw {A} (p : prog A) (Q : A -> Prop) : Prop :=
    forall s, wp w_step p (fun a s' => s' = true -> Q a) s.

  Lemma wdirty_stays {A} (p : prog A) (Q : A -> Prop) : wp w_step p (fun a s' => s' = true -> Q a) false.
  Proof.
    induction p as [a|c k IH|k IH|w k IH|n k IH|h i k IH|h i x k IH|k IH|t pl k IH]; cbn [wp]; unfold after; cbn [w_step andb]; auto.
    intros H. discriminate H.
  Qed.

  Lemma rw_ret {A} (a : A) (Q : A -> Prop) : Q a -> rw (Ret a) Q.
  Proof. intros H s _. exact H. Qed.

  Lemma rw_bind {A B} (p : prog A) (f : A -> prog B) (Q1 : A -> Prop) (Q2 : B -> Prop) :
    rw p Q1 -> (forall a, Q1 a -> rw (f a) Q2) -> rw (bind p f) Q2.
  Proof.
    intros Hp Hf s. apply wp_bind. eapply wp_mono; [|apply Hp].
    intros a [|] H1; [apply Hf, H1; reflexivity|apply wdirty_stays].
  Qed.

  Lemma rw_weaken {A} (p : prog A) (Q Q' : A -> Prop) : rw p Q -> (forall a, Q a -> Q' a) -> rw p Q'.
  Proof. intros H HQ s. eapply wp_mono; [|apply H]. intros a s' H1 H2. apply HQ, H1, H2. Qed.

  Lemma rw_call {B} c (k : res -> prog B) (Q : B -> Prop) :
    (forall r, wrace_ok c r = true -> rw (k r) Q) -> rw (Call c k) Q.
  Proof.
    intros H s. cbn [wp]. intros r. unfold after. cbn [w_step].
    destruct (wrace_ok c r) eqn:Hr.
    - rewrite andb_true_r. apply H, Hr.
    - rewrite andb_false_r. apply wdirty_stays.
  Qed.

  Lemma rw_now {A} (k : Z -> prog A) Q : (forall t, rw (k t) Q) -> rw (Now k) Q.
  Proof. intros H s. cbn [wp]. intros t. unfold after. cbn [w_step]. apply H. Qed.

  Lemma rw_trigger {A} wt (k : bool -> prog A) Q : (forall b, rw (k b) Q) -> rw (Trigger wt k) Q.
  Proof. intros H s. cbn [wp]. intros b. unfold after. cbn [w_step]. apply H. Qed.

  Definition okabs {A} (r : outcome A) : Prop :=
    match r with Ok _ => True | Err e => is_absent e = true | Panic => False end.
  Definition isOk {A} (r : outcome A) : Prop := match r with Ok _ => True | _ => False end.

  Lemma rw_try {A B} (p : prog (outcome A)) (f : A -> prog (outcome B)) :
    rw p isOk -> (forall a, rw (f a) isOk) -> rw (try p f) isOk.
  Proof.
    intros Hp Hf. unfold try. eapply rw_bind; [exact Hp|].
    intros [a|e|] H; [apply Hf|destruct H|destruct H].
  Qed.

  Lemma rw_quiet c : rw (quiet c) (fun _ => True).
  Proof. unfold quiet. cbn [bind call1]. apply rw_call. intros r _. cbn [bind]. apply rw_ret. exact I. Qed.

  (** set_times on the private source: always succeeds; on an entry: or absent *)
  Lemma rw_set_times p a m : rw (set_times p a m) (fun r => if path_eqb p v then isOk r else okabs r).
  Proof.
    unfold set_times, unit_call, quiet. cbn [bind call1].
    apply rw_call. intros r Hr. destruct r as [|fd|st|dt|nm|e]; cbn [wrace_ok] in Hr; try discriminate Hr; cbn [bind].
    - apply rw_call. intros r2 Hr2. destruct r2; cbn [wrace_ok] in Hr2; try discriminate Hr2. cbn [bind].
      apply rw_call. intros r3 _. cbn [bind]. apply rw_ret. destruct (path_eqb p v); exact I.
    - apply andb_true_iff in Hr. destruct Hr as (Hp & He). apply negb_true_iff in Hp. rewrite Hp.
      apply rw_call. intros r2 Hr2. destruct r2 as [|fd|st|dt|nm|e2]; cbn [wrace_ok] in Hr2; try discriminate Hr2; cbn [bind].
      + apply rw_call. intros r3 Hr3. destruct r3; cbn [wrace_ok] in Hr3; try discriminate Hr3. cbn [bind].
        apply rw_call. intros r4 _. cbn [bind]. apply rw_ret. exact I.
      + rewrite Hp in Hr2. cbn [negb andb] in Hr2. apply rw_ret. cbn. apply absent_is_absent, Hr2.
  Qed.

  Lemma rw_move_to_back_src : rw (move_to_back_of_list v) isOk.
  Proof.
    unfold move_to_back_of_list. apply rw_now. intros t. eapply rw_weaken; [apply rw_set_times|].
    intros r. rewrite path_eqb_refl. auto.
  Qed.

  Lemma rw_move_to_back p : rw (move_to_back_of_list p) okabs.
  Proof.
    unfold move_to_back_of_list. apply rw_now. intros t. eapply rw_weaken; [apply rw_set_times|].
    intros r. destruct (path_eqb p v); [destruct r; cbn; auto|auto].
  Qed.

  Lemma rw_set_read_only_src : rw (set_read_only v) isOk.
  Proof.
    unfold set_read_only, try, stat_call, unit_call. cbn [bind call1].
    apply rw_call. intros r Hr. destruct r as [|fd|st|dt|nm|e]; cbn [wrace_ok] in Hr; try discriminate Hr; cbn [bind].
    - apply rw_call. intros r2 Hr2. destruct r2; cbn [wrace_ok] in Hr2; try discriminate Hr2. cbn [bind]. apply rw_ret. exact I.
    - rewrite path_eqb_refl in Hr. discriminate Hr.
  Qed.

  Lemma rw_ensure_file_removed p : rw (ensure_file_removed p) isOk.
  Proof.
    unfold ensure_file_removed, unit_call. cbn [bind call1].
    apply rw_call. intros r Hr. destruct r as [|fd|st|dt|nm|e]; cbn [wrace_ok] in Hr; try discriminate Hr; cbn [bind]; apply rw_ret; try exact I.
    rewrite (absent_is_absent e Hr). exact I.
  Qed.

  Lemma rw_touch p : p <> v -> rw (touch p) isOk.
  Proof.
    intros Hp. unfold touch. apply rw_now. intros t. eapply rw_bind; [apply rw_set_times|].
    assert (He : path_eqb p v = false) by (destruct (path_eqb p v) eqn:E; [apply path_eqb_eq in E; contradiction|reflexivity]).
    rewrite He. intros [u|e|] H; apply rw_ret; cbn in *; auto. rewrite H. exact I.
  Qed.

  Lemma rw_insert_or_update dst : rw (insert_or_update v dst) isOk.
  Proof.
    unfold insert_or_update. apply rw_try; [apply rw_move_to_back_src|]. intros _.
    apply rw_try; [apply rw_set_read_only_src|]. intros _.
    apply rw_try; [|intros _; apply rw_ensure_file_removed].
    unfold unit_call. cbn [bind call1]. apply rw_call. intros r Hr. destruct r; cbn [wrace_ok] in Hr; try discriminate Hr. cbn [bind]. apply rw_ret. exact I.
  Qed.

  Lemma rw_insert_or_touch dst : dst <> v -> rw (insert_or_touch v dst) isOk.
  Proof.
    intros Hd. unfold insert_or_touch. apply rw_try; [apply rw_move_to_back_src|]. intros _.
    apply rw_try; [apply rw_set_read_only_src|]. intros _.
    cbn [bind call1]. apply rw_call. intros r Hr. destruct r as [|fd|st|dt|nm|e]; cbn [wrace_ok] in Hr; try discriminate Hr; cbn [bind].
    - apply rw_ensure_file_removed.
    - destruct e; try discriminate Hr. apply rw_try; [apply rw_touch, Hd|]. intros _. apply rw_ensure_file_removed.
  Qed.

  (** ** maintenance *)
  Lemma rw_evict_loop dir names : rw (evict_loop dir names) isOk.
  Proof.
    induction names as [|n rest IH]; cbn [evict_loop]; [apply rw_ret; exact I|].
    apply rw_try; [apply rw_ensure_file_removed|]. intros _. exact IH.
  Qed.

  Lemma rw_move_back_loop dir names : rw (move_back_loop dir names) isOk.
  Proof.
    induction names as [|n rest IH]; cbn [move_back_loop]; [apply rw_ret; exact I|].
    eapply rw_bind; [apply rw_move_to_back|].
    intros [u|e|] H; cbn in H; [exact IH|rewrite H; exact IH|destruct H].
  Qed.

  Lemma rw_collect_loop dir dh names : forall acc count, rw (collect_loop dir dh names acc count) isOk.
  Proof.
    induction names as [|n rest IH]; intros acc count; cbn [collect_loop]; [apply rw_ret; exact I|].
    destruct (dot_prefixed n); [apply IH|].
    cbn [bind call1]. apply rw_call. intros r Hr. destruct r as [|fd|st|dt|nm|e]; cbn [wrace_ok] in Hr; try discriminate Hr; cbn [bind].
    - destruct (st_dir st); apply IH.
    - apply andb_true_iff in Hr. destruct Hr as (_ & He). rewrite (absent_is_absent e He). apply IH.
  Qed.

  Lemma rw_collect dir : rw (collect_cached_files dir) okabs.
  Proof.
    unfold collect_cached_files, try, fd_call. cbn [bind call1].
    apply rw_call. intros r Hr. destruct r as [|dh|st|dt|nm|e]; cbn [wrace_ok] in Hr; try discriminate Hr; cbn [bind].
    - apply rw_call. intros r2 Hr2. destruct r2 as [|fd|st|dt|nm|e]; cbn [wrace_ok] in Hr2; try discriminate Hr2. cbn [bind].
      eapply rw_bind; [apply rw_collect_loop|]. intros [[files count]|e|] H; try destruct H. apply rw_ret. exact I.
    - apply rw_ret. cbn. apply absent_is_absent, Hr.
  Qed.

  Lemma rw_prune dir cap : rw (prune dir cap) okabs.
  Proof.
    unfold prune, try. eapply rw_bind; [apply rw_collect|].
    intros [[[dh files] count]|e|] H; [|apply rw_ret; exact H|destruct H].
    destruct (plan (entries_of files) cap) as [[ev mb]|] eqn:Hp; [|exfalso; exact (plan_never_asserts _ _ Hp)].
    eapply rw_bind; [apply rw_quiet|]. intros _ _.
    eapply rw_bind.
    - apply (rw_try (evict_loop dir (map (name_at files) ev)) (fun _ => move_back_loop dir (map (name_at files) mb))); [apply rw_evict_loop|intros _; apply rw_move_back_loop].
    - intros [u|e|] Hr; try destruct Hr. apply rw_ret. exact I.
  Qed.

  Lemma rw_cleanup_temp_loop temp names thr : rw (cleanup_temp_loop temp names thr) (fun _ => True).
  Proof.
    induction names as [|n rest IH]; cbn [cleanup_temp_loop]; [apply rw_ret; exact I|].
    cbn [bind call1]. apply rw_call. intros r _. cbn [bind]. destruct r; try exact IH.
    destruct (_ <? _)%Z; (apply (rw_bind _ _ (fun _ => True)); [|intros _ _; exact IH]); [apply rw_quiet|apply rw_ret; exact I].
  Qed.

  Lemma rw_cleanup_temp temp : rw (cleanup_temporary_directory temp) isOk.
  Proof.
    unfold cleanup_temporary_directory. apply rw_now. intros t. destruct (_ <? _)%Z; [apply rw_ret; exact I|].
    cbn [bind call1]. apply rw_call. intros r Hr. destruct r as [|dh|st|dt|nm|e]; cbn [wrace_ok] in Hr; try discriminate Hr; cbn [bind].
    - apply rw_call. intros l _. cbn [bind].
      apply (rw_bind _ _ (fun _ => True)); [destruct l; first [apply rw_cleanup_temp_loop|apply rw_ret; exact I]|]. intros _ _.
      eapply rw_bind; [apply rw_quiet|]. intros _ _. apply rw_ret. exact I.
    - apply rw_ret. rewrite (absent_is_absent e Hr). exact I.
  Qed.

  Lemma rw_definitely_cleanup d base : rw (definitely_cleanup d base) isOk.
  Proof.
    unfold definitely_cleanup. eapply rw_bind; [apply rw_prune|].
    intros [[est n]|e|] H; cbn in H; [|apply rw_ret; rewrite H; exact I|destruct H].
    apply rw_try; [apply rw_cleanup_temp|]. intros _. apply rw_ret. exact I.
  Qed.

  Lemma rw_maybe_cleanup d : rw (maybe_cleanup d) isOk.
  Proof.
    unfold maybe_cleanup. apply rw_trigger. intros [|]; [|apply rw_ret; exact I].
    apply rw_try; [apply rw_definitely_cleanup|]. intros est. apply rw_ret. exact I.
  Qed.

  (** ** the directory-level writers *)
  Theorem rw_cd_publish (which : bool) d name : cd_base d ++ [name] <> v ->
    rw (cd_publish (if which then insert_or_update else insert_or_touch) d name v) no_io_error.
  Proof.
    intros Hd. unfold cd_publish. destruct (validate name) as [u|e|] eqn:Hv; try (apply rw_ret; unfold validate in Hv; destruct (valid_name name); inversion Hv; exact I).
    apply (rw_weaken _ isOk); [|intros [x|e|] Hr; cbn in *; tauto].
    apply rw_try; [apply rw_maybe_cleanup|]. intros ret.
    eapply rw_bind; [destruct which; [apply rw_insert_or_update|apply rw_insert_or_touch, Hd]|].
    intros [u1|e|] H; try destruct H. apply rw_ret. exact I.
  Qed.

  (** ** the sharded writers: probe of the secondary shard, publication in the
      chosen shard, maintenance of that or of another shard *)
  Lemma rw_randshard {A} n (k : N -> prog A) Q : (forall r, rw (k r) Q) -> rw (RandShard n k) Q.
  Proof. intros H s. cbn [wp]. intros r. unfold after. cbn [w_step]. apply H. Qed.
  Lemma rw_loadget {A} h i (k : N -> prog A) Q : (forall r, rw (k r) Q) -> rw (LoadGet h i k) Q.
  Proof. intros H s. cbn [wp]. intros r. unfold after. cbn [w_step]. apply H. Qed.
  Lemma rw_loadset {A} h i x (k : prog A) Q : rw k Q -> rw (LoadSet h i x k) Q.
  Proof. intros H s. cbn [wp]. unfold after. cbn [w_step]. apply H. Qed.
  Lemma rw_mark {A} t pl (k : prog A) Q : rw k Q -> rw (Mark t pl k) Q.
  Proof. intros H s. cbn [wp]. unfold after. cbn [w_step]. apply H. Qed.

  Lemma rw_force_maintain h dir n t id : rw (force_maintain_shard h dir n t id) isOk.
  Proof.
    unfold force_maintain_shard. apply rw_try; [apply rw_definitely_cleanup|]. intros est. apply rw_loadset. apply rw_ret. exact I.
  Qed.

  Lemma rw_file_exists dirp name : dirp ++ [name] <> v -> rw (file_exists dirp name) no_io_error.
  Proof.
    intros Hd. unfold file_exists. destruct (validate name) as [u|e|] eqn:Hv; try (apply rw_ret; unfold validate in Hv; destruct (valid_name name); inversion Hv; exact I).
    cbn [bind call1]. apply rw_call. intros r Hr. destruct r as [|fd|st|dt|nm|e]; cbn [wrace_ok] in Hr; try discriminate Hr; cbn [bind]; apply rw_ret; try exact I.
    apply andb_true_iff in Hr. destruct Hr as (_ & He). rewrite (absent_is_absent e He). exact I.
  Qed.

  Theorem rw_sh_publish (which : bool) h dir n t k :
    (forall id, (dir ++ [format_id id]) ++ [k_name k] <> v) ->
    rw (sh_publish (if which then cd_set else cd_put) h dir n t k v) no_io_error.
  Proof.
    intros Hd. unfold sh_publish, sort_by_load. cbn [bind]. apply rw_loadget. intros l1. apply rw_loadget. intros l2. cbn [bind].
    destruct (if (_ <=? _)%N then _ else _) as [h1 h2].
    unfold try at 1. eapply rw_bind; [apply rw_file_exists, Hd|].
    intros [ex|e|] Hex; [|apply rw_ret; exact Hex|destruct Hex].
    unfold try at 1. eapply rw_bind.
    { pose proof (rw_cd_publish which (shard_cdir dir n t (if ex then h2 else h1)) (k_name k) (Hd _)) as Hp.
      destruct which; exact Hp. }
    intros [upd|e|] Hr; [|apply rw_ret; exact Hr|destruct Hr].
    apply (rw_weaken _ isOk); [|intros [x|e|] Hx; cbn in *; tauto].
    apply (rw_bind _ _ (fun _ => True)).
    - unfold update_estimate. destruct upd; [apply rw_loadset, rw_ret; exact I|].
      apply rw_loadget. intros i. destruct (_ <? _)%N; [apply rw_loadset|]; apply rw_ret; exact I.
    - intros _ _. destruct upd.
      + apply rw_randshard. intros r. apply rw_force_maintain.
      + apply rw_loadget. intros l. destruct (_ <? _)%N; [apply rw_mark, rw_force_maintain|apply rw_ret; exact I].
  Qed.

  (** ** ... and through the stack API over a plain write cache *)
  Lemma rw_maybe_sync_path cfg : rw (maybe_sync_path cfg v) isOk.
  Proof.
    unfold maybe_sync_path. destruct (s_autosync cfg); [|apply rw_ret; exact I].
    unfold try, fd_call. cbn [bind call1].
    apply rw_call. intros r Hr. destruct r as [|fd|st|dt|nm|e]; cbn [wrace_ok] in Hr; try discriminate Hr; cbn [bind].
    - apply rw_call. intros r2 Hr2. destruct r2; cbn [wrace_ok] in Hr2; try discriminate Hr2. cbn [bind].
      eapply rw_bind; [apply rw_quiet|]. intros _ _. apply rw_ret. exact I.
    - rewrite path_eqb_refl in Hr. discriminate Hr.
  Qed.

  Definition front_ok (f : front) (k : key) : Prop :=
    match f with
    | FPlain dir _ => dir ++ [k_name k] <> v
    | FSharded dir _ _ => forall id, (dir ++ [format_id id]) ++ [k_name k] <> v
    end.

  Theorem rw_cache_write (which : bool) cfg f k :
    s_writer cfg = Some f -> front_ok f k ->
    rw (if which then cache_set cfg k v else cache_put cfg k v) no_io_error.
  Proof.
    intros Hw Hd.
    assert (H : rw (try (maybe_sync_path cfg v) (fun _ => write_impl which cfg k v)) no_io_error).
    { unfold try. eapply rw_bind; [apply rw_maybe_sync_path|]. intros [u|e|] Hs; try destruct Hs.
      unfold write_impl. rewrite Hw. destruct f as [dir cap|dir n t]; cbn [front_ok] in Hd.
      - pose proof (rw_cd_publish which (plain_cdir dir cap) (k_name k) Hd) as Hp.
        destruct which; cbn [f_set f_put]; unfold drop_opt, try; (eapply rw_bind; [exact Hp|]);
          intros [x|e|] Hr; apply rw_ret; exact Hr.
      - pose proof (rw_sh_publish which (s_handle cfg) dir n t k Hd) as Hp.
        destruct which; cbn [f_set f_put]; exact Hp. }
    destruct which; exact H.
  Qed.

  (** set_temp_file / put_temp_file: the caller's NamedTempFile is the source *)
  Lemma rw_finalize fd sync : rw (finalize_tempfile fd v sync) isOk.
  Proof.
    unfold finalize_tempfile, try_c, unit_call. cbn [bind call1].
    apply rw_call. intros r Hr. destruct r; cbn [wrace_ok] in Hr; try discriminate Hr. cbn [bind].
    destruct sync; cbn [bind call1].
    - apply rw_call. intros r Hr2. destruct r; cbn [wrace_ok] in Hr2; try discriminate Hr2. cbn [bind].
      apply rw_call. intros r Hr3. destruct r; cbn [wrace_ok] in Hr3; try discriminate Hr3. cbn [bind]. apply rw_ret. exact I.
    - apply rw_call. intros r Hr3. destruct r; cbn [wrace_ok] in Hr3; try discriminate Hr3. cbn [bind]. apply rw_ret. exact I.
  Qed.

  Theorem rw_cache_write_temp (which : bool) cfg f k fd :
    s_writer cfg = Some f -> front_ok f k ->
    rw (cache_write_temp which cfg k fd v) no_io_error.
  Proof.
    intros Hw Hd. unfold cache_write_temp, try. eapply rw_bind; [apply rw_finalize|]. intros [u|e|] Hs; try destruct Hs.
    apply (rw_bind _ _ no_io_error).
    - unfold write_impl. rewrite Hw. destruct f as [dir cap|dir n t]; cbn [front_ok] in Hd.
      + pose proof (rw_cd_publish which (plain_cdir dir cap) (k_name k) Hd) as Hp.
        destruct which; cbn [f_set f_put]; unfold drop_opt, try; (eapply rw_bind; [exact Hp|]);
          intros [x|e|] Hr; apply rw_ret; exact Hr.
      + pose proof (rw_sh_publish which (s_handle cfg) dir n t k Hd) as Hp.
        destruct which; cbn [f_set f_put]; exact Hp.
    - intros r Hr. eapply rw_bind; [apply rw_quiet|]. intros _ _. apply rw_ret. exact Hr.
  Qed.

  (** On every sequential run whose responses all lie in the class. *)
  Theorem writers_race_free_run {A} (p : prog (outcome A)) : rw p no_io_error -> forall w o,
    let '(r, _, _, tr) := run p w o in
    mon_run w_step true tr = Some true -> no_io_error r.
  Proof.
    intros H w o. pose proof (wp_run w_step p _ true w o (H true)) as Hr.
    destruct (run p w o) as [[[r w'] o'] tr]. destruct Hr as (s' & Hm & Hq). intros Hm'. rewrite Hm in Hm'. injection Hm' as ->. apply Hq. reflexivity.
  Qed.

  (** ... and for every participant of every pool under every schedule and
      oracle: a writer whose received responses all lie in the class ends with no
      I/O error and no panic, wherever the others are in their own operations. *)
  Definition writers_race_free_in_any_pool {A} (p : prog (outcome A)) : Prop :=
    forall (o : oracle) (f0 f : fs) (pool : list (thread (outcome A))) (j : nat) (sched : list nat) (t' : thread (outcome A)) r,
      nth_error pool j = Some (fst (th_start p o f0)) ->
      nth_error (fst (run_sched sched (pool, f))) j = Some t' ->
      th_prog t' = Ret r ->
      mon_run w_step true (th_trace t') = Some true -> no_io_error r.

  Lemma rw_pool {A} (p : prog (outcome A)) : rw p no_io_error -> writers_race_free_in_any_pool p.
  Proof.
    intros H o f0 f pool j sched t' r Hj Hj' Hret Hclean.
    pose proof (th_start_ok w_step p _ true o f0 (H true)) as Hok.
    destruct (pool_wp_finished w_step _ true sched pool f j _ Hj Hok t' r Hj' Hret) as (s & Hm & Hq).
    rewrite Hclean in Hm. injection Hm as <-. apply Hq. reflexivity.
  Qed.
End Writers.
