(** Concurrent activity never surfaces as an error in lookups and touches.

    What another participant's ALLOWED actions (unlink, rename over, link,
    create) can do to one of my calls is: make a path-naming call that looks an
    entry up fail with an absence error (ENOENT / ESTALE).  They cannot make a
    descriptor-based call fail, nor make the kernel answer with a result of the
    wrong shape.  [race_ok] is that response class.  Theorem: as long as every
    response a lookup or touch receives is in the class, it returns no I/O
    error and does not panic — through plain, sharded, read-only and stacked
    caches.  Stated with a monitor, so that it lifts to every participant of
    every pool under every schedule ([PoolLift]). *)
From Coq Require Import List NArith ZArith String Bool Arith Lia.
From Kismet Require Import Pure.Hash FS.Fs FS.Prog Spec.Wp Ops.Ops.
Import ListNotations.

Definition absent_errno (e : errno) : bool := match e with ENOENT | ESTALE => true | _ => false end.

Definition race_ok (c : call) (r : res) : bool :=
  match c, r with
  | COpen _ _, RFd _ => true
  | COpen _ _, RErr e => absent_errno e
  | CStat _ _, RStat _ => true
  | CStat _ _, RErr e => absent_errno e
  | CFstat _, RStat _ => true
  | CRead _ _, RData _ => true
  | (CFutimens _ _ _ | CClose _ | CSeek _ _ | CCloseDir _), ROk => true
  | (COpen _ _ | CStat _ _ | CFstat _ | CRead _ _ | CFutimens _ _ _ | CClose _ | CSeek _ _ | CCloseDir _), _ => false
  | _, _ => true
  end.

(** state: "every response so far was in the class" *)
Definition r_step (s : bool) (ev : event) : option bool :=
  match ev with EvCall c r => Some (s && race_ok c r)%bool | _ => Some s end.

Definition no_io_error {A} (r : outcome A) : Prop :=
  match r with Err (OsErr _) | Panic => False | _ => True end.

Definition rf {A} (p : prog A) (Q : A -> Prop) : Prop :=
  forall s, wp r_step p (fun a s' => s' = true -> Q a) s.

Lemma dirty_stays {A} (p : prog A) (Q : A -> Prop) : wp r_step p (fun a s' => s' = true -> Q a) false.
Proof.
  induction p as [a|c k IH|k IH|w k IH|n k IH|h i k IH|h i v k IH|k IH|t pl k IH]; cbn [wp]; unfold after; cbn [r_step andb]; auto.
  intros H. discriminate H.
Qed.

Lemma rf_ret {A} (a : A) (Q : A -> Prop) : Q a -> rf (Ret a) Q.
Proof. intros H s _. exact H. Qed.

Lemma rf_bind {A B} (p : prog A) (f : A -> prog B) (Q1 : A -> Prop) (Q2 : B -> Prop) :
  rf p Q1 -> (forall a, Q1 a -> rf (f a) Q2) -> rf (bind p f) Q2.
Proof.
  intros Hp Hf s. apply wp_bind. eapply wp_mono; [|apply Hp].
  intros a [|] H1; [apply Hf, H1; reflexivity|apply dirty_stays].
Qed.

Lemma rf_weaken {A} (p : prog A) (Q Q' : A -> Prop) : rf p Q -> (forall a, Q a -> Q' a) -> rf p Q'.
Proof. intros H HQ s. eapply wp_mono; [|apply H]. intros a s' H1 H2. apply HQ, H1, H2. Qed.

(** One call: case analysis on the responses of the class. *)
Lemma rf_call {B} c (k : res -> prog B) (Q : B -> Prop) :
  (forall r, race_ok c r = true -> rf (k r) Q) -> rf (Call c k) Q.
Proof.
  intros H s. cbn [wp]. intros r. unfold after. cbn [r_step].
  destruct (race_ok c r) eqn:Hr.
  - rewrite andb_true_r. apply H, Hr.
  - rewrite andb_false_r. apply dirty_stays.
Qed.

Ltac rf_call_cases :=
  apply rf_call; let r := fresh "r" in let Hr := fresh "Hr" in intros r Hr;
  destruct r as [| | | | |[]]; cbn [race_ok absent_errno] in Hr; try discriminate Hr; clear Hr.

Definition ok_or_absent {A} (r : outcome A) : Prop :=
  match r with Ok _ => True | Err e => is_absent e = true | Panic => False end.
Definition is_Ok {A} (r : outcome A) : Prop := match r with Ok _ => True | _ => False end.

Lemma rf_set_atime p a : rf (set_times p a None) ok_or_absent.
Proof.
  unfold set_times, unit_call, quiet. cbn [bind call1].
  rf_call_cases; cbn [bind].
  - rf_call_cases. cbn [bind]. rf_call_cases. cbn [bind]. apply rf_ret. exact I.
  - rf_call_cases; cbn [bind].
    + rf_call_cases. cbn [bind]. rf_call_cases. cbn [bind]. apply rf_ret. exact I.
    + apply rf_ret. reflexivity.
    + apply rf_ret. reflexivity.
  - rf_call_cases; cbn [bind].
    + rf_call_cases. cbn [bind]. rf_call_cases. cbn [bind]. apply rf_ret. exact I.
    + apply rf_ret. reflexivity.
    + apply rf_ret. reflexivity.
Qed.

Lemma rf_now {A} (k : Z -> prog A) Q : (forall t, rf (k t) Q) -> rf (Now k) Q.
Proof. intros H s. cbn [wp]. intros t. unfold after. cbn [r_step]. apply H. Qed.

Lemma rf_touch p : rf (touch p) no_io_error.
Proof.
  unfold touch. apply rf_now. intros t. eapply rf_bind; [apply rf_set_atime|].
  intros [u|e|] H; apply rf_ret; cbn in *; auto. rewrite H. exact I.
Qed.

Lemma rf_ensure_file_touched fd : rf (ensure_file_touched fd) is_Ok.
Proof.
  unfold ensure_file_touched, try, stat_call, unit_call. cbn [bind call1].
  rf_call_cases. cbn [bind]. destruct (_ <? _)%Z; [|apply rf_ret; exact I].
  cbn [bind call1]. rf_call_cases. cbn [bind]. apply rf_ret. exact I.
Qed.

Lemma absent_is_absent e : absent_errno e = true -> is_absent (OsErr e) = true.
Proof. destruct e; cbn; auto. Qed.

Lemma rf_cd_get d name : rf (cd_get d name) no_io_error.
Proof.
  unfold cd_get. destruct (validate name) as [u|e|] eqn:Hv; try (apply rf_ret; unfold validate in Hv; destruct (valid_name name); inversion Hv; exact I).
  cbn [bind call1]. rf_call_cases; cbn [bind].
  - eapply rf_bind; [apply rf_ensure_file_touched|]. intros a _. apply rf_ret. exact I.
  - apply rf_ret. exact I.
  - apply rf_ret. exact I.
Qed.

Lemma rf_cd_touch d name : rf (cd_touch d name) no_io_error.
Proof.
  unfold cd_touch. destruct (validate name) as [u|e|] eqn:Hv; try (apply rf_ret; unfold validate in Hv; destruct (valid_name name); inversion Hv; exact I).
  apply rf_touch.
Qed.

Lemma rf_try {A B} (p : prog (outcome A)) (f : A -> prog (outcome B)) :
  rf p no_io_error -> (forall a, rf (f a) no_io_error) -> rf (try p f) no_io_error.
Proof.
  intros Hp Hf. unfold try. eapply rf_bind; [exact Hp|].
  intros [a|e|] H; [apply Hf|apply rf_ret; exact H|destruct H].
Qed.

Lemma rf_quiet_close c : (forall r, race_ok c r = true -> r = ROk) -> rf (quiet c) (fun _ => True).
Proof. intros _. unfold quiet. cbn [bind call1]. apply rf_call. intros r _. cbn [bind]. apply rf_ret. exact I. Qed.

Lemma rf_try_c {A B} (p : prog (outcome A)) (cl : prog unit) (f : A -> prog (outcome B)) :
  rf p no_io_error -> rf cl (fun _ => True) -> (forall a, rf (f a) no_io_error) -> rf (try_c p cl f) no_io_error.
Proof.
  intros Hp Hcl Hf. unfold try_c. eapply rf_bind; [exact Hp|].
  intros [a|e|] H; [apply Hf| |destruct H].
  eapply rf_bind; [exact Hcl|]. intros _ _. apply rf_ret. exact H.
Qed.

Lemma rf_sh_get dir n t k : rf (sh_get dir n t k) no_io_error.
Proof.
  unfold sh_get. destruct (shard_ids _ _ _) as [h1 h2]. apply rf_try; [apply rf_cd_get|].
  intros [fd|]; [apply rf_ret; exact I|apply rf_cd_get].
Qed.
Lemma rf_sh_touch dir n t k : rf (sh_touch dir n t k) no_io_error.
Proof.
  unfold sh_touch. destruct (shard_ids _ _ _) as [h1 h2]. apply rf_try; [apply rf_cd_touch|].
  intros [|]; [apply rf_ret; exact I|apply rf_cd_touch].
Qed.
Lemma rf_f_get f k : rf (f_get f k) no_io_error.
Proof. unfold f_get. destruct f; [apply rf_cd_get|apply rf_sh_get]. Qed.
Lemma rf_f_touch f k : rf (f_touch f k) no_io_error.
Proof. unfold f_touch. destruct f; [apply rf_cd_touch|apply rf_sh_touch]. Qed.

Lemma rf_skip_or_close (ret : option nat) : rf (match ret with Some p => quiet (CClose p) | None => skip end) (fun _ => True).
Proof. destruct ret; [apply rf_quiet_close; intros r; destruct r; cbn; congruence|apply rf_ret; exact I]. Qed.

Lemma rf_ro_get_loop stack k : forall ret, rf (ro_get_loop stack None k ret) no_io_error.
Proof.
  induction stack as [|c rest IH]; intros ret; cbn [ro_get_loop]; [apply rf_ret; exact I|].
  apply rf_try_c; [apply rf_f_get|apply rf_skip_or_close|].
  intros [hfd|]; [apply rf_ret; exact I|apply IH].
Qed.
Lemma rf_ro_get stack k : rf (ro_get stack None k) no_io_error.
Proof. unfold ro_get. destruct stack; [apply rf_ret; exact I|apply rf_ro_get_loop]. Qed.
Lemma rf_ro_touch stack k : rf (ro_touch stack k) no_io_error.
Proof.
  induction stack as [|c rest IH]; cbn [ro_touch]; [apply rf_ret; exact I|].
  apply rf_try; [apply rf_f_touch|]. intros [|]; [apply rf_ret; exact I|exact IH].
Qed.

(** ** The stacked API *)
Theorem rf_cache_get cfg k : s_checker cfg = None -> rf (cache_get cfg k) no_io_error.
Proof.
  intros Hc. unfold cache_get. rewrite Hc. destruct (s_writer cfg) as [w|]; [|apply rf_ro_get].
  apply rf_try; [apply rf_f_get|]. intros [f|]; [|apply rf_ro_get].
  unfold with_checked. rewrite Hc. apply rf_try; [apply rf_ret; exact I|]. intros f'. apply rf_ret. exact I.
Qed.
Theorem rf_cache_touch cfg k : rf (cache_touch cfg k) no_io_error.
Proof.
  unfold cache_touch. destruct (s_writer cfg) as [w|]; [|apply rf_ro_touch].
  apply rf_try; [apply rf_f_touch|]. intros [|]; [apply rf_ret; exact I|apply rf_ro_touch].
Qed.

(** On every sequential run whose responses all lie in the class. *)
Theorem race_free_run {A} (p : prog (outcome A)) : rf p no_io_error -> forall w o,
  let '(r, _, _, tr) := run p w o in
  mon_run r_step true tr = Some true -> no_io_error r.
Proof.
  intros H w o. pose proof (wp_run r_step p _ true w o (H true)) as Hr.
  destruct (run p w o) as [[[r w'] o'] tr]. destruct Hr as (s' & Hm & Hq). intros Hm'. rewrite Hm in Hm'. injection Hm' as ->. apply Hq. reflexivity.
Qed.
