(** A sharded [set] / [put], successful or not, faulted or not, whatever shard it
    chooses and whichever shard it then maintains: every path of the cache other
    than the key's own two candidate entries - every other key's entry in every
    shard directory, in particular - keeps its binding or disappears.  A sharded
    write never binds another name. *)
From Coq Require Import List NArith ZArith String Ascii Bool Arith Lia.
From Kismet Require Import Pure.Hash Pure.Trigger FS.Fs FS.Prog Spec.Wp Spec.ClassMon Spec.Calm Ops.Ops
  Conc.Effect Proofs.HashProofs Proofs.PutNeverOverwrites Proofs.NeverMasked
  Seq.Plain Seq.Steps Seq.Bind Seq.Sane Proofs.KvSeq Proofs.KvShard.
Import ListNotations.

Section ShardOthers.
  Variable dir : path.
  Variable nsh total : N.
  Variable k : key.
  Variable v : path.
  Notation name := (k_name k).
  Notation dcd := (shard_cdir dir nsh total).
  Notation dstp sid := (cd_base (dcd sid) ++ [name]).
  Hypothesis Hdir : plainp dir = true.
  Hypothesis Hname : valid_name name = true.
  Hypothesis Hv : plainp v = true.

  (** the observed path: plain, not the source, not one of the key's entries, deeper than a shard directory *)
  Variable x : path.
  Hypothesis Hx : plainp x = true.
  Hypothesis Hxv : x <> v.
  Hypothesis Hxd : forall sid, x <> dstp sid.
  Hypothesis Hxl : List.length dir + 1 < List.length x.

  Definition xcls (c : call) : bool := (spares x c || unl x c)%bool.
  Definition xs_step (s : unit) (ev : event) : option unit :=
    match ev with EvCall c _ => if xcls c then Some tt else None | _ => Some tt end.

  Lemma xcls_nr c : rebind_paths c = [] -> xcls c = true.
  Proof. intros H. unfold xcls, spares. rewrite H. reflexivity. Qed.
  Lemma xs_call (s : unit) c r : True -> xcls c = true -> exists s', xs_step s (EvCall c r) = Some s' /\ True.
  Proof. intros _ Hc. cbn [xs_step]. rewrite Hc. eauto. Qed.
  Lemma xs_sil (s : unit) ev : True -> match ev with EvCall _ _ => True | _ => exists s', xs_step s ev = Some s' /\ True end.
  Proof. intros _. destruct ev; cbn; eauto. Qed.

  Lemma xcls_unlink p : plainp p = true -> xcls (CUnlink p) = true.
  Proof.
    intros Hp. unfold xcls, spares. cbn [rebind_paths forallb unl]. rewrite Hp. cbn [andb]. rewrite andb_true_r.
    destruct (path_eqb p x); reflexivity.
  Qed.

  Lemma neq_eqb (a b : path) : a <> b -> path_eqb a b = false.
  Proof. intros H. destruct (path_eqb a b) eqn:E; [apply path_eqb_eq in E; contradiction|reflexivity]. Qed.

  (** everything a write on any shard may do to names spares [x], or unlinks it *)
  Lemma wr_ok_xcls sid c : wr_ok (dcd sid) name v c = true -> xcls c = true.
  Proof.
    intros H. pose proof (dstp_plain dir nsh total k Hdir Hname sid) as Hdp.
    destruct c; try (apply xcls_nr; reflexivity); cbn [wr_ok] in H; try discriminate H.
    - apply andb_true_iff in H. destruct H as (Ha & Hb). apply path_eqb_eq in Ha. apply path_eqb_eq in Hb. subst p q.
      unfold xcls, spares. cbn [rebind_paths forallb]. rewrite Hv, Hdp. cbn [andb]. rewrite andb_true_r.
      rewrite (neq_eqb v x (fun E => Hxv (eq_sym E))), (neq_eqb (dstp sid) x (fun E => Hxd sid (eq_sym E))). reflexivity.
    - apply andb_true_iff in H. destruct H as (_ & Hb). apply path_eqb_eq in Hb. subst q.
      unfold xcls, spares. cbn [rebind_paths forallb]. rewrite Hdp. cbn [andb]. rewrite andb_true_r.
      rewrite (neq_eqb (dstp sid) x (fun E => Hxd sid (eq_sym E))). reflexivity.
    - apply xcls_unlink, H.
    - apply andb_true_iff in H. destruct H as (Hp & Hl). apply Nat.leb_le in Hl.
      unfold xcls, spares. cbn [rebind_paths forallb]. rewrite Hp. cbn [andb]. rewrite andb_true_r.
      destruct (path_eqb p x) eqn:H2; [|reflexivity]. apply path_eqb_eq in H2. subst p.
      rewrite (dcd_base dir nsh total), app_length in Hl. cbn in Hl. lia.
  Qed.

  Lemma xs_force_maintain h id : wpv xs_step (force_maintain_shard h dir nsh total id) (fun _ _ => True) tt.
  Proof.
    unfold force_maintain_shard. apply wpv_try.
    eapply wpv_mono; [|apply (g_definitely_cleanup xs_step (fun _ => True) xcls xcls_nr xs_call xs_sil (dcd id) (cd_base (dcd id)) tt)]; [| | |exact I].
    - intros [est|e|] [] _; exact I.
    - intros n Hn. apply xcls_unlink. rewrite plainp_app, (dcd_plain dir nsh total Hdir id). cbn. now rewrite Hn.
    - intros n Hn. apply xcls_unlink. unfold cd_temp. rewrite !plainp_app, (dcd_plain dir nsh total Hdir id). cbn. now rewrite Hn.
  Qed.

  Theorem xs_sh_publish (which : bool) h :
    wpv xs_step (sh_publish (if which then cd_set else cd_put) h dir nsh total k v) (fun _ _ => True) tt.
  Proof.
    assert (Heq : (if which then cd_set else cd_put) = cd_publish (if which then insert_or_update else insert_or_touch)) by (destruct which; reflexivity).
    rewrite Heq.
    unfold sh_publish, sort_by_load. unfold wpv. cbn [bind wp]. intros l1 l2. cbn [bind].
    destruct (if (_ <=? _)%N then _ else _) as [h1 h2].
    change (wpv xs_step (try (file_exists (dir ++ [format_id h2]) name) (fun ex =>
                             let sid := if ex then h2 else h1 in
                             try (cd_publish (if which then insert_or_update else insert_or_touch) (dcd sid) name v) (fun upd =>
                               update_estimate h h1 upd ;;;
                               match upd with
                               | Some _ => RandShard (eff_shards nsh) (fun r0 => force_maintain_shard h dir nsh total (other_shard_id (eff_shards nsh) sid r0))
                               | None => LoadGet h h1 (fun l => if (sharded_shard_capacity nsh total <? l / 2)%N then Mark 20 [] (force_maintain_shard h dir nsh total sid) else Ret (Ok tt))
                               end))) (fun _ _ => True) tt).
    apply wpv_try. unfold file_exists. rewrite (validate_ok name Hname). cbn [bind call1]. apply wpv_call. intros r _.
    cbn [xs_step]. rewrite (xcls_nr (CStat ((dir ++ [format_id h2]) ++ [name]) true) eq_refl).
    assert (Hsid : forall sid,
              wpv xs_step (try (cd_publish (if which then insert_or_update else insert_or_touch) (dcd sid) name v) (fun upd =>
                             update_estimate h h1 upd ;;;
                             match upd with
                             | Some _ => RandShard (eff_shards nsh) (fun r0 => force_maintain_shard h dir nsh total (other_shard_id (eff_shards nsh) sid r0))
                             | None => LoadGet h h1 (fun l => if (sharded_shard_capacity nsh total <? l / 2)%N then Mark 20 [] (force_maintain_shard h dir nsh total sid) else Ret (Ok tt))
                             end)) (fun _ _ => True) tt).
    { intros sid. apply wpv_try.
      assert (Hmir : forall (s0 : unit) ev (s0' : unit), o_step (dcd sid) name v s0 ev = Some s0' -> xs_step ((fun _ => tt) s0) ev = Some ((fun _ => tt) s0')).
      { intros [] ev [] Ho. destruct ev as [c r0| | | | | ]; cbn [o_step xs_step] in *; try reflexivity.
        destruct (wr_ok (dcd sid) name v c) eqn:Hc; [|discriminate]. rewrite (wr_ok_xcls sid c Hc). reflexivity. }
      pose proof (wpv_refine (o_step (dcd sid) name v) xs_step (fun _ => tt) Hmir _ _ tt
                    (o_cd_publish (dcd sid) name v (dcd_plain dir nsh total Hdir sid) Hname Hv which)) as Href.
      eapply wpv_mono; [|exact Href].
      intros [upd|e|] [] _; try exact I.
      apply wpv_bind.
      eapply wpv_mono; [|apply (gclass xs_step (fun _ => True) xcls xs_call xs_sil (update_estimate h h1 upd) anyc)];
        [|unfold update_estimate; allc_auto|exact I].
      intros [] [] _. destruct upd as [y|].
      + unfold wpv. cbn [wp]. intros r0. apply (wpv_sil xs_step (fun _ => True) xs_sil); [exact I|exact I|]. intros [] _. apply xs_force_maintain.
      + unfold wpv. cbn [wp]. intros l. destruct (_ <? _)%N; [|exact I]. cbn [wp].
        apply (wpv_sil xs_step (fun _ => True) xs_sil); [exact I|exact I|]. intros [] _. apply xs_force_maintain. }
    destruct r as [| |st| | |er]; try (apply wpv_ret; exact I); try apply Hsid.
    destruct (is_absent (OsErr er)); [apply Hsid|apply wpv_ret; exact I].
  Qed.

  Variable f0 : fs.
  Definition xs_inv (_ : unit) (f : fs) : Prop := name_of f x = name_of f0 x \/ name_of f x = None.

  Lemma xs_inv_step s ev s' f f' : xs_step s ev = Some s' -> step1 f ev f' -> names_plain f -> xs_inv s f -> xs_inv s' f'.
  Proof.
    intros Hm H1 _ HI. unfold xs_inv in *.
    destruct ev as [c r|t|wt b|m y|fr|tg pl]; cbn [xs_step] in Hm.
    2-6: rewrite (step1_spares _ _ _ x H1 I); exact HI.
    destruct (xcls c) eqn:Hc; [|discriminate]. unfold xcls in Hc. apply orb_true_iff in Hc. destruct Hc as [Hc|Hc].
    - rewrite (step1_spares _ _ _ x H1 Hc). exact HI.
    - destruct (unl_self f c r f' x Hx Hc H1) as [H|H]; [rewrite H; exact HI|right; exact H].
  Qed.

  Theorem sharded_others_keep_or_vanish (which : bool) h w o : w_fs w = f0 -> names_plain f0 ->
    let '(_, w', _, _) := run (sh_publish (if which then cd_set else cd_put) h dir nsh total k v) w o in
    name_of (w_fs w') x = name_of f0 x \/ name_of (w_fs w') x = None.
  Proof.
    intros Hw Hpl.
    pose proof (sane_run xs_step _ _ tt xs_inv (xs_sh_publish which h) xs_inv_step w o ltac:(rewrite Hw; exact Hpl) ltac:(left; rewrite Hw; reflexivity)) as H.
    destruct (run _ w o) as [[[r w'] o'] tr]. destruct H as ([] & _ & HI & _). exact HI.
  Qed.
  Theorem sharded_others_gen {A} (p : prog A) Q w o : wpv xs_step p Q tt -> w_fs w = f0 -> names_plain f0 ->
    let '(_, w', _, _) := run p w o in
    name_of (w_fs w') x = name_of f0 x \/ name_of (w_fs w') x = None.
  Proof.
    intros Hp Hw Hpl.
    pose proof (sane_run xs_step p Q tt xs_inv Hp xs_inv_step w o ltac:(rewrite Hw; exact Hpl) ltac:(left; rewrite Hw; reflexivity)) as H.
    destruct (run p w o) as [[[r w'] o'] tr]. destruct H as ([] & _ & HI & _). exact HI.
  Qed.
End ShardOthers.
