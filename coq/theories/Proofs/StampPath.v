(** Writes enqueue THEIR value fresh: for arbitrary environment responses, every
    publishing rename or link whose source is the value file [v] is preceded,
    since the last clock reading [t], by an accepted futimens - on a descriptor
    opened on [v] - with modification time [t] and access time [t - 120 s].  The
    stamp is on the file that is published. *)
From Coq Require Import List NArith ZArith String Bool Arith Lia.
From Kismet Require Import Pure.Hash FS.Fs FS.Prog Spec.Wp Spec.ClassMon Spec.Calm Spec.Chain Ops.Ops Proofs.PutNeverOverwrites Proofs.FreshStamp.
Import ListNotations.
Local Open Scope Z_scope.

Section PerFile.
  Variable v : path.

  Record tstate := mkT { t_fd : option nat; t_clock : option Z; t_stamped : bool }.

  Definition tp_step (s : tstate) (ev : event) : option tstate :=
    match ev with
    | EvNow t => Some (mkT (t_fd s) (Some t) false)
    | EvCall (COpen p _) (RFd fd) => if path_eqb p v then Some (mkT (Some fd) (t_clock s) (t_stamped s)) else Some s
    | EvCall (CFutimens fd (Some a) (Some m)) r =>
        match r, t_fd s, t_clock s with
        | RErr _, _, _ => Some s
        | _, Some fd0, Some t => if (Nat.eqb fd fd0 && (m =? t) && (a =? t - DELTA_NS))%bool then Some (mkT (t_fd s) (t_clock s) true) else Some s
        | _, _, _ => Some s
        end
    | EvCall (CRename p _) _ | EvCall (CLink p _) _ =>
        if path_eqb p v then (if t_stamped s then Some s else None) else Some s
    | _ => Some s
    end.

  Definition tr {A} (p : prog A) : Prop := forall s, wp tp_step p (fun _ _ => True) s.

  Lemma tr_bind {A B} (p : prog A) (f : A -> prog B) : tr p -> (forall a, tr (f a)) -> tr (bind p f).
  Proof. intros Hp Hf s. apply wp_bind. eapply wp_mono; [|apply Hp]. intros a s' _. apply Hf. Qed.
  Lemma tr_ret {A} (a : A) : tr (Ret a). Proof. intros s. exact I. Qed.
  Lemma tr_try {A B} (p : prog (outcome A)) (f : A -> prog (outcome B)) : tr p -> (forall a, tr (f a)) -> tr (try p f).
  Proof. intros Hp Hf. unfold try. apply tr_bind; [exact Hp|]. intros [a|e|]; [apply Hf|apply tr_ret|apply tr_ret]. Qed.

  Lemma tp_total_nrl s c r : nrl c = true -> exists s1, tp_step s (EvCall c r) = Some s1.
  Proof.
    intros Hc. destruct c; try discriminate Hc; cbn [tp_step]; eauto.
    - destruct r; eauto. destruct (path_eqb p v); eauto.
    - destruct atime, mtime; eauto. destruct r, (t_fd s), (t_clock s); eauto; destruct (_ && _)%bool; eauto.
  Qed.

  Lemma tr_of_nrl {A} (p : prog A) Q : allc nrl p Q -> tr p.
  Proof.
    unfold allc, tr.
    induction p as [a|c k IH|k IH|w k IH|n k IH|h i k IH|h i x k IH|k IH|t pl k IH]; cbn [wp]; unfold after; cbn [k_step]; intros H s; auto.
    - intros r. specialize (H r). destruct (nrl c) eqn:Hc; [|contradiction].
      destruct (tp_total_nrl s c r Hc) as (s1 & ->). apply IH, H.
    - intros t. cbn [tp_step]. apply IH, H.
    - intros b. cbn [tp_step]. apply IH, H.
    - intros x. cbn [tp_step]. apply IH, H.
    - intros x. cbn [tp_step]. apply IH, H.
    - cbn [tp_step]. apply IH, H.
  Qed.

  (** the stamping step on [v]: after it returns Ok the state is "stamped" *)
  Lemma stamp_then_v {B} (f : unit -> prog (outcome B)) :
    (forall s, t_stamped s = true -> wp tp_step (f tt) (fun _ _ => True) s) ->
    tr (try (move_to_back_of_list v) f).
  Proof.
    intros Hf s. unfold try, move_to_back_of_list. cbn [bind wp]. intros t. unfold after. cbn [tp_step].
    unfold set_times. cbn [bind call1 wp]. intros r. unfold after. cbn [tp_step].
    assert (Hgo : forall fd s0, t_fd s0 = Some fd -> t_clock s0 = Some t -> wp tp_step
        (x <- (x <- unit_call (CFutimens fd (Some (t - DELTA_NS)) (Some t)) ;; quiet (CClose fd) ;;; Ret x) ;;
         match x with Ok a => f a | Err e => Ret (Err e) | Panic => Ret Panic end) (fun _ _ => True) s0).
    { intros fd s0 Hfd Hck. unfold unit_call, quiet. cbn [bind call1 wp]. intros r2. unfold after. cbn [tp_step]. rewrite Hfd, Hck.
      rewrite Nat.eqb_refl, !Z.eqb_refl. cbn [andb].
      destruct r2 as [| | | | |er]; cbn [wp bind]; intros r3; unfold after; cbn [tp_step wp]; try (apply Hf; reflexivity); exact I. }
    rewrite path_eqb_refl.
    destruct r as [|fd| | | |er]; try (cbn [wp bind]; intros r2; unfold after; cbn [tp_step]; rewrite ?path_eqb_refl;
      destruct r2 as [|fd2| | | |er2]; cbn [wp bind]; try exact I; apply Hgo; reflexivity).
    apply Hgo; reflexivity.
  Qed.

  #[local] Hint Extern 1 (nrl _ = true) => reflexivity : allc.
  #[local] Hint Resolve allc_call : allc.

  Lemma tr_insert_or_update b : tr (insert_or_update v b).
  Proof.
    unfold insert_or_update. apply stamp_then_v. intros s Hst.
    unfold try, set_read_only, stat_call, unit_call, ensure_file_removed. cbn [bind call1 wp]. intros r. unfold after. cbn [tp_step].
    destruct r as [| |st| | |er]; cbn [wp bind]; try exact I.
    intros r2. unfold after. cbn [tp_step]. destruct r2 as [| | | | |er2]; cbn [wp bind]; try exact I;
      intros r3; unfold after; cbn [tp_step]; rewrite path_eqb_refl, Hst; destruct r3 as [| | | | |er3]; cbn [wp bind]; try exact I;
      intros r4; unfold after; cbn [tp_step wp]; exact I.
  Qed.

  Lemma tr_insert_or_touch b : tr (insert_or_touch v b).
  Proof.
    unfold insert_or_touch. apply stamp_then_v. intros s Hst.
    unfold try at 1. unfold set_read_only, stat_call, unit_call. cbn [bind call1 wp]. intros r. unfold after. cbn [tp_step].
    destruct r as [| |st| | |er]; cbn [wp bind]; try exact I.
    intros r2. unfold after. cbn [tp_step].
    assert (Hrest : wp tp_step
       (r0 <- call1 (CLink v b);;
        match r0 with
        | RErr EEXIST => try (touch b) (fun _ : bool => ensure_file_removed v)
        | RErr e => Ret (Err (OsErr e))
        | _ => ensure_file_removed v
        end) (fun _ _ => True) s).
    { cbn [bind call1 wp]. intros r3. unfold after. cbn [tp_step]. rewrite path_eqb_refl, Hst.
      assert (Hfin : tr (ensure_file_removed v)) by (eapply tr_of_nrl with (Q := anyc); unfold ensure_file_removed, unit_call; allc_auto).
      assert (Htouch : tr (try (touch b) (fun _ : bool => ensure_file_removed v))).
      { apply tr_try; [|intros _; exact Hfin]. eapply tr_of_nrl with (Q := anyc). unfold touch, set_times, unit_call, quiet. allc_auto. }
      destruct r3 as [| | | | |er3]; try apply Hfin. destruct er3; try (cbn [wp]; exact I). apply Htouch. }
    destruct r2 as [| | | | |er2]; cbn [wp bind]; try exact I; exact Hrest.
  Qed.

  Ltac nrlt_tac L := eapply tr_of_nrl with (Q := anyc); first [apply L; exact base_nrl | apply L].

  Theorem tr_cd_publish (which : bool) d name : tr (cd_publish (if which then insert_or_update else insert_or_touch) d name v).
  Proof.
    assert (Hins : forall b, tr ((if which then insert_or_update else insert_or_touch) v b)) by (intros b; destruct which; [apply tr_insert_or_update|apply tr_insert_or_touch]).
    unfold cd_publish. destruct (validate name); try apply tr_ret.
    apply tr_try; [nrlt_tac ck_maybe_cleanup|]. intros ret.
    apply tr_bind; [apply Hins|]. intros [u|e|]; try apply tr_ret;
      (apply tr_try; [nrlt_tac ck_create_dir_all|]; intros _; apply tr_try; [apply Hins|intros _; apply tr_ret]).
  Qed.

  Theorem tr_sh_publish (which : bool) h dir n t k : tr (sh_publish (if which then cd_set else cd_put) h dir n t k v).
  Proof.
    unfold sh_publish. apply tr_bind; [nrlt_tac ck_sort_by_load|]. intros [h1 h2].
    apply tr_try; [nrlt_tac ck_file_exists|]. intros ex.
    apply tr_try; [destruct which; [apply (tr_cd_publish true)|apply (tr_cd_publish false)]|]. intros upd.
    apply tr_bind; [nrlt_tac ck_update_estimate|]. intros _.
    destruct upd.
    - intros s. cbn [wp]. intros r. unfold after. cbn [tp_step]. nrlt_tac ck_force_maintain.
    - intros s. cbn [wp]. intros l. destruct (_ <? _)%N; [|apply tr_ret].
      cbn [wp]. unfold after. cbn [tp_step]. nrlt_tac ck_force_maintain.
  Qed.

  Theorem tr_cache_write (which : bool) cfg k : tr (if which then cache_set cfg k v else cache_put cfg k v).
  Proof.
    assert (H : tr (try (maybe_sync_path cfg v) (fun _ => write_impl which cfg k v))).
    { apply tr_try; [nrlt_tac ck_maybe_sync|]. intros _.
      unfold write_impl. destruct (s_writer cfg) as [f|]; [|apply tr_ret].
      destruct f as [dir cap|dir n t]; destruct which; cbn [f_set f_put]; unfold drop_opt.
      - apply tr_try; [apply (tr_cd_publish true)|intros _; apply tr_ret].
      - apply tr_try; [apply (tr_cd_publish false)|intros _; apply tr_ret].
      - apply (tr_sh_publish true).
      - apply (tr_sh_publish false). }
    destruct which; exact H.
  Qed.

  Theorem stamp_path_run {A} (p : prog A) : tr p -> forall w o s,
    let '(_, _, _, trc) := run p w o in mon_run tp_step s trc <> None.
  Proof.
    intros H w o s. pose proof (wp_run tp_step p _ s w o (H s)) as Hr.
    destruct (run p w o) as [[[a w'] o'] trc]. destruct Hr as (s' & Hm & _). rewrite Hm. discriminate.
  Qed.
End PerFile.
