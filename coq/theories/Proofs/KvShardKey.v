(** A sharded [set] / [put] and ANY entry path [y] of the cache (in particular the
    key's own two candidate entries): successful or not, under any fault, whatever
    shard is chosen and whichever shard is then maintained, [y] ends bound to what
    it was bound to, to nothing, or to the inode the source named - never to
    anything else. *)
From Coq Require Import List NArith ZArith String Ascii Bool Arith Lia.
From Kismet Require Import Pure.Hash Pure.Trigger FS.Fs FS.Prog Spec.Wp Spec.ClassMon Spec.Calm Ops.Ops
  Conc.Effect Proofs.HashProofs Proofs.PutNeverOverwrites Proofs.NeverMasked
  Seq.Plain Seq.Steps Seq.Bind Seq.Sane Proofs.KvSeq Proofs.KvShard.
Import ListNotations.

Section ShardKey.
  Variable dir : path.
  Variable nsh total : N.
  Variable k : key.
  Variable v : path.
  Notation name := (k_name k).
  Notation dcd := (shard_cdir dir nsh total).
  Notation dstp sid := (cd_base (dcd sid) ++ [name]).
  Hypothesis Hdir : plainp dir = true.
  Hypothesis Hname : valid_name name = true.
  Hypothesis Hv : plainp v = true.
  Hypothesis Hout : forall q, v <> dir ++ q.
  Hypothesis Hnanc : forall q, dir <> v ++ q.

  Variable y : path.
  Hypothesis Hy : plainp y = true.
  Hypothesis Hyv : y <> v.
  Hypothesis Hyl : List.length dir + 1 < List.length y.

  Definition ycls (c : call) : bool :=
    match c with
    | CRename p q => (path_eqb p v && plainp q && negb (path_eqb q v))%bool
    | CLink p q => (plainp q && negb (path_eqb q v) && (negb (path_eqb q y) || path_eqb p v))%bool
    | CUnlink p => plainp p
    | _ => (spares y c && spares v c)%bool
    end.

  Definition ys_step (s : unit) (ev : event) : option unit :=
    match ev with EvCall c _ => if ycls c then Some tt else None | _ => Some tt end.

  Lemma ycls_nr c : rebind_paths c = [] -> ycls c = true.
  Proof. intros H. destruct c; try discriminate H; unfold ycls, spares; rewrite ?H; reflexivity. Qed.
  Lemma ys_call (s : unit) c r : True -> ycls c = true -> exists s', ys_step s (EvCall c r) = Some s' /\ True.
  Proof. intros _ Hc. cbn [ys_step]. rewrite Hc. eauto. Qed.
  Lemma ys_sil (s : unit) ev : True -> match ev with EvCall _ _ => True | _ => exists s', ys_step s ev = Some s' /\ True end.
  Proof. intros _. destruct ev; cbn; eauto. Qed.

  Lemma neqb (a b : path) : a <> b -> path_eqb a b = false.
  Proof. intros H. destruct (path_eqb a b) eqn:E; [apply path_eqb_eq in E; contradiction|reflexivity]. Qed.

  Lemma ycls_class {A} (p : prog A) Q : allc ycls p Q -> wpv ys_step p (fun a _ => Q a) tt.
  Proof.
    intros H. eapply wpv_mono; [|apply (gclass ys_step (fun _ => True) ycls ys_call ys_sil p Q H tt I)]. intros a s' (Ha & _). exact Ha.
  Qed.

  Lemma y_insert (which : bool) sid : allc ycls ((if which then insert_or_update else insert_or_touch) v (dstp sid)) anyc.
  Proof.
    pose proof (dstp_plain dir nsh total k Hdir Hname sid) as Hdp.
    assert (Hdv : dstp sid <> v) by (intros E; exact (dcd_out dir nsh total v Hout sid [name] (eq_sym E))).
    assert (Hr : ycls (CRename v (dstp sid)) = true) by (cbn [ycls]; rewrite path_eqb_refl, Hdp, (neqb _ _ Hdv); reflexivity).
    assert (Hl : ycls (CLink v (dstp sid)) = true) by (cbn [ycls]; rewrite path_eqb_refl, Hdp, (neqb _ _ Hdv), orb_true_r; reflexivity).
    assert (Hu : ycls (CUnlink v) = true) by exact Hv.
    pose proof (gc_move_to_back ycls ycls_nr v) as H1. pose proof (gc_set_read_only ycls ycls_nr v) as H2.
    pose proof (gc_ensure_file_removed ycls v Hu) as H3. pose proof (gc_touch ycls ycls_nr (dstp sid)) as H4.
    destruct which; unfold insert_or_update, insert_or_touch, try, unit_call; allc_auto; apply allc_call; assumption.
  Qed.

  Lemma ycls_unlink p : plainp p = true -> ycls (CUnlink p) = true.
  Proof. intros H. exact H. Qed.

  Lemma ycls_mkdir sid a b : cd_base (dcd sid) = a ++ b -> ycls (CMkdir a) = true.
  Proof.
    intros Hab. cbn [ycls]. unfold spares. cbn [rebind_paths forallb].
    assert (Hpa : plainp a = true) by (pose proof (dcd_plain dir nsh total Hdir sid) as Hp; rewrite Hab, plainp_app in Hp; apply andb_true_iff in Hp; tauto).
    rewrite Hpa. cbn [andb]. rewrite !andb_true_r.
    assert (Hay : a <> y).
    { intros ->. assert (Hl : List.length (cd_base (dcd sid)) = List.length (y ++ b)) by (rewrite Hab; reflexivity).
      rewrite (dcd_base dir nsh total), !app_length in Hl. cbn in Hl. lia. }
    assert (Hav : a <> v).
    { intros ->. rewrite (dcd_base dir nsh total) in Hab. destruct b as [|z b] using rev_ind.
      - rewrite app_nil_r in Hab. exact (Hout [format_id sid] (eq_sym Hab)).
      - rewrite app_assoc in Hab. apply app_inj_tail in Hab. destruct Hab as (Hab & _). exact (Hnanc _ Hab). }
    rewrite (neqb _ _ Hay), (neqb _ _ Hav). reflexivity.
  Qed.

  Lemma y_cd_publish (which : bool) sid : wpv ys_step (cd_publish (if which then insert_or_update else insert_or_touch) (dcd sid) name v) (fun _ _ => True) tt.
  Proof.
    unfold cd_publish. rewrite (validate_ok name Hname). apply wpv_try.
    eapply wpv_mono; [|apply (g_maybe_cleanup ys_step (fun _ => True) ycls ycls_nr ys_call ys_sil (dcd sid) tt)]; [| | |exact I].
    - intros [ret|e|] [] _; [|exact I..].
      eapply wpv_mono; [|apply (ycls_class _ anyc)]; [auto|].
      pose proof (y_insert which sid) as Hi.
      assert (Hc : allc ycls (create_dir_all (removelast (dstp sid))) anyc).
      { rewrite removelast_last. apply (gc_create_dir_all ycls ycls_nr (cd_base (dcd sid))). intros a b Hab. exact (ycls_mkdir sid a b Hab). }
      unfold try. allc_auto.
    - intros n Hn. apply ycls_unlink. rewrite plainp_app, (dcd_plain dir nsh total Hdir sid). cbn. now rewrite Hn.
    - intros n Hn. apply ycls_unlink. unfold cd_temp. rewrite !plainp_app, (dcd_plain dir nsh total Hdir sid). cbn. now rewrite Hn.
  Qed.

  Lemma ys_force_maintain h id : wpv ys_step (force_maintain_shard h dir nsh total id) (fun _ _ => True) tt.
  Proof.
    unfold force_maintain_shard. apply wpv_try.
    eapply wpv_mono; [|apply (g_definitely_cleanup ys_step (fun _ => True) ycls ycls_nr ys_call ys_sil (dcd id) (cd_base (dcd id)) tt)]; [| | |exact I].
    - intros [est|e|] [] _; exact I.
    - intros n Hn. apply ycls_unlink. rewrite plainp_app, (dcd_plain dir nsh total Hdir id). cbn. now rewrite Hn.
    - intros n Hn. apply ycls_unlink. unfold cd_temp. rewrite !plainp_app, (dcd_plain dir nsh total Hdir id). cbn. now rewrite Hn.
  Qed.

  Theorem ys_sh_publish (which : bool) h :
    wpv ys_step (sh_publish (if which then cd_set else cd_put) h dir nsh total k v) (fun _ _ => True) tt.
  Proof.
    assert (Heq : (if which then cd_set else cd_put) = cd_publish (if which then insert_or_update else insert_or_touch)) by (destruct which; reflexivity).
    rewrite Heq.
    unfold sh_publish, sort_by_load. unfold wpv. cbn [bind wp]. intros l1 l2. cbn [bind].
    destruct (if (_ <=? _)%N then _ else _) as [h1 h2].
    change (wpv ys_step (try (file_exists (dir ++ [format_id h2]) name) (fun ex =>
                             let sid := if ex then h2 else h1 in
                             try (cd_publish (if which then insert_or_update else insert_or_touch) (dcd sid) name v) (fun upd =>
                               update_estimate h h1 upd ;;;
                               match upd with
                               | Some _ => RandShard (eff_shards nsh) (fun r0 => force_maintain_shard h dir nsh total (other_shard_id (eff_shards nsh) sid r0))
                               | None => LoadGet h h1 (fun l => if (sharded_shard_capacity nsh total <? l / 2)%N then Mark 20 [] (force_maintain_shard h dir nsh total sid) else Ret (Ok tt))
                               end))) (fun _ _ => True) tt).
    apply wpv_try. unfold file_exists. rewrite (validate_ok name Hname). cbn [bind call1]. apply wpv_call. intros r _.
    cbn [ys_step]. rewrite (ycls_nr (CStat ((dir ++ [format_id h2]) ++ [name]) true) eq_refl).
    assert (Hsid : forall sid,
              wpv ys_step (try (cd_publish (if which then insert_or_update else insert_or_touch) (dcd sid) name v) (fun upd =>
                             update_estimate h h1 upd ;;;
                             match upd with
                             | Some _ => RandShard (eff_shards nsh) (fun r0 => force_maintain_shard h dir nsh total (other_shard_id (eff_shards nsh) sid r0))
                             | None => LoadGet h h1 (fun l => if (sharded_shard_capacity nsh total <? l / 2)%N then Mark 20 [] (force_maintain_shard h dir nsh total sid) else Ret (Ok tt))
                             end)) (fun _ _ => True) tt).
    { intros sid. apply wpv_try.
      eapply wpv_mono; [|apply (y_cd_publish which sid)].
      intros [upd|e|] [] _; try exact I.
      apply wpv_bind.
      eapply wpv_mono; [|apply (gclass ys_step (fun _ => True) ycls ys_call ys_sil (update_estimate h h1 upd) anyc)];
        [|unfold update_estimate; pose proof ycls_nr; allc_auto|exact I].
      intros [] [] _. destruct upd as [z|].
      + unfold wpv. cbn [wp]. intros r0. apply (wpv_sil ys_step (fun _ => True) ys_sil); [exact I|exact I|]. intros [] _. apply ys_force_maintain.
      + unfold wpv. cbn [wp]. intros l. destruct (_ <? _)%N; [|exact I]. cbn [wp].
        apply (wpv_sil ys_step (fun _ => True) ys_sil); [exact I|exact I|]. intros [] _. apply ys_force_maintain. }
    destruct r as [| |st| | |er]; try (apply wpv_ret; exact I); try apply Hsid.
    destruct (is_absent (OsErr er)); [apply Hsid|apply wpv_ret; exact I].
  Qed.

  (** ** meaning *)
  Variable i0 : nat.
  Variable j0 : option nat.

  Definition W (_ : unit) (f : fs) : Prop :=
    (name_of f y = j0 \/ name_of f y = None \/ name_of f y = Some i0) /\ (name_of f v = Some i0 \/ name_of f v = None).

  Lemma W_step s ev s' f f' : ys_step s ev = Some s' -> step1 f ev f' -> names_plain f -> W s f -> W s' f'.
  Proof.
    intros Hm H1 _ (HIy & HIv). unfold W.
    destruct ev as [c r|t|wt b|m z|fr|tg pl]; cbn [ys_step] in Hm.
    2-6: rewrite !(step1_spares _ _ _ _ H1 I); auto.
    destruct (ycls c) eqn:Hc; [|discriminate].
    assert (Hkeep : spares y c = true -> spares v c = true -> W tt f') by (intros Hsy Hsv; unfold W; rewrite (step1_spares _ _ _ y H1 Hsy), (step1_spares _ _ _ v H1 Hsv); auto).
    assert (Herr : forall er, r = RErr er -> W tt f') by (intros er ->; unfold W; rewrite !(step1_err _ _ _ _ _ H1); auto).
    destruct c; cbn [ycls] in Hc; try (apply andb_true_iff in Hc; destruct Hc as (Hc1 & Hc2); exact (Hkeep Hc1 Hc2)).
    - (* rename v q *)
      apply andb_true_iff in Hc. destruct Hc as (Hc & Hqv). apply andb_true_iff in Hc. destruct Hc as (Hpv & Hq).
      apply path_eqb_eq in Hpv. subst p. apply negb_true_iff in Hqv.
      destruct r as [| | | | |er]; [..|exact (Herr er eq_refl)].
      all: apply step1_ok in H1; [|discriminate]; destruct H1 as (e & -> & Hr); symmetry in Hr;
        pose proof (sem_res_unit f e (CRename v q)) as Hu; change (snd (sem f e (CRename v q)) = ROk \/ exists er, snd (sem f e (CRename v q)) = RErr er) in Hu;
        destruct Hu as [Hu|(er & Hu)]; try congruence;
        destruct (rename_effect f e v q Hv Hq Hu) as (Hd & Hn);
        pose proof (rename_source f e v q Hv Hq (fun E => path_eqb_neq _ _ Hqv (eq_sym E)) Hu) as Hs;
        (assert (Hv0 : name_of f v = Some i0) by tauto);
        (split; [|destruct Hs as [Hs|Hs]; rewrite Hs; auto]);
        (destruct (path_eqb q y) eqn:Hqy;
          [apply path_eqb_eq in Hqy; subst q; rewrite Hd, Hv0; auto
          |rewrite (sem_spares f e (CRename v q) y) by (unfold spares; cbn [rebind_paths forallb]; rewrite Hv, Hq, Hqy, (neqb v y (fun E => Hyv (eq_sym E))); reflexivity); exact HIy]).
    - (* link p q *)
      apply andb_true_iff in Hc. destruct Hc as (Hc & Hor). apply andb_true_iff in Hc. destruct Hc as (Hq & Hqv). apply negb_true_iff in Hqv.
      assert (Hsv : spares v (CLink p q) = true) by (unfold spares; cbn [rebind_paths forallb]; rewrite Hq, Hqv; reflexivity).
      destruct (path_eqb q y) eqn:Hqy.
      + apply path_eqb_eq in Hqy. subst q. cbn [negb orb] in Hor. apply path_eqb_eq in Hor. subst p.
        destruct r as [| | | | |er]; [..|exact (Herr er eq_refl)].
        all: rewrite (step1_spares _ _ _ v H1 Hsv); apply step1_ok in H1; [|discriminate]; destruct H1 as (e & -> & Hr); symmetry in Hr;
          pose proof (sem_res_unit f e (CLink v y)) as Hu; change (snd (sem f e (CLink v y)) = ROk \/ exists er, snd (sem f e (CLink v y)) = RErr er) in Hu;
          destruct Hu as [Hu|(er & Hu)]; try congruence;
          destruct (link_effect f e v y Hv Hy Hu) as (Hd & Hn & _);
          (assert (Hv0 : name_of f v = Some i0) by tauto); rewrite Hd, Hv0; auto.
      + apply Hkeep; [|exact Hsv]. unfold spares. cbn [rebind_paths forallb]. rewrite Hq, Hqy. reflexivity.
    - (* unlink p *)
      destruct (path_eq_dec p y) as [->|Hpy]; [|destruct (path_eq_dec p v) as [->|Hpv]].
      + assert (Hu : unl y (CUnlink y) = true) by (cbn [unl]; apply path_eqb_refl).
        rewrite (unl_other f _ r f' y v Hy Hyv Hu H1). split; [|exact HIv].
        destruct (unl_self f _ r f' y Hy Hu H1) as [H|H]; rewrite H; auto.
      + assert (Hu : unl v (CUnlink v) = true) by (cbn [unl]; apply path_eqb_refl).
        rewrite (unl_other f _ r f' v y Hv (fun E => Hyv (eq_sym E)) Hu H1). split; [exact HIy|].
        destruct (unl_self f _ r f' v Hv Hu H1) as [H|H]; rewrite H; auto.
      + apply Hkeep; unfold spares; cbn [rebind_paths forallb]; rewrite Hc, (neqb _ _ Hpy) || rewrite Hc, (neqb _ _ Hpv); reflexivity.
  Qed.

  Theorem sharded_entry_old_none_or_source (which : bool) h w o : names_plain (w_fs w) ->
    (name_of (w_fs w) v = Some i0 \/ name_of (w_fs w) v = None) -> name_of (w_fs w) y = j0 ->
    let '(_, w', _, _) := run (sh_publish (if which then cd_set else cd_put) h dir nsh total k v) w o in
    name_of (w_fs w') y = j0 \/ name_of (w_fs w') y = None \/ name_of (w_fs w') y = Some i0.
  Proof.
    intros Hpl Hv0 Hj.
    pose proof (sane_run ys_step _ _ tt W (ys_sh_publish which h) W_step w o Hpl (conj (or_introl Hj) Hv0)) as H.
    destruct (run _ w o) as [[[r w'] o'] tr]. destruct H as ([] & _ & (HI & _) & _). exact HI.
  Qed.
  Theorem sharded_entry_gen {A} (p : prog A) Q w o : wpv ys_step p Q tt -> names_plain (w_fs w) ->
    (name_of (w_fs w) v = Some i0 \/ name_of (w_fs w) v = None) -> name_of (w_fs w) y = j0 ->
    let '(_, w', _, _) := run p w o in
    name_of (w_fs w') y = j0 \/ name_of (w_fs w') y = None \/ name_of (w_fs w') y = Some i0.
  Proof.
    intros Hp Hpl Hv0 Hj.
    pose proof (sane_run ys_step p Q tt W Hp W_step w o Hpl (conj (or_introl Hj) Hv0)) as H.
    destruct (run p w o) as [[[r w'] o'] tr]. destruct H as ([] & _ & (HI & _) & _). exact HI.
  Qed.
  (** ... and at EVERY crash point of the sharded write, after any fault. *)
  Theorem sharded_publication_is_atomic (which : bool) h w o n : names_plain (w_fs w) ->
    (name_of (w_fs w) v = Some i0 \/ name_of (w_fs w) v = None) -> name_of (w_fs w) y = j0 ->
    let '(w', _, _, _) := run_crash (sh_publish (if which then cd_set else cd_put) h dir nsh total k v) w o n in
    name_of (w_fs w') y = j0 \/ name_of (w_fs w') y = None \/ name_of (w_fs w') y = Some i0.
  Proof.
    intros Hpl Hv0 Hj.
    pose proof (sane_crash ys_step _ _ tt W (ys_sh_publish which h) W_step w o n Hpl (conj (or_introl Hj) Hv0)) as H.
    destruct (run_crash _ w o n) as [[[w' o'] tr] b]. destruct H as ([] & (HI & _) & _). exact HI.
  Qed.
End ShardKey.
