(** Two key-value facts for arbitrary environment responses:
    - a successful set / put has consumed its source file: after the accepted
      rename (set) or the link that was accepted or answered EEXIST (put), the
      source path was unlinked, and that unlink either succeeded or found the
      path already gone;
    - a sharded write goes to the key's secondary shard exactly when the probe of
      that shard said the key is already there, to the primary otherwise: a
      sequential writer never creates a second copy of a key. *)
From Coq Require Import List NArith ZArith String Bool Arith Lia.
From Kismet Require Import Pure.Hash Pure.Trigger Proofs.HashProofs FS.Fs FS.Prog Spec.Wp Spec.ClassMon Spec.Calm Spec.Chain Ops.Ops Proofs.NeverMasked Proofs.FreshStamp.
Import ListNotations.

(** *** source consumed *)
Section Consumed.
  Variable src : path.

  (* 0: nothing yet; 1: published from [src]; 2: [src] removed afterwards *)
  Definition c_step (s : nat) (ev : event) : option nat :=
    match ev with
    | EvCall (CRename p _) r => if path_eqb p src then Some (match r with RErr _ => s | _ => 1%nat end) else Some s
    | EvCall (CLink p _) r => if path_eqb p src then Some (match r with RErr EEXIST => 1%nat | RErr _ => s | _ => 1%nat end) else Some s
    | EvCall (CUnlink p) r =>
        if path_eqb p src then
          Some (match s, r with
                | 1%nat, RErr ENOENT | 1%nat, RErr ESTALE => 2%nat
                | 1%nat, RErr _ => s
                | 1%nat, _ => 2%nat
                | _, _ => s
                end)
        else Some s
    | _ => Some s
    end.

  (* once consumed, stays consumed, unless the source is published again *)
  Definition consumes {A} (p : prog (outcome A)) : Prop :=
    forall s, wp c_step p (fun r s' => is_ok r = true -> s' = 2%nat) s.

  Lemma consumes_ret_err {A} (r : outcome A) : is_ok r = false -> consumes (Ret r).
  Proof. intros H s. cbn [wp]. rewrite H. discriminate. Qed.

  Lemma consumes_try_cont {A B} (q : prog (outcome A)) (f : A -> prog (outcome B)) :
    (forall a, consumes (f a)) -> consumes (try q f).
  Proof.
    intros Hf s. unfold try. apply wp_bind.
    assert (Hany : forall p0 : prog (outcome A), forall s0, wp c_step p0 (fun _ _ => True) s0).
    { intros p0. induction p0 as [a|c k IH|k IH|w k IH|n k IH|h i k IH|h i v k IH|k IH|t pl k IH]; intros s0; cbn [wp]; unfold after; auto;
        try (intros x; cbn [c_step]; apply IH); try (cbn [c_step]; apply IH).
      intros r. destruct (c_step s0 (EvCall c r)) eqn:Hs; [apply IH|].
      destruct c; cbn [c_step] in Hs; try discriminate Hs; destruct (path_eqb _ src); discriminate Hs. }
    eapply wp_mono; [|apply Hany]. intros [a|e|] s1 _; cbn [wp]; try discriminate. apply Hf.
  Qed.

  Lemma path_eqb_refl' : path_eqb src src = true.
  Proof. unfold path_eqb. destruct (path_eq_dec src src); congruence. Qed.

  Lemma consumes_ensure_removed_from_1 :
    wp c_step (ensure_file_removed src) (fun r s' => is_ok r = true -> s' = 2%nat) 1%nat.
  Proof.
    unfold ensure_file_removed, unit_call. cbn [bind call1 wp]. intros r. unfold after. cbn [c_step]. rewrite path_eqb_refl'.
    destruct r as [| | | | |[]]; cbn [wp is_ok is_absent]; intros H; try reflexivity; discriminate H.
  Qed.

  Lemma consumes_insert_or_update dst : consumes (insert_or_update src dst).
  Proof.
    unfold insert_or_update. apply consumes_try_cont. intros _. apply consumes_try_cont. intros _.
    intros s. unfold try, unit_call. cbn [bind call1 wp]. intros r. unfold after. cbn [c_step]. rewrite path_eqb_refl'.
    destruct r as [| | | | |er]; cbn [wp bind]; try apply consumes_ensure_removed_from_1. discriminate.
  Qed.

  Lemma consumes_insert_or_touch dst : consumes (insert_or_touch src dst).
  Proof.
    unfold insert_or_touch. apply consumes_try_cont. intros _. apply consumes_try_cont. intros _.
    intros s. cbn [bind call1 wp]. intros r. unfold after. cbn [c_step]. rewrite path_eqb_refl'.
    destruct r as [| | | | |er]; try apply consumes_ensure_removed_from_1.
    destruct er; try (cbn [wp]; discriminate).
    (* EEXIST: touch the destination, then remove the source *)
    unfold try. apply wp_bind.
    assert (Htouch : forall s0, wp c_step (touch dst) (fun _ s' => s' = s0) s0 \/ True) by (intros; right; exact I).
    (* touch issues no rename / link / unlink of [src] unless dst = src; handle generally: state can only stay 1 or ... *)
    assert (Hkeep : wp c_step (touch dst) (fun _ s' => s' = 1%nat) 1%nat).
    { unfold touch. cbn [wp]. intros t. unfold after. cbn [c_step]. unfold set_times, unit_call, quiet. cbn [bind call1 wp].
      intros r1. unfold after. cbn [c_step].
      destruct r1; cbn [wp bind]; try (intros r2; unfold after; cbn [c_step]; destruct r2; cbn [wp bind];
        try (intros r3; unfold after; cbn [c_step wp bind]; try (intros r4; unfold after; cbn [c_step wp]); reflexivity); reflexivity);
      try (intros r2; unfold after; cbn [c_step wp bind]; intros r3; unfold after; cbn [c_step wp]; reflexivity). }
    eapply wp_mono; [|exact Hkeep]. intros [b|e|] s' ->; cbn [wp]; try discriminate. apply consumes_ensure_removed_from_1.
  Qed.

  (** programs without rename / link leave a consumed source consumed *)
  Lemma nrl_keeps_consumed {A} (p : prog A) Q : allc nrl p Q -> wp c_step p (fun _ s' => s' = 2%nat) 2%nat.
  Proof.
    unfold allc.
    induction p as [a|c k IH|k IH|w k IH|n k IH|h i k IH|h i v k IH|k IH|t pl k IH]; cbn [wp]; unfold after; cbn [k_step]; intros H; auto;
      try (intros x; cbn [c_step]; apply IH, H); try (cbn [c_step]; apply IH, H).
    intros r. specialize (H r). destruct (nrl c) eqn:Hc; [|contradiction].
    assert (Hs : c_step 2%nat (EvCall c r) = Some 2%nat).
    { destruct c; try discriminate Hc; cbn [c_step]; try reflexivity. match goal with |- context [path_eqb ?x src] => destruct (path_eqb x src) end; reflexivity. }
    rewrite Hs. apply IH, H.
  Qed.

  Lemma consumes_try_first {A B} (q : prog (outcome A)) (f : A -> prog (outcome B)) :
    consumes q -> (forall a, allc nrl (f a) anyc) -> consumes (try q f).
  Proof.
    intros Hq Hf s. unfold try. apply wp_bind. eapply wp_mono; [|apply Hq].
    intros [a|e|] s1 H1; cbn [wp]; try discriminate. rewrite (H1 eq_refl).
    eapply wp_mono; [|apply (nrl_keeps_consumed _ _ (Hf a))]. intros r s2 -> _. reflexivity.
  Qed.

  Lemma consumes_cd_publish ins d name : (forall dst, consumes (ins src dst)) -> consumes (cd_publish ins d name src).
  Proof.
    intros Hins. unfold cd_publish. destruct (validate name); try (apply consumes_ret_err; reflexivity).
    apply consumes_try_cont. intros ret s. apply wp_bind. eapply wp_mono; [|apply Hins].
    intros [u|e|] s1 H1; cbn [wp].
    - intros _. apply H1. reflexivity.
    - apply consumes_try_cont. intros _. apply consumes_try_first; [apply Hins|]. intros _. apply allc_ret. exact I.
    - apply consumes_try_cont. intros _. apply consumes_try_first; [apply Hins|]. intros _. apply allc_ret. exact I.
  Qed.

  Lemma consumes_sh_publish ins h dir n t k :
    (forall d name, consumes (ins d name src)) -> consumes (sh_publish ins h dir n t k src).
  Proof.
    intros Hins. unfold sh_publish, sort_by_load. cbn [bind]. intros s. cbn [wp]. intros l1 l2. cbn [bind].
    match goal with |- wp _ (let '(h1, h2) := ?x in _) _ _ => destruct x as [h1 h2] end.
    apply consumes_try_cont. intros ex. apply consumes_try_first; [apply Hins|].
    intros upd. eapply allc_bind; [apply (ck_update_estimate nrl)|]. intros _ _.
    destruct upd.
    - apply allc_randshard. intros r. apply (ck_force_maintain nrl base_nrl).
    - apply allc_loadget. intros l. destruct (_ <? _)%N; [apply allc_mark, (ck_force_maintain nrl base_nrl)|apply allc_ret; exact I].
  Qed.

  Theorem consumes_f_set h f k : consumes (f_set h f k src).
  Proof.
    unfold f_set, drop_opt. destruct f.
    - apply consumes_try_first; [apply consumes_cd_publish, consumes_insert_or_update|]. intros _. apply allc_ret. exact I.
    - apply consumes_sh_publish. intros. apply consumes_cd_publish, consumes_insert_or_update.
  Qed.
  Theorem consumes_f_put h f k : consumes (f_put h f k src).
  Proof.
    unfold f_put, drop_opt. destruct f.
    - apply consumes_try_first; [apply consumes_cd_publish, consumes_insert_or_touch|]. intros _. apply allc_ret. exact I.
    - apply consumes_sh_publish. intros. apply consumes_cd_publish, consumes_insert_or_touch.
  Qed.
  Theorem consumes_cache_set cfg k : consumes (cache_set cfg k src).
  Proof.
    unfold cache_set. apply consumes_try_cont. intros _. unfold write_impl.
    destruct (s_writer cfg); [apply consumes_f_set|apply consumes_ret_err; reflexivity].
  Qed.
  Theorem consumes_cache_put cfg k : consumes (cache_put cfg k src).
  Proof.
    unfold cache_put. apply consumes_try_cont. intros _. unfold write_impl.
    destruct (s_writer cfg); [apply consumes_f_put|apply consumes_ret_err; reflexivity].
  Qed.
End Consumed.

Theorem success_means_source_consumed {A} src (p : prog (outcome A)) : consumes src p -> forall w o,
  let '(r, _, _, tr) := run p w o in is_ok r = true -> mon_run (c_step src) 0%nat tr = Some 2%nat.
Proof.
  intros H w o. pose proof (wp_run (c_step src) p _ 0%nat w o (H 0%nat)) as Hr.
  destruct (run p w o) as [[[r w'] o'] tr]. destruct Hr as (s' & Hm & Hok). intros Hr. rewrite Hm, (Hok Hr). reflexivity.
Qed.

(** *** one copy per key in a sharded directory *)
Section OneCopy.
  Variable dir : path.
  Variable name : string.

  Definition candidate (p : path) : bool :=
    (path_eqb (removelast (removelast p)) dir && String.eqb (last p EmptyString) name
     && Nat.eqb (List.length p) (2 + List.length dir))%bool.

  (* last probe of a candidate path: (path, did it exist) *)
  Definition t_step (s : option (path * bool)) (ev : event) : option (option (path * bool)) :=
    match ev with
    | EvCall (CStat p true) r =>
        if candidate p then Some (Some (p, match r with RStat _ => true | _ => false end)) else Some s
    | EvCall (CRename _ dst) _ | EvCall (CLink _ dst) _ =>
        if candidate dst then
          match s with
          | Some (p, true) => if path_eqb dst p then Some s else None
          | Some (p, false) => if path_eqb dst p then None else Some s
          | None => None
          end
        else Some s
    | _ => Some s
    end.

  Lemma candidate_of id : candidate (dir ++ [format_id id] ++ [name]) = true.
  Proof.
    unfold candidate. rewrite app_assoc, !removelast_last, last_last, !app_length. cbn [List.length].
    unfold path_eqb. destruct (path_eq_dec dir dir); [|congruence]. rewrite String.eqb_refl.
    replace (List.length dir + 1 + 1)%nat with (2 + List.length dir)%nat by lia. rewrite Nat.eqb_refl. reflexivity.
  Qed.

  Lemma not_candidate_short p : (List.length p <> 2 + List.length dir)%nat -> candidate p = false.
  Proof. intros H. unfold candidate. destruct (Nat.eqb_spec (List.length p) (2 + List.length dir)); [contradiction|]. apply andb_false_r. Qed.

  (** calls that leave the probe state alone and publish nothing: no rename / link, and a
      follow-stat only of paths that are not candidates *)
  Definition okt (c : call) : bool :=
    (nrl c && match c with CStat p true => negb (candidate p) | _ => true end)%bool.

  Lemma frame_okt {A} (p : prog A) Q : allc okt p Q -> forall s, wp t_step p (fun a s' => Q a /\ s' = s) s.
  Proof.
    unfold allc.
    induction p as [a|c k IH|k IH|w k IH|n k IH|h i k IH|h i v k IH|k IH|t pl k IH]; cbn [wp]; unfold after; cbn [k_step]; intros H s; auto;
      try (intros x; cbn [t_step]; apply IH, H); try (cbn [t_step]; apply IH, H).
    intros r. specialize (H r). destruct (okt c) eqn:Hc; [|contradiction].
    assert (Hs : t_step s (EvCall c r) = Some s).
    { unfold okt in Hc. apply andb_true_iff in Hc. destruct Hc as (Hn & Hst).
      destruct c; try discriminate Hn; cbn [t_step]; try reflexivity.
      destruct follow; [|reflexivity]. apply negb_true_iff in Hst. rewrite Hst. reflexivity. }
    rewrite Hs. apply IH, H.
  Qed.

  (** no follow-stat at all, no rename / link: maintenance, estimates, ... *)
  Definition nfs (c : call) : bool := (nrl c && match c with CStat _ true => false | _ => true end)%bool.
  Lemma okt_of_nfs c : nfs c = true -> okt c = true.
  Proof. unfold nfs, okt. destruct c; cbn; auto. destruct follow; cbn; auto; discriminate. Qed.
  Lemma allc_okt_of_nfs {A} (p : prog A) Q : allc nfs p Q -> allc okt p Q.
  Proof.
    unfold allc.
    induction p as [a|c k IH|k IH|w k IH|n k IH|h i k IH|h i v k IH|k IH|t pl k IH]; cbn [wp]; unfold after; cbn [k_step]; intros H; auto.
    intros r. specialize (H r). destruct (nfs c) eqn:Hc; [|contradiction]. rewrite (okt_of_nfs c Hc). apply IH, H.
  Qed.

  Hint Extern 1 (nfs _ = true) => reflexivity : allc.
  Hint Resolve allc_call : allc.
  Notation nf := (allc nfs).
  Lemma nf_unit_call c : nfs c = true -> nf (unit_call c) anyc. Proof. intros H. unfold unit_call. allc_auto. Qed.
  Lemma nf_fd_call c : nfs c = true -> nf (fd_call c) anyc. Proof. intros H. unfold fd_call. allc_auto. Qed.
  Lemma nf_quiet c : nfs c = true -> nf (quiet c) anyc. Proof. intros H. unfold quiet. allc_auto. Qed.
  Hint Resolve nf_unit_call nf_fd_call nf_quiet : allc.
  Lemma nf_set_times p a m : nf (set_times p a m) anyc. Proof. unfold set_times. allc_auto. Qed.
  Hint Resolve nf_set_times : allc.
  Lemma nf_ensure_file_removed p : nf (ensure_file_removed p) anyc. Proof. unfold ensure_file_removed. allc_auto. Qed.
  Lemma nf_move_to_back p : nf (move_to_back_of_list p) anyc. Proof. unfold move_to_back_of_list. allc_auto. Qed.
  Hint Resolve nf_ensure_file_removed nf_move_to_back : allc.
  Lemma nf_collect_loop d dh names : forall acc count, nf (collect_loop d dh names acc count) anyc.
  Proof. induction names as [|n rest IH]; intros acc count; cbn [collect_loop]; allc_auto. Qed.
  Hint Resolve nf_collect_loop : allc.
  Lemma nf_collect d : nf (collect_cached_files d) anyc. Proof. unfold collect_cached_files, try. allc_auto. Qed.
  Hint Resolve nf_collect : allc.
  Lemma nf_evict_loop d names : nf (evict_loop d names) anyc.
  Proof. induction names as [|n rest IH]; cbn [evict_loop]; unfold try; allc_auto. Qed.
  Lemma nf_move_back_loop d names : nf (move_back_loop d names) anyc.
  Proof. induction names as [|n rest IH]; cbn [move_back_loop]; allc_auto. Qed.
  Hint Resolve nf_evict_loop nf_move_back_loop : allc.
  Lemma nf_prune d cap : nf (prune d cap) anyc. Proof. unfold prune, try. allc_auto. Qed.
  Hint Resolve nf_prune : allc.
  Lemma nf_cleanup_temp_loop temp names thr : nf (cleanup_temp_loop temp names thr) anyc.
  Proof. induction names as [|n rest IH]; cbn [cleanup_temp_loop]; unfold skip; allc_auto. Qed.
  Hint Resolve nf_cleanup_temp_loop : allc.
  Lemma nf_cleanup_temp temp : nf (cleanup_temporary_directory temp) anyc.
  Proof. unfold cleanup_temporary_directory, skip. allc_auto. Qed.
  Hint Resolve nf_cleanup_temp : allc.
  Lemma nf_definitely_cleanup d base : nf (definitely_cleanup d base) anyc.
  Proof. unfold definitely_cleanup, try. allc_auto. Qed.
  Hint Resolve nf_definitely_cleanup : allc.
  Lemma nf_maybe_cleanup d : nf (maybe_cleanup d) anyc. Proof. unfold maybe_cleanup, try. allc_auto. Qed.
  Lemma nf_update_estimate h id u : nf (update_estimate h id u) anyc. Proof. unfold update_estimate. allc_auto. Qed.
  Lemma nf_force_maintain h d n t id : nf (force_maintain_shard h d n t id) anyc.
  Proof. unfold force_maintain_shard, try. allc_auto. Qed.
  Lemma nf_set_read_only p : nf (set_read_only p) anyc. Proof. unfold set_read_only, try, stat_call. allc_auto. Qed.
  Lemma nf_touch p : nf (touch p) anyc. Proof. unfold touch. allc_auto. Qed.

  Lemma okt_create_dir_all_rev rp : (List.length rp <= 1 + List.length dir)%nat -> allc okt (create_dir_all_rev rp) anyc.
  Proof.
    induction rp as [|x rp IH]; intros Hl; cbn [create_dir_all_rev]; [apply allc_ret; exact I|].
    assert (Hst : okt (CStat (rev (x :: rp)) true) = true).
    { unfold okt. cbn [nrl andb]. apply negb_true_iff, not_candidate_short. rewrite rev_length. cbn [List.length] in *. lia. }
    assert (Hmk : okt (CMkdir (rev (x :: rp))) = true) by reflexivity.
    assert (IH' : allc okt (create_dir_all_rev rp) anyc) by (apply IH; cbn [List.length] in Hl; lia).
    assert (Hsettle : forall e, allc okt (match e with
              | EEXIST => b <- is_dir_follow (rev (x :: rp));; Ret (if b then Ok tt else Err (OsErr e))
              | _ => Ret (Err (OsErr e)) end) anyc).
    { intros e. destruct e; try (apply allc_ret; exact I). unfold is_dir_follow. cbn [bind call1].
      intros r. unfold after, k_step. rewrite Hst. cbn [bind wp]. exact I. }
    cbn [bind call1]. intros r. unfold after, k_step. rewrite Hmk.
    destruct r as [| | | | |er]; cbn [bind wp]; try exact I.
    destruct er; try (lazymatch goal with |- context[OsErr ?e] => exact (Hsettle e) end).
    unfold try. apply allc_bind with (Q1 := anyc); [exact IH'|].
    intros [u|e|] _; try (apply allc_ret; exact I).
    cbn [bind call1]. intros r2. unfold after, k_step. rewrite Hmk. destruct r2 as [| | | | |e2]; cbn [bind wp]; try exact I. apply Hsettle.
  Qed.

  (** the publication step is accepted whenever the monitor's rule allows its destination *)
  Definition allows (s : option (path * bool)) (dst : path) : Prop :=
    candidate dst = true ->
    match s with Some (p, true) => path_eqb dst p = true | Some (p, false) => path_eqb dst p = false | None => False end.

  Lemma t_rename_ok s a dst r : allows s dst -> t_step s (EvCall (CRename a dst) r) = Some s.
  Proof. intros H. cbn [t_step]. destruct (candidate dst) eqn:Hc; [|reflexivity]. specialize (H Hc). destruct s as [[p [|]]|]; try contradiction; rewrite H; reflexivity. Qed.
  Lemma t_link_ok s a dst r : allows s dst -> t_step s (EvCall (CLink a dst) r) = Some s.
  Proof. intros H. cbn [t_step]. destruct (candidate dst) eqn:Hc; [|reflexivity]. specialize (H Hc). destruct s as [[p [|]]|]; try contradiction; rewrite H; reflexivity. Qed.

  Definition keeps_t {A} (p : prog A) (s : option (path * bool)) : Prop := wp t_step p (fun _ s' => s' = s) s.

  Lemma keeps_nf {A} (p : prog A) Q s : nf p Q -> keeps_t p s.
  Proof. intros H. eapply wp_mono; [|apply (frame_okt p Q (allc_okt_of_nfs p Q H) s)]. intros a s' (_ & ->). reflexivity. Qed.

  Lemma keeps_bind {A B} (p : prog A) (f : A -> prog B) s : keeps_t p s -> (forall a, keeps_t (f a) s) -> keeps_t (bind p f) s.
  Proof. intros Hp Hf. apply wp_bind. eapply wp_mono; [|exact Hp]. intros a s' ->. apply Hf. Qed.
  Lemma keeps_ret {A} (a : A) s : keeps_t (Ret a) s. Proof. reflexivity. Qed.

  Lemma keeps_try {A B} (p : prog (outcome A)) (f : A -> prog (outcome B)) s :
    keeps_t p s -> (forall a, keeps_t (f a) s) -> keeps_t (try p f) s.
  Proof. intros Hp Hf. unfold try. apply keeps_bind; [exact Hp|]. intros [a|e|]; [apply Hf|apply keeps_ret..]. Qed.

  Lemma keeps_insert_or_update v dst s : allows s dst -> keeps_t (insert_or_update v dst) s.
  Proof.
    intros Ha. unfold insert_or_update.
    apply keeps_try; [eapply keeps_nf, nf_move_to_back|]. intros _.
    apply keeps_try; [eapply keeps_nf, nf_set_read_only|]. intros _.
    apply keeps_try; [|intros _; eapply keeps_nf, nf_ensure_file_removed].
    unfold keeps_t, unit_call. cbn [bind call1 wp]. intros r. unfold after. rewrite (t_rename_ok s v dst r Ha). cbn [wp]. reflexivity.
  Qed.

  Lemma keeps_insert_or_touch v dst s : allows s dst -> keeps_t (insert_or_touch v dst) s.
  Proof.
    intros Ha. unfold insert_or_touch.
    apply keeps_try; [eapply keeps_nf, nf_move_to_back|]. intros _.
    apply keeps_try; [eapply keeps_nf, nf_set_read_only|]. intros _.
    unfold keeps_t. cbn [bind call1 wp]. intros r. unfold after. rewrite (t_link_ok s v dst r Ha).
    assert (Hfin : keeps_t (ensure_file_removed v) s) by (eapply keeps_nf, nf_ensure_file_removed).
    destruct r as [| | | | |er]; try exact Hfin.
    destruct er; try (cbn [wp]; reflexivity).
    apply keeps_try; [eapply keeps_nf, nf_touch|intros _; exact Hfin].
  Qed.

  Lemma keeps_cd_publish ins d v s :
    List.length (cd_base d) = (1 + List.length dir)%nat ->
    (keeps_t (ins v (cd_base d ++ [name])) s) -> keeps_t (cd_publish ins d name v) s.
  Proof.
    intros Hlen Hins. unfold cd_publish. destruct (validate name); try apply keeps_ret.
    apply keeps_try; [eapply keeps_nf, nf_maybe_cleanup|]. intros ret.
    apply keeps_bind; [exact Hins|].
    assert (Hcda : keeps_t (create_dir_all (removelast (cd_base d ++ [name]))) s).
    { unfold keeps_t. eapply wp_mono; [|apply (frame_okt _ anyc)]; [intros a0 s0 (_ & ->); reflexivity|].
      unfold create_dir_all. apply okt_create_dir_all_rev. rewrite rev_length, removelast_last. lia. }
    intros [u|e|]; try apply keeps_ret;
      (apply keeps_try; [exact Hcda|intros _; apply keeps_try; [exact Hins|intros _; apply keeps_ret]]).
  Qed.

  (** *** the theorem *)
  Theorem one_copy (which : bool) h n t k v :
    k_name k = name ->
    (let '(a, b) := shard_ids (k_hash k) (k_sec k) n in format_id a <> format_id b) ->
    forall s, wp t_step (sh_publish (if which then cd_set else cd_put) h dir n t k v) (fun _ _ => True) s.
  Proof.
    intros Hname Hne s. unfold sh_publish, sort_by_load. cbn [bind wp]. intros l1 l2. cbn [bind].
    destruct (shard_ids (k_hash k) (k_sec k) n) as [a b] eqn:Hids. cbn [fst snd].
    set (ids := if (_ <=? _)%N then (a, b) else (b, a)).
    assert (Hids' : exists h1 h2, ids = (h1, h2) /\ format_id h1 <> format_id h2).
    { unfold ids. destruct (_ <=? _)%N; [exists a, b|exists b, a]; split; auto. }
    destruct Hids' as (h1 & h2 & -> & Hne12).
    unfold try at 1, file_exists. rewrite Hname. destruct (validate name) eqn:Hv; try exact I.
    cbn [bind call1 wp]. intros r. unfold after. cbn [t_step].
    replace (dir ++ [format_id h2] ++ [name]) with (dir ++ [format_id h2] ++ [name]) by reflexivity.
    assert (Hc2 : candidate ((dir ++ [format_id h2]) ++ [name]) = true) by (rewrite <- app_assoc; apply candidate_of).
    rewrite Hc2.
    set (p2 := (dir ++ [format_id h2]) ++ [name]).
    assert (Hlen : forall sid, List.length (cd_base (shard_cdir dir n t sid)) = (1 + List.length dir)%nat)
      by (intros sid; unfold shard_cdir; cbn [cd_base]; rewrite app_length; cbn; lia).
    assert (Hgo : forall (ex : bool) (sid : N), (sid = if ex then h2 else h1) ->
              wp t_step (try ((if which then cd_set else cd_put) (shard_cdir dir n t sid) name v) (fun upd =>
                         update_estimate h h1 upd ;;; match upd with
                           | Some _ => RandShard (eff_shards n) (fun r0 => force_maintain_shard h dir n t (other_shard_id (eff_shards n) sid r0))
                           | None => LoadGet h h1 (fun l => if (sharded_shard_capacity n t <? l / 2)%N then Mark 20 [] (force_maintain_shard h dir n t sid) else Ret (Ok tt))
                           end)) (fun _ _ => True) (Some (p2, ex))).
    { intros ex sid Hsid.
      assert (Hallow : allows (Some (p2, ex)) (cd_base (shard_cdir dir n t sid) ++ [name])).
      { intros _. unfold shard_cdir. cbn [cd_base]. unfold p2, path_eqb. subst sid. destruct ex.
        - destruct (path_eq_dec _ _); [reflexivity|congruence].
        - destruct (path_eq_dec ((dir ++ [format_id h1]) ++ [name]) ((dir ++ [format_id h2]) ++ [name])) as [He|]; [|reflexivity].
          exfalso. apply app_inj_tail in He. destruct He as (He & _). apply app_inj_tail in He. destruct He as (_ & He). exact (Hne12 He). }
      eapply wp_mono; [intros; exact I|].
      apply keeps_try.
      - destruct which; unfold cd_set, cd_put; apply keeps_cd_publish; auto; [apply keeps_insert_or_update|apply keeps_insert_or_touch]; exact Hallow.
      - intros upd. apply keeps_bind; [eapply keeps_nf, nf_update_estimate|]. intros _.
        destruct upd.
        + unfold keeps_t. cbn [wp]. intros r0. unfold after. cbn [t_step]. eapply keeps_nf, nf_force_maintain.
        + unfold keeps_t. cbn [wp]. intros l. destruct (_ <? _)%N; [|reflexivity]. cbn [wp]. unfold after. cbn [t_step]. eapply keeps_nf, nf_force_maintain. }
    destruct r as [| |st| | |er]; cbn [wp bind]; try exact I.
    - apply (Hgo true h2 eq_refl).
    - destruct (is_absent (OsErr er)); cbn [wp bind]; [apply (Hgo false h1 eq_refl)|exact I].
  Qed.
End OneCopy.

(** With the shard count in usize range, the two candidate directory names of a
    key are different, so the premise of [one_copy] is discharged. *)
Theorem sequential_writer_targets_the_probed_copy (which : bool) dir h n t k v :
  (eff_shards n <= TWO64)%N ->
  forall s, wp (t_step dir (k_name k)) (sh_publish (if which then cd_set else cd_put) h dir n t k v) (fun _ _ => True) s.
Proof.
  intros Hn s. apply one_copy; [reflexivity|].
  pose proof (shard_ids_spec (k_hash k) (k_sec k) n) as Hs. cbv zeta in Hs.
  destruct (shard_ids (k_hash k) (k_sec k) n) as [a b]. destruct Hs as (Ha & Hb & Hne & _).
  intros He. apply Hne. apply format_id_injective; [lia|lia|exact He].
Qed.

Theorem targets_the_probed_copy_on_every_run (which : bool) dir h n t k v w o :
  (eff_shards n <= TWO64)%N ->
  let '(_, _, _, tr) := run (sh_publish (if which then cd_set else cd_put) h dir n t k v) w o in
  exists s', mon_run (t_step dir (k_name k)) None tr = Some s'.
Proof.
  intros Hn. pose proof (wp_run (t_step dir (k_name k)) _ _ None w o (sequential_writer_targets_the_probed_copy which dir h n t k v Hn None)) as Hr.
  destruct (run _ w o) as [[[a w'] o'] tr]. destruct Hr as (s' & Hm & _). eauto.
Qed.
