(** The values of every re-stamp.  For arbitrary environment responses, every
    futimens that sets BOTH times - the call by which maintenance moves a
    reprieved entry to the back of the queue, and by which a write enqueues its
    value - carries modification time [t] and access time [t - 120 s] for the
    LAST clock reading [t] of the same operation: the entry becomes the youngest
    and loses its "used" mark (atime < mtime).  No other two-time stamp is ever
    issued by maintenance or by the writers. *)
From Coq Require Import List NArith ZArith String Bool Arith Lia.
From Kismet Require Import Pure.Hash Pure.SecondChance FS.Fs FS.Prog Spec.Wp Ops.Ops.
Import ListNotations.
Local Open Scope Z_scope.

Definition rs_step (s : option Z) (ev : event) : option (option Z) :=
  match ev with
  | EvNow t => Some (Some t)
  | EvCall (CFutimens _ (Some a) (Some m)) _ =>
      match s with
      | Some t => if ((m =? t) && (a =? t - DELTA_NS))%bool then Some s else None
      | None => None
      end
  | _ => Some s
  end.

Definition rs {A} (p : prog A) : Prop := forall s, wp rs_step p (fun _ _ => True) s.

Lemma rs_bind {A B} (p : prog A) (f : A -> prog B) : rs p -> (forall a, rs (f a)) -> rs (bind p f).
Proof. intros Hp Hf s. apply wp_bind. eapply wp_mono; [|apply Hp]. intros a s' _. apply Hf. Qed.
Lemma rs_ret {A} (a : A) : rs (Ret a). Proof. intros s. exact I. Qed.
Lemma rs_try {A B} (p : prog (outcome A)) (f : A -> prog (outcome B)) : rs p -> (forall a, rs (f a)) -> rs (try p f).
Proof. intros Hp Hf. unfold try. apply rs_bind; [exact Hp|]. intros [a|e|]; [apply Hf|apply rs_ret|apply rs_ret]. Qed.

(** a call that is not a two-time stamp *)
Definition one_time (c : call) : bool := match c with CFutimens _ (Some _) (Some _) => false | _ => true end.

Lemma rs_call {B} c (k : res -> prog B) : one_time c = true -> (forall r, rs (k r)) -> rs (Call c k).
Proof.
  intros Hc H s. cbn [wp]. intros r. unfold after.
  assert (Hs : rs_step s (EvCall c r) = Some s) by (destruct c; try reflexivity; destruct atime, mtime; try reflexivity; discriminate Hc).
  rewrite Hs. apply H.
Qed.
Lemma rs_now {A} (k : Z -> prog A) : (forall t, wp rs_step (k t) (fun _ _ => True) (Some t)) -> rs (Now k).
Proof. intros H s. cbn [wp]. intros t. unfold after. cbn [rs_step]. apply H. Qed.
Lemma rs_now' {A} (k : Z -> prog A) : (forall t, rs (k t)) -> rs (Now k).
Proof. intros H. apply rs_now. intros t. apply H. Qed.
Lemma rs_trigger {A} w (k : bool -> prog A) : (forall b, rs (k b)) -> rs (Trigger w k).
Proof. intros H s. cbn [wp]. intros b. unfold after. cbn [rs_step]. apply H. Qed.
Lemma rs_randshard {A} n (k : N -> prog A) : (forall r, rs (k r)) -> rs (RandShard n k).
Proof. intros H s. cbn [wp]. intros r. unfold after. cbn [rs_step]. apply H. Qed.
Lemma rs_loadget {A} h i (k : N -> prog A) : (forall r, rs (k r)) -> rs (LoadGet h i k).
Proof. intros H s. cbn [wp]. intros r. unfold after. cbn [rs_step]. apply H. Qed.
Lemma rs_loadset {A} h i x (k : prog A) : rs k -> rs (LoadSet h i x k).
Proof. intros H s. cbn [wp]. unfold after. cbn [rs_step]. apply H. Qed.
Lemma rs_mark {A} t pl (k : prog A) : rs k -> rs (Mark t pl k).
Proof. intros H s. cbn [wp]. unfold after. cbn [rs_step]. apply H. Qed.

Lemma rs_unit_call c : one_time c = true -> rs (unit_call c).
Proof. intros H. unfold unit_call. cbn [bind call1]. apply rs_call; [exact H|]. intros r. cbn [bind]. apply rs_ret. Qed.
Lemma rs_stat_call c : one_time c = true -> rs (stat_call c).
Proof. intros H. unfold stat_call. cbn [bind call1]. apply rs_call; [exact H|]. intros r. cbn [bind]. apply rs_ret. Qed.
Lemma rs_fd_call c : one_time c = true -> rs (fd_call c).
Proof. intros H. unfold fd_call. cbn [bind call1]. apply rs_call; [exact H|]. intros r. cbn [bind]. apply rs_ret. Qed.
Lemma rs_quiet c : one_time c = true -> rs (quiet c).
Proof. intros H. unfold quiet. cbn [bind call1]. apply rs_call; [exact H|]. intros r. cbn [bind]. apply rs_ret. Qed.

(** the one place that stamps both times: right after reading the clock *)
Lemma rs_move_to_back p : rs (move_to_back_of_list p).
Proof.
  unfold move_to_back_of_list. apply rs_now. intros t.
  assert (Hgo : forall fd, wp rs_step (x <- unit_call (CFutimens fd (Some (t - DELTA_NS)) (Some t)) ;; quiet (CClose fd) ;;; Ret x) (fun _ _ => True) (Some t)).
  { intros fd. unfold unit_call, quiet. cbn [bind call1 wp]. intros r. unfold after. cbn [rs_step]. rewrite !Z.eqb_refl. cbn [andb].
    cbn [bind wp]. intros r2. unfold after. cbn [rs_step]. exact I. }
  unfold set_times. cbn [bind call1 wp]. intros r. unfold after. cbn [rs_step].
  destruct r; try apply Hgo.
  all: cbn [bind wp]; intros r2; unfold after; cbn [rs_step]; destruct r2; try apply Hgo; exact I.
Qed.

(** one-time stamps (touch, ensure_file_touched) are not re-stamps *)
Lemma rs_set_times_one p a : rs (set_times p a None).
Proof.
  assert (Hgo : forall fd, rs (x <- unit_call (CFutimens fd a None) ;; quiet (CClose fd) ;;; Ret x)).
  { intros fd. apply rs_bind; [apply rs_unit_call; destruct a; reflexivity|]. intros x. apply rs_bind; [apply rs_quiet; reflexivity|]. intros _. apply rs_ret. }
  unfold set_times. cbn [bind call1]. apply rs_call; [reflexivity|]. intros r. destruct r; try apply Hgo.
  all: cbn [bind]; apply rs_call; [reflexivity|]; intros r2; destruct r2; try apply Hgo; apply rs_ret.
Qed.
Lemma rs_touch p : rs (touch p).
Proof. unfold touch. apply rs_now'. intros t. apply rs_bind; [apply rs_set_times_one|]. intros r. apply rs_ret. Qed.

Lemma rs_ensure_file_removed p : rs (ensure_file_removed p).
Proof. unfold ensure_file_removed. apply rs_bind; [apply rs_unit_call; reflexivity|]. intros r. apply rs_ret. Qed.
Lemma rs_set_read_only p : rs (set_read_only p).
Proof. unfold set_read_only. apply rs_try; [apply rs_stat_call; reflexivity|]. intros st. apply rs_unit_call. reflexivity. Qed.

Lemma rs_insert_or_update a b : rs (insert_or_update a b).
Proof.
  unfold insert_or_update. apply rs_try; [apply rs_move_to_back|]. intros _. apply rs_try; [apply rs_set_read_only|]. intros _.
  apply rs_try; [apply rs_unit_call; reflexivity|]. intros _. apply rs_ensure_file_removed.
Qed.
Lemma rs_insert_or_touch a b : rs (insert_or_touch a b).
Proof.
  unfold insert_or_touch. apply rs_try; [apply rs_move_to_back|]. intros _. apply rs_try; [apply rs_set_read_only|]. intros _.
  cbn [bind call1]. apply rs_call; [reflexivity|]. intros r. cbn [bind].
  destruct r as [| | | | |[]]; try apply rs_ensure_file_removed; try apply rs_ret.
  apply rs_try; [apply rs_touch|]. intros _. apply rs_ensure_file_removed.
Qed.

(** ** maintenance *)
Lemma rs_evict_loop dir names : rs (evict_loop dir names).
Proof. induction names as [|n rest IH]; cbn [evict_loop]; [apply rs_ret|]. apply rs_try; [apply rs_ensure_file_removed|]. intros _. exact IH. Qed.

Lemma rs_move_back_loop dir names : rs (move_back_loop dir names).
Proof.
  induction names as [|n rest IH]; cbn [move_back_loop]; [apply rs_ret|].
  apply rs_bind; [apply rs_move_to_back|]. intros [u|e|]; [exact IH|destruct (is_absent e); [exact IH|apply rs_ret]|apply rs_ret].
Qed.

Lemma rs_collect_loop dir dh names : forall acc count, rs (collect_loop dir dh names acc count).
Proof.
  induction names as [|n rest IH]; intros acc count; cbn [collect_loop]; [apply rs_ret|].
  destruct (dot_prefixed n); [apply IH|].
  cbn [bind call1]. apply rs_call; [reflexivity|]. intros r. cbn [bind].
  destruct r as [| |st| | |e]; try (apply rs_bind; [apply rs_quiet; reflexivity|intros _; apply rs_ret]).
  - destruct (st_dir st); apply IH.
  - destruct (is_absent (OsErr e)); [apply IH|]. apply rs_bind; [apply rs_quiet; reflexivity|intros _; apply rs_ret].
Qed.

Lemma rs_collect dir : rs (collect_cached_files dir).
Proof.
  unfold collect_cached_files. apply rs_try; [apply rs_fd_call; reflexivity|]. intros dh.
  cbn [bind call1]. apply rs_call; [reflexivity|]. intros r. cbn [bind].
  destruct r; try (apply rs_bind; [apply rs_quiet; reflexivity|intros _; apply rs_ret]).
  apply rs_try; [apply rs_collect_loop|]. intros [files count]. apply rs_ret.
Qed.

Theorem rs_prune dir cap : rs (prune dir cap).
Proof.
  unfold prune. apply rs_try; [apply rs_collect|]. intros [[dh files] count].
  destruct (plan (entries_of files) cap) as [[ev mb]|]; (apply rs_bind; [apply rs_quiet; reflexivity|]); intros _; [|apply rs_ret].
  apply rs_bind; [|intros r; apply rs_ret].
  apply rs_try; [apply rs_evict_loop|]. intros _. apply rs_move_back_loop.
Qed.

Lemma rs_cleanup_temp_loop temp names thr : rs (cleanup_temp_loop temp names thr).
Proof.
  induction names as [|n rest IH]; cbn [cleanup_temp_loop]; [apply rs_ret|].
  cbn [bind call1]. apply rs_call; [reflexivity|]. intros r. cbn [bind]. destruct r; try exact IH.
  apply rs_bind; [|intros _; exact IH]. destruct (_ <? _); [apply rs_quiet; reflexivity|apply rs_ret].
Qed.

Lemma rs_cleanup_temp temp : rs (cleanup_temporary_directory temp).
Proof.
  unfold cleanup_temporary_directory. apply rs_now'. intros t. destruct (_ <? _); [apply rs_ret|].
  cbn [bind call1]. apply rs_call; [reflexivity|]. intros r. cbn [bind]. destruct r; try apply rs_ret.
  apply rs_call; [reflexivity|]. intros l. cbn [bind].
  apply rs_bind; [destruct l; first [apply rs_cleanup_temp_loop|apply rs_ret]|]. intros _.
  apply rs_bind; [apply rs_quiet; reflexivity|]. intros _. apply rs_ret.
Qed.

Theorem rs_definitely_cleanup d base : rs (definitely_cleanup d base).
Proof.
  unfold definitely_cleanup. apply rs_bind; [apply rs_prune|]. intros [[est n]|e|]; try apply rs_ret.
  apply rs_try; [apply rs_cleanup_temp|]. intros _. apply rs_ret.
Qed.

Lemma rs_maybe_cleanup d : rs (maybe_cleanup d).
Proof.
  unfold maybe_cleanup. apply rs_trigger. intros [|]; [|apply rs_ret].
  apply rs_try; [apply rs_definitely_cleanup|]. intros est. apply rs_ret.
Qed.

Lemma rs_is_dir_follow p : rs (is_dir_follow p).
Proof. unfold is_dir_follow. cbn [bind call1]. apply rs_call; [reflexivity|]. intros r. cbn [bind]. apply rs_ret. Qed.

Lemma rs_create_dir_all_rev rp : rs (create_dir_all_rev rp).
Proof.
  induction rp as [|x rparent IH]; cbn [create_dir_all_rev]; [apply rs_ret|].
  cbn [bind call1]. apply rs_call; [reflexivity|]. intros r. cbn [bind].
  destruct r as [| | | | |e]; try apply rs_ret.
  destruct e.
  1: { apply rs_try; [exact IH|]. intros _. cbn [bind call1]. apply rs_call; [reflexivity|]. intros r2. cbn [bind].
       destruct r2 as [| | | | |e2]; try apply rs_ret.
       destruct e2; first [apply rs_ret|apply rs_bind; [apply rs_is_dir_follow|intros b; apply rs_ret]]. }
  all: first [apply rs_ret|apply rs_bind; [apply rs_is_dir_follow|intros b; apply rs_ret]].
Qed.

Theorem rs_cd_publish (which : bool) d name v : rs (cd_publish (if which then insert_or_update else insert_or_touch) d name v).
Proof.
  assert (Hins : forall a b, rs ((if which then insert_or_update else insert_or_touch) a b)) by (intros a b; destruct which; [apply rs_insert_or_update|apply rs_insert_or_touch]).
  unfold cd_publish. destruct (validate name); try apply rs_ret.
  apply rs_try; [apply rs_maybe_cleanup|]. intros ret.
  apply rs_bind; [apply Hins|]. intros [u|e|]; try apply rs_ret.
  all: apply rs_try; [apply rs_create_dir_all_rev|]; intros _; apply rs_try; [apply Hins|]; intros _; apply rs_ret.
Qed.

(** On every run: the monitor accepts the whole trace. *)
Theorem restamp_run {A} (p : prog A) : rs p -> forall w o s,
  let '(_, _, _, tr) := run p w o in mon_run rs_step s tr <> None.
Proof.
  intros H w o s. pose proof (wp_run rs_step p _ s w o (H s)) as Hr.
  destruct (run p w o) as [[[r w'] o'] tr]. destruct Hr as (s' & Hm & _). rewrite Hm. discriminate.
Qed.
