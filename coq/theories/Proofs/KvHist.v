(** Whole sequential histories on a plain cache directory: any sequence of
    [set] / [put] / [get] calls, each run to completion in the kernel model from
    the state its predecessor left, each with its own oracle (any fault, any
    clock, any trigger draw, so any maintenance).

    The abstraction is, per key, the list of inodes a lookup may legitimately
    return: after a successful [set] exactly the set's source; a [put] or a failed
    [set] adds its source to what was allowed before.  The invariant carried along
    the history is "every name of the directory is unbound or bound to an allowed
    inode of that name": entries may disappear (evictions), they never show a
    value written for another key, nor one that a later successful [set] replaced. *)
From Coq Require Import List NArith ZArith String Ascii Bool Arith Lia.
From Kismet Require Import Pure.Hash FS.Fs FS.Prog Spec.Wp Spec.ClassMon Spec.Calm Ops.Ops
  Conc.Effect Proofs.PutNeverOverwrites Proofs.NeverMasked
  Seq.Plain Seq.Steps Seq.Bind Seq.Sane Proofs.KvSeq Proofs.KvTemp Proofs.ReadsInert.
Import ListNotations.

Inductive hop := HSet (n : string) (v : path) | HPut (n : string) (v : path) | HGet (n : string).

Definition allowed := string -> list nat.
Definition upd (al : allowed) (n : string) (l : list nat) : allowed := fun m => if String.eqb m n then l else al m.
Definition olist (x : option nat) : list nat := match x with Some i => [i] | None => [] end.

Section History.
  Variable d : cdir.
  Hypothesis Hbase : plainp (cd_base d) = true.

  Definition hop_wf (op : hop) : Prop :=
    match op with
    | HSet n v | HPut n v => valid_name n = true /\ plainp v = true /\ (forall q, v <> cd_base d ++ q) /\ (forall q, cd_base d <> v ++ q)
    | HGet n => valid_name n = true
    end.

  Definition HInv (al : allowed) (f : fs) : Prop :=
    forall n, name_of f (cd_base d ++ [n]) = None \/ exists i, name_of f (cd_base d ++ [n]) = Some i /\ In i (al n).

  (** What the history guarantees, call by call. *)
  Fixpoint hist (ops : list hop) (os : list oracle) (w : world) (al : allowed) : Prop :=
    match ops, os with
    | op :: ops', o :: os' =>
        match op with
        | HGet n =>
            let '(r, w', _, _) := run (cd_get d n) w o in
            (forall fd, r = Ok (Some fd) -> exists i, fdino (w_fs w') fd = Some i /\ In i (al n)) /\
            hist ops' os' w' al
        | HSet n v =>
            let src := name_of (w_fs w) v in
            let '(r, w', _, _) := run (cd_set d n v) w o in
            (is_ok r = true -> src <> None /\ name_of (w_fs w') (cd_base d ++ [n]) = src) /\
            hist ops' os' w' (upd al n (if is_ok r then olist src else olist src ++ al n))
        | HPut n v =>
            let src := name_of (w_fs w) v in
            let '(r, w', _, _) := run (cd_put d n v) w o in
            hist ops' os' w' (upd al n (olist src ++ al n))
        end
    | _, _ => True
    end.

  Lemma upd_same al n l : upd al n l n = l.
  Proof. unfold upd. rewrite String.eqb_refl. reflexivity. Qed.

  Lemma upd_other al n l m : m <> n -> upd al n l m = al m.
  Proof. intros H. unfold upd. destruct (String.eqb m n) eqn:E; [apply String.eqb_eq in E; contradiction|reflexivity]. Qed.

  (** One write, by ANY program that the two monitors of a publication accept: the
      invariant with the key's allowed list extended by the source, replaced by
      the source alone when a [set] reports success. *)
  Lemma write_step_gen (which : bool) n v {X} (p : prog (outcome X)) w o al :
    valid_name n = true -> plainp v = true -> v <> cd_base d ++ [n] -> (forall q, cd_base d <> v ++ q) ->
    wpv (pw_step d n v which) p (fun r s' => is_ok r = true -> s' <> Before) Before ->
    wpv (o_step d n v) p (fun _ _ => True) tt ->
    names_plain (w_fs w) -> HInv al (w_fs w) ->
    let src := name_of (w_fs w) v in
    let '(r, w', _, _) := run p w o in
    names_plain (w_fs w') /\
    HInv (upd al n (olist src ++ al n)) (w_fs w') /\
    (which = true -> is_ok r = true -> src <> None /\ name_of (w_fs w') (cd_base d ++ [n]) = src /\ HInv (upd al n (olist src)) (w_fs w')).
  Proof.
    intros Hn Hv Hvd Hnanc Hpw Ho Hpl HI src.
    pose proof (run_names_plain p w o Hpl) as Hnp.
    pose proof (others_gen d n v Hbase Hn Hv (w_fs w) p _ w o Ho eq_refl Hpl) as Hoth.
    (* the key itself: for every candidate inode of a missing source *)
    assert (Hany : forall i0, (src = Some i0 \/ src = None) ->
              let '(r, w', _, _) := run p w o in
              (name_of (w_fs w') (cd_base d ++ [n]) = name_of (w_fs w) (cd_base d ++ [n]) \/ name_of (w_fs w') (cd_base d ++ [n]) = None \/ name_of (w_fs w') (cd_base d ++ [n]) = Some i0) /\
              (which = true -> is_ok r = true -> name_of (w_fs w') (cd_base d ++ [n]) = Some i0)).
    { intros i0 Hs.
      pose proof (publish_any_gen d n v which Hbase Hn Hv Hvd Hnanc i0 (name_of (w_fs w) (cd_base d ++ [n])) p _ w o Hpw Hpl Hs eq_refl) as H1.
      pose proof (fun Hw => set_binds_weak_gen d n v which Hbase Hn Hv Hvd Hnanc i0 (name_of (w_fs w) (cd_base d ++ [n])) p w o Hpw Hw Hpl Hs eq_refl) as H2.
      destruct (run p w o) as [[[r w'] o'] tr]. split; [exact H1|exact H2]. }
    destruct (run p w o) as [[[r w'] o'] tr] eqn:Hrun.
    (* the key's own binding *)
    assert (Hkey : name_of (w_fs w') (cd_base d ++ [n]) = name_of (w_fs w) (cd_base d ++ [n]) \/ name_of (w_fs w') (cd_base d ++ [n]) = None \/ (src <> None /\ name_of (w_fs w') (cd_base d ++ [n]) = src)).
    { destruct src as [i0|] eqn:Hsrc.
      - destruct (Hany i0 (or_introl eq_refl)) as (H & _). destruct H as [H|[H|H]]; [tauto|tauto|right; right; split; [discriminate|exact H]].
      - destruct (Hany 0 (or_intror eq_refl)) as (Ha & _). destruct (Hany 1 (or_intror eq_refl)) as (Hb & _).
        destruct Ha as [Ha|[Ha|Ha]]; [tauto|tauto|]. destruct Hb as [Hb|[Hb|Hb]]; [tauto|tauto|]. rewrite Ha in Hb. discriminate. }
    assert (Hothers : forall L m, m <> n -> name_of (w_fs w') (cd_base d ++ [m]) = None \/ exists i, name_of (w_fs w') (cd_base d ++ [m]) = Some i /\ In i (upd al n L m)).
    { intros L m Hm. rewrite (upd_other al n L m Hm). destruct (Hoth m Hm) as [H|H]; [rewrite H; apply HI|left; exact H]. }
    split; [exact Hnp|]. split.
    - intros m. destruct (string_dec m n) as [->|Hm]; [|apply Hothers; exact Hm].
      rewrite upd_same. destruct Hkey as [H|[H|(Hs & H)]].
      + rewrite H. destruct (HI n) as [Hn0|(i & Hi & Hin)]; [left; exact Hn0|right; exists i; split; [exact Hi|apply in_or_app; right; exact Hin]].
      + left; exact H.
      + right. destruct src as [i0|]; [|contradiction]. exists i0. split; [exact H|cbn; left; reflexivity].
    - intros Hw Hok.
      assert (Hb : src <> None /\ name_of (w_fs w') (cd_base d ++ [n]) = src).
      { destruct src as [i0|] eqn:Hsrc.
        - destruct (Hany i0 (or_introl eq_refl)) as (_ & H). split; [discriminate|exact (H Hw Hok)].
        - destruct (Hany 0 (or_intror eq_refl)) as (_ & Ha). destruct (Hany 1 (or_intror eq_refl)) as (_ & Hb).
          specialize (Ha Hw Hok). specialize (Hb Hw Hok). rewrite Ha in Hb. discriminate. }
      destruct Hb as (Hs & Hb). split; [exact Hs|]. split; [exact Hb|].
      intros m. destruct (string_dec m n) as [->|Hm]; [|apply Hothers; exact Hm].
      rewrite upd_same. right. destruct src as [i0|]; [|contradiction]. exists i0. split; [exact Hb|cbn; left; reflexivity].
  Qed.

  (** Every sequential history, from any directory state, under any oracles. *)
  Theorem history_refines_map : forall ops os w al,
    Forall hop_wf ops -> names_plain (w_fs w) -> HInv al (w_fs w) -> hist ops os w al.
  Proof.
    induction ops as [|op ops IH]; intros os w al Hwf Hpl HI; [exact I|].
    destruct os as [|o os]; [destruct op; exact I|].
    inversion Hwf as [|? ? Hop Hrest]; subst.
    destruct op as [n v|n v|n]; cbn [hist hop_wf] in *.
    - destruct Hop as (Hn & Hv & Hout & Hnanc).
      pose proof (write_step_gen true n v (cd_set d n v) w o al Hn Hv (Hout _) Hnanc (pw_cd_publish d n v true Hbase Hn Hv Hnanc) (o_cd_publish d n v Hbase Hn Hv true) Hpl HI) as H. cbn zeta in H.
      destruct (run (cd_set d n v) w o) as [[[r w'] o'] tr]. destruct H as (Hnp & HI1 & HI2).
      split.
      + intros Hok. destruct (HI2 eq_refl Hok) as (Hs & Hb & _). split; assumption.
      + apply IH; [exact Hrest|exact Hnp|]. destruct (is_ok r) eqn:Hok; [exact (proj2 (proj2 (HI2 eq_refl eq_refl)))|exact HI1].
    - destruct Hop as (Hn & Hv & Hout & Hnanc).
      pose proof (write_step_gen false n v (cd_put d n v) w o al Hn Hv (Hout _) Hnanc (pw_cd_publish d n v false Hbase Hn Hv Hnanc) (o_cd_publish d n v Hbase Hn Hv false) Hpl HI) as H. cbn zeta in H.
      destruct (run (cd_put d n v) w o) as [[[r w'] o'] tr]. destruct H as (Hnp & HI1 & _).
      apply IH; assumption.
    - pose proof (plain_get_reads d n Hbase Hop (w_fs w) w o eq_refl Hpl) as H.
      pose proof (run_names_plain (cd_get d n) w o Hpl) as Hnp.
      destruct (run (cd_get d n) w o) as [[[r w'] o'] tr]. destruct H as (Hsame & Hhit).
      split.
      + intros fd Hr. destruct (Hhit fd Hr) as (Hf & Hne). destruct (HI n) as [H0|(i & Hi & Hin)]; [contradiction|].
        exists i. split; [rewrite Hf; exact Hi|exact Hin].
      + apply IH; [exact Hrest|exact Hnp|]. intros m. rewrite Hsame. apply HI.
  Qed.

  (** The canonical starting abstraction: whatever each name is bound to now. *)
  Definition al_of (f : fs) : allowed := fun n => olist (name_of f (cd_base d ++ [n])).

  Lemma HInv_al_of f : HInv (al_of f) f.
  Proof. intros n. unfold al_of. destruct (name_of f (cd_base d ++ [n])) as [i|]; [right; exists i; split; [reflexivity|cbn; left; reflexivity]|left; reflexivity]. Qed.

  (** A corollary that crosses three calls and two keys: after a successful
      [set a], whatever a later write to ANOTHER key does (maintenance included),
      a lookup of [a] hits the value set for [a] or misses; it never returns [b]'s
      value nor [a]'s previous one. *)
  Corollary set_other_get : forall a b va vb w o1 o2 o3,
    a <> b -> hop_wf (HSet a va) -> hop_wf (HSet b vb) -> names_plain (w_fs w) ->
    let '(r1, w1, _, _) := run (cd_set d a va) w o1 in
    is_ok r1 = true ->
    let '(r2, w2, _, _) := run (cd_set d b vb) w1 o2 in
    let '(r3, w3, _, _) := run (cd_get d a) w2 o3 in
    forall fd, r3 = Ok (Some fd) -> fdino (w_fs w3) fd = name_of (w_fs w) va.
  Proof.
    intros a b va vb w o1 o2 o3 Hab Ha Hb Hpl.
    assert (Hwf : Forall hop_wf [HSet a va; HSet b vb; HGet a]).
    { constructor; [exact Ha|constructor; [exact Hb|constructor; [exact (proj1 Ha)|constructor]]]. }
    pose proof (history_refines_map [HSet a va; HSet b vb; HGet a] [o1; o2; o3] w (al_of (w_fs w)) Hwf Hpl (HInv_al_of _)) as H.
    cbn [hist] in H. cbn zeta in H.
    destruct (run (cd_set d a va) w o1) as [[[r1 w1] o1'] tr1]. destruct H as (_ & H). intros Hok. rewrite Hok in H.
    destruct (run (cd_set d b vb) w1 o2) as [[[r2 w2] o2'] tr2]. destruct H as (_ & H).
    destruct (run (cd_get d a) w2 o3) as [[[r3 w3] o3'] tr3]. destruct H as (H & _).
    intros fd Hr. destruct (H fd Hr) as (i & Hf & Hin).
    rewrite upd_other in Hin by exact Hab. rewrite upd_same in Hin.
    destruct (name_of (w_fs w) va) as [i0|]; cbn in Hin; [|contradiction]. destruct Hin as [->|[]]. exact Hf.
  Qed.
End History.

(** * The same through the public stack API for a plain write cache without
    read-only caches or checker: [Cache::set] / [put] (a path), [set_temp_file] /
    [put_temp_file] (the caller's NamedTempFile, typically inside the cache's own
    temp directory, where the maintenance preceding the publication may delete
    it), [get] and [touch]. *)
Inductive whow := WSet | WPut | WTempSet (fd : nat) | WTempPut (fd : nat).
Inductive sop := SWrite (how : whow) (k : key) (v : path) | SGet (k : key) | STouch (k : key).

Definition w_which (how : whow) : bool := match how with WSet | WTempSet _ => true | _ => false end.
Definition w_prog (cfg : stack_cfg) (how : whow) (k : key) (v : path) : prog (outcome unit) :=
  match how with
  | WSet => cache_set cfg k v
  | WPut => cache_put cfg k v
  | WTempSet fd => cache_write_temp true cfg k fd v
  | WTempPut fd => cache_write_temp false cfg k fd v
  end.

Section StackHistory.
  Variable cfg : stack_cfg.
  Variable dir : path.
  Variable cap : N.
  Hypothesis Hw : s_writer cfg = Some (FPlain dir cap).
  Hypothesis Hrd : s_readers cfg = [].
  Hypothesis Hck : s_checker cfg = None.
  Hypothesis Hbase : plainp dir = true.
  Notation d := (plain_cdir dir cap).

  Definition sop_wf (op : sop) : Prop :=
    match op with
    | SWrite _ k v => valid_name (k_name k) = true /\ plainp v = true /\ v <> dir ++ [k_name k] /\ (forall q, dir <> v ++ q)
    | SGet k | STouch k => valid_name (k_name k) = true
    end.

  Lemma pw_w_prog how k v : valid_name (k_name k) = true -> plainp v = true -> (forall q, dir <> v ++ q) ->
    wpv (pw_step d (k_name k) v (w_which how)) (w_prog cfg how k v) (fun r s' => is_ok r = true -> s' <> Before) Before.
  Proof.
    intros Hn Hv Hnanc.
    assert (Hpath : forall which : bool, wpv (pw_step d (k_name k) v which) (if which then cache_set cfg k v else cache_put cfg k v) (fun r s' => is_ok r = true -> s' <> Before) Before).
    { intros which. destruct which; unfold cache_set, cache_put; apply wpv_try.
      all: (eapply wpv_mono; [|apply (pw_class d (k_name k) v _ Before _ _ (gc_maybe_sync_path (cls d (k_name k) v Before) (cls_nr d (k_name k) v Before) cfg v))]).
      all: intros [u|e|] s1 (_ & ->); try discriminate.
      all: unfold write_impl; rewrite Hw; cbn [f_set f_put]; unfold drop_opt; apply wpv_try.
      - eapply wpv_mono; [|apply (pw_cd_publish d (k_name k) v true Hbase Hn Hv Hnanc)].
        intros [x|e|] s2 Hok; try discriminate. apply wpv_ret. intros _. apply Hok. reflexivity.
      - eapply wpv_mono; [|apply (pw_cd_publish d (k_name k) v false Hbase Hn Hv Hnanc)].
        intros [x|e|] s2 Hok; try discriminate. apply wpv_ret. intros _. apply Hok. reflexivity. }
    destruct how as [| |fd|fd]; cbn [w_prog w_which].
    - exact (Hpath true).
    - exact (Hpath false).
    - exact (pw_write_temp cfg dir cap Hw k v fd true Hbase Hn Hv Hnanc).
    - exact (pw_write_temp cfg dir cap Hw k v fd false Hbase Hn Hv Hnanc).
  Qed.

  Lemma o_write_impl (which : bool) k v : valid_name (k_name k) = true -> plainp v = true ->
    wpv (o_step d (k_name k) v) (write_impl which cfg k v) (fun _ _ => True) tt.
  Proof.
    intros Hn Hv. unfold write_impl. rewrite Hw. destruct which; cbn [f_set f_put]; unfold drop_opt; apply wpv_try.
    - eapply wpv_mono; [|apply (o_cd_publish d (k_name k) v Hbase Hn Hv true)].
      intros [x|e|] [] _; first [exact I|apply wpv_ret; exact I].
    - eapply wpv_mono; [|apply (o_cd_publish d (k_name k) v Hbase Hn Hv false)].
      intros [x|e|] [] _; first [exact I|apply wpv_ret; exact I].
  Qed.

  Lemma o_w_prog how k v : valid_name (k_name k) = true -> plainp v = true ->
    wpv (o_step d (k_name k) v) (w_prog cfg how k v) (fun _ _ => True) tt.
  Proof.
    intros Hn Hv.
    assert (Hu : wr_ok d (k_name k) v (CUnlink v) = true) by exact Hv.
    destruct how as [| |fd|fd]; cbn [w_prog]; unfold cache_set, cache_put, cache_write_temp; apply wpv_try.
    1-2: (eapply wpv_mono; [|apply (o_class d (k_name k) v _ _ (gc_maybe_sync_path (wr_ok d (k_name k) v) (wr_nr d (k_name k) v) cfg v))]).
    3-4: (eapply wpv_mono; [|apply (o_class d (k_name k) v _ _ (gc_finalize v fd (wr_ok d (k_name k) v) (wr_nr d (k_name k) v) Hu (s_autosync cfg)))]).
    all: intros [u|e|] [] _; try exact I.
    1-2: apply o_write_impl; assumption.
    all: apply wpv_bind; (eapply wpv_mono; [|apply o_write_impl; assumption]); intros r [] _.
    all: (eapply wpv_mono; [|apply (o_class d (k_name k) v (quiet (CUnlink v) ;;; Ret r) anyc)]); [intros ? [] _; exact I|].
    all: unfold quiet; allc_auto; try (apply allc_call; exact Hu).
  Qed.

  Fixpoint shist (ops : list sop) (os : list oracle) (w : world) (al : allowed) : Prop :=
    match ops, os with
    | op :: ops', o :: os' =>
        match op with
        | SGet k =>
            let '(r, w', _, _) := run (cache_get cfg k) w o in
            (forall fd, r = Ok (Some fd) -> exists i, fdino (w_fs w') fd = Some i /\ In i (al (k_name k))) /\
            shist ops' os' w' al
        | STouch k =>
            let '(_, w', _, _) := run (cache_touch cfg k) w o in shist ops' os' w' al
        | SWrite how k v =>
            let src := name_of (w_fs w) v in
            let '(r, w', _, _) := run (w_prog cfg how k v) w o in
            (w_which how = true -> is_ok r = true -> src <> None /\ name_of (w_fs w') (dir ++ [k_name k]) = src) /\
            shist ops' os' w' (upd al (k_name k) (if (w_which how && is_ok r)%bool then olist src else olist src ++ al (k_name k)))
        end
    | _, _ => True
    end.

  (** Every sequential history of the public API, from any directory state, under
      any oracles (faults, clock, trigger draws - hence any maintenance). *)
  Theorem stack_history_refines_map : forall ops os w al,
    Forall sop_wf ops -> names_plain (w_fs w) -> HInv d al (w_fs w) -> shist ops os w al.
  Proof.
    induction ops as [|op ops IH]; intros os w al Hwf Hpl HI; [exact I|].
    destruct os as [|o os]; [destruct op; exact I|].
    inversion Hwf as [|? ? Hop Hrest]; subst.
    destruct op as [how k v|k|k]; cbn [shist sop_wf] in *.
    - destruct Hop as (Hn & Hv & Hvd & Hnanc).
      pose proof (write_step_gen d Hbase (w_which how) (k_name k) v (w_prog cfg how k v) w o al Hn Hv Hvd Hnanc
                    (pw_w_prog how k v Hn Hv Hnanc) (o_w_prog how k v Hn Hv) Hpl HI) as H. cbn zeta in H.
      destruct (run (w_prog cfg how k v) w o) as [[[r w'] o'] tr]. destruct H as (Hnp & HI1 & HI2).
      split.
      + intros Hwh Hok. destruct (HI2 Hwh Hok) as (Hs & Hb & _). split; assumption.
      + apply IH; [exact Hrest|exact Hnp|]. destruct (w_which how) eqn:Hwh; cbn [andb]; [|exact HI1].
        destruct (is_ok r) eqn:Hok; [exact (proj2 (proj2 (HI2 eq_refl eq_refl)))|exact HI1].
    - pose proof (cache_get_reads cfg dir cap Hw Hrd Hck k Hbase Hop (w_fs w) w o eq_refl Hpl) as H.
      pose proof (run_names_plain (cache_get cfg k) w o Hpl) as Hnp.
      destruct (run (cache_get cfg k) w o) as [[[r w'] o'] tr]. destruct H as (Hsame & Hhit).
      split.
      + intros fd Hr. destruct (Hhit fd Hr) as (Hf & Hne). destruct (HI (k_name k)) as [H0|(i & Hi & Hin)]; [contradiction|].
        exists i. split; [rewrite Hf; exact Hi|exact Hin].
      + apply IH; [exact Hrest|exact Hnp|]. intros m. rewrite Hsame. apply HI.
    - pose proof (inert_run _ _ (rd_cache_touch cfg k) w o) as H.
      pose proof (run_names_plain (cache_touch cfg k) w o Hpl) as Hnp.
      destruct (run (cache_touch cfg k) w o) as [[[r w'] o'] tr]. destruct H as (Hsame & _).
      apply IH; [exact Hrest|exact Hnp|]. intros m. rewrite Hsame. apply HI.
  Qed.

  (** ... and no call of the history writes file contents: every file that exists
      when the history starts (the sources among them) holds the same bytes at
      its end, wherever it is linked by then.  With the theorem above: a hit is a
      descriptor on one of the key's allowed source inodes, and that inode holds
      what the source file held. *)
  Fixpoint srun (ops : list sop) (os : list oracle) (w : world) : world :=
    match ops, os with
    | op :: ops', o :: os' =>
        match op with
        | SGet k => let '(_, w', _, _) := run (cache_get cfg k) w o in srun ops' os' w'
        | STouch k => let '(_, w', _, _) := run (cache_touch cfg k) w o in srun ops' os' w'
        | SWrite how k v => let '(_, w', _, _) := run (w_prog cfg how k v) w o in srun ops' os' w'
        end
    | _, _ => w
    end.

  Lemma calm_run_keeps {A} (p : prog A) Q : allc calm p Q -> forall w o i D,
    data (w_fs w) i = Some D -> i < next_ino (w_fs w) ->
    let '(_, w', _, _) := run p w o in data (w_fs w') i = Some D /\ i < next_ino (w_fs w').
  Proof.
    intros Hp w o i D HD Hi. pose proof (allc_run calm p Q Hp w o) as Hr. pose proof (run_steps p w o) as Hs.
    destruct (run p w o) as [[[a w'] o'] tr]. destruct Hr as (_ & Hall).
    exact (steps_keep_data _ _ _ Hs Hall i D HD Hi).
  Qed.

  Lemma cm_w_prog how k v : allc calm (w_prog cfg how k v) anyc.
  Proof. destruct how; cbn [w_prog]; [apply cm_cache_set|apply cm_cache_put|apply cm_cache_write_temp..]. Qed.

  Theorem stack_history_keeps_data : forall ops os w i D,
    data (w_fs w) i = Some D -> i < next_ino (w_fs w) ->
    data (w_fs (srun ops os w)) i = Some D /\ i < next_ino (w_fs (srun ops os w)).
  Proof.
    induction ops as [|op ops IH]; intros os w i D HD Hi; [cbn; auto|].
    destruct os as [|o os]; [destruct op; cbn; auto|].
    assert (Hcg : forall k, allc calm (cache_get cfg k) anyc) by (intros k; apply cm_cache_get; rewrite Hck; exact I).
    destruct op as [how k v|k|k]; cbn [srun].
    - pose proof (calm_run_keeps _ _ (cm_w_prog how k v) w o i D HD Hi) as H.
      destruct (run (w_prog cfg how k v) w o) as [[[r w'] o'] tr]. destruct H as (H1 & H2). exact (IH os w' i D H1 H2).
    - pose proof (calm_run_keeps _ _ (Hcg k) w o i D HD Hi) as H.
      destruct (run (cache_get cfg k) w o) as [[[r w'] o'] tr]. destruct H as (H1 & H2). exact (IH os w' i D H1 H2).
    - pose proof (calm_run_keeps _ _ (cm_cache_touch cfg k) w o i D HD Hi) as H.
      destruct (run (cache_touch cfg k) w o) as [[[r w'] o'] tr]. destruct H as (H1 & H2). exact (IH os w' i D H1 H2).
  Qed.

  (** After a crash: whatever program a process was running (any operation of any
      cache, maintenance included), wherever it died and whatever faults it had
      met, every later history of the public API keeps these semantics, starting
      from whatever the directory shows at that moment. *)
  Theorem history_after_any_crash {A} (p : prog A) w o n ops os :
    names_plain (w_fs w) -> Forall sop_wf ops ->
    let '(w', _, _, _) := run_crash p w o n in
    shist ops os w' (al_of d (w_fs w')) /\
    forall i D, data (w_fs w') i = Some D -> i < next_ino (w_fs w') -> data (w_fs (srun ops os w')) i = Some D.
  Proof.
    intros Hpl Hwf. pose proof (run_crash_steps p w o n) as Hs.
    destruct (run_crash p w o n) as [[[w' o'] tr] b].
    assert (Hpl' : names_plain (w_fs w')) by (eapply steps_names_plain; eassumption).
    split; [exact (stack_history_refines_map ops os w' _ Hwf Hpl' (HInv_al_of d _))|].
    intros i D HD Hi. exact (proj1 (stack_history_keeps_data ops os w' i D HD Hi)).
  Qed.
End StackHistory.

(** * Sharded cache directories: whole histories, grow-only form.
    Any sequence of sharded set / put / get on one sharded cache, each under its
    own oracle (any fault; any shard chosen by the load estimates and the probe;
    any shard maintained afterwards).  The invariant: every entry of every shard
    directory under a valid key name is unbound or bound to an inode ALLOWED for
    that name, where a write adds its source to the name's list.  Every hit is a
    descriptor on an allowed inode: a sharded cache never serves a value that was
    written for another key, from whichever of the key's two shards it comes. *)
From Kismet Require Import Proofs.KvShard Proofs.KvShardOthers Proofs.KvShardKey.

Inductive shop := ShWrite (which : bool) (k : key) (v : path) | ShGet (k : key).

Section ShardedHistory.
  Variable dir : path.
  Variable nsh total h : N.
  Hypothesis Hdir : plainp dir = true.
  Notation entry j n := ((dir ++ [format_id j]) ++ [n]).

  Definition shop_wf (op : shop) : Prop :=
    match op with
    | ShWrite _ k v => valid_name (k_name k) = true /\ plainp v = true /\ (forall q, v <> dir ++ q) /\ (forall q, dir <> v ++ q)
    | ShGet k => valid_name (k_name k) = true
    end.

  Definition HInvS (al : allowed) (f : fs) : Prop :=
    forall n j, valid_name n = true ->
      name_of f (entry j n) = None \/ exists i, name_of f (entry j n) = Some i /\ In i (al n).

  Fixpoint shhist (ops : list shop) (os : list oracle) (w : world) (al : allowed) : Prop :=
    match ops, os with
    | op :: ops', o :: os' =>
        match op with
        | ShGet k =>
            let '(r, w', _, _) := run (sh_get dir nsh total k) w o in
            (forall fd, r = Ok (Some fd) -> exists i, fdino (w_fs w') fd = Some i /\ In i (al (k_name k))) /\
            shhist ops' os' w' al
        | ShWrite which k v =>
            let src := name_of (w_fs w) v in
            let '(_, w', _, _) := run (sh_publish (if which then cd_set else cd_put) h dir nsh total k v) w o in
            shhist ops' os' w' (upd al (k_name k) (olist src ++ al (k_name k)))
        end
    | _, _ => True
    end.

  Lemma sh_write_step (which : bool) k v w o al :
    valid_name (k_name k) = true -> plainp v = true -> (forall q, v <> dir ++ q) -> (forall q, dir <> v ++ q) ->
    names_plain (w_fs w) -> HInvS al (w_fs w) ->
    let src := name_of (w_fs w) v in
    let '(_, w', _, _) := run (sh_publish (if which then cd_set else cd_put) h dir nsh total k v) w o in
    names_plain (w_fs w') /\ HInvS (upd al (k_name k) (olist src ++ al (k_name k))) (w_fs w').
  Proof.
    intros Hk Hv Hout Hnanc Hpl HI src.
    pose proof (run_names_plain (sh_publish (if which then cd_set else cd_put) h dir nsh total k v) w o Hpl) as Hnp.
    (* entries of other names *)
    assert (Hoth : forall n j, valid_name n = true -> n <> k_name k ->
              let '(_, w', _, _) := run (sh_publish (if which then cd_set else cd_put) h dir nsh total k v) w o in
              name_of (w_fs w') (entry j n) = name_of (w_fs w) (entry j n) \/ name_of (w_fs w') (entry j n) = None).
    { intros n j Hn Hne.
      assert (Hx : plainp (entry j n) = true) by (apply (dst_plain (shard_cdir dir nsh total j) n); [apply (dcd_plain dir nsh total Hdir)|exact Hn]).
      assert (Hxv : entry j n <> v) by (intros E; rewrite <- app_assoc in E; exact (Hout _ (eq_sym E))).
      assert (Hxd : forall sid, entry j n <> cd_base (shard_cdir dir nsh total sid) ++ [k_name k]).
      { intros sid E. cbn [cd_base shard_cdir] in E. apply app_inj_tail in E. destruct E as (_ & E). contradiction. }
      assert (Hxl : List.length dir + 1 < List.length (entry j n)) by (rewrite !app_length; cbn; lia).
      exact (sharded_others_keep_or_vanish dir nsh total k v Hdir Hk Hv (entry j n) Hx Hxv Hxd Hxl (w_fs w) which h w o eq_refl Hpl). }
    (* entries of the key's own name, in any shard directory *)
    assert (Hkey : forall j i0, (src = Some i0 \/ src = None) ->
              let '(_, w', _, _) := run (sh_publish (if which then cd_set else cd_put) h dir nsh total k v) w o in
              name_of (w_fs w') (entry j (k_name k)) = name_of (w_fs w) (entry j (k_name k)) \/ name_of (w_fs w') (entry j (k_name k)) = None \/
              name_of (w_fs w') (entry j (k_name k)) = Some i0).
    { intros j i0 Hs.
      assert (Hy : plainp (entry j (k_name k)) = true) by (apply (dst_plain (shard_cdir dir nsh total j) (k_name k)); [apply (dcd_plain dir nsh total Hdir)|exact Hk]).
      assert (Hyv : entry j (k_name k) <> v) by (intros E; rewrite <- app_assoc in E; exact (Hout _ (eq_sym E))).
      assert (Hyl : List.length dir + 1 < List.length (entry j (k_name k))) by (rewrite !app_length; cbn; lia).
      exact (sharded_entry_old_none_or_source dir nsh total k v Hdir Hk Hv Hout Hnanc (entry j (k_name k)) Hy Hyv Hyl i0 _ which h w o Hpl Hs eq_refl). }
    destruct (run (sh_publish (if which then cd_set else cd_put) h dir nsh total k v) w o) as [[[r w'] o'] tr].
    split; [exact Hnp|]. intros n j Hn.
    destruct (string_dec n (k_name k)) as [->|Hne].
    - rewrite upd_same.
      assert (Hb : name_of (w_fs w') (entry j (k_name k)) = name_of (w_fs w) (entry j (k_name k)) \/ name_of (w_fs w') (entry j (k_name k)) = None \/
                   (src <> None /\ name_of (w_fs w') (entry j (k_name k)) = src)).
      { destruct src as [i0|] eqn:Hsrc.
        - destruct (Hkey j i0 (or_introl eq_refl)) as [H|[H|H]]; [tauto|tauto|right; right; split; [discriminate|exact H]].
        - destruct (Hkey j 0 (or_intror eq_refl)) as [Ha|[Ha|Ha]]; [tauto|tauto|].
          destruct (Hkey j 1 (or_intror eq_refl)) as [Hb|[Hb|Hb]]; [tauto|tauto|]. rewrite Ha in Hb. discriminate. }
      destruct Hb as [H|[H|(Hs & H)]].
      + rewrite H. destruct (HI (k_name k) j Hn) as [H0|(i & Hi & Hin)]; [left; exact H0|right; exists i; split; [exact Hi|apply in_or_app; right; exact Hin]].
      + left. exact H.
      + right. destruct src as [i0|]; [|contradiction]. exists i0. split; [exact H|cbn; left; reflexivity].
    - rewrite (upd_other al (k_name k) _ n Hne). destruct (Hoth n j Hn Hne) as [H|H]; [rewrite H; apply HI, Hn|left; exact H].
  Qed.

  Theorem sharded_history_refines_map : forall ops os w al,
    Forall shop_wf ops -> names_plain (w_fs w) -> HInvS al (w_fs w) -> shhist ops os w al.
  Proof.
    induction ops as [|op ops IH]; intros os w al Hwf Hpl HI; [exact I|].
    destruct os as [|o os]; [destruct op; exact I|].
    inversion Hwf as [|? ? Hop Hrest]; subst.
    destruct op as [which k v|k]; cbn [shhist shop_wf] in *.
    - destruct Hop as (Hk & Hv & Hout & Hnanc).
      pose proof (sh_write_step which k v w o al Hk Hv Hout Hnanc Hpl HI) as H. cbn zeta in H.
      destruct (run (sh_publish (if which then cd_set else cd_put) h dir nsh total k v) w o) as [[[r w'] o'] tr]. destruct H as (Hnp & HI1).
      apply IH; assumption.
    - destruct (shard_ids (k_hash k) (k_sec k) nsh) as [a b] eqn:Hids.
      pose proof (sharded_get_reads dir nsh total k Hdir Hop a b Hids (w_fs w) w o eq_refl Hpl) as H.
      pose proof (run_names_plain (sh_get dir nsh total k) w o Hpl) as Hnp.
      destruct (run (sh_get dir nsh total k) w o) as [[[r w'] o'] tr]. destruct H as (Hsame & Hhit).
      split.
      + intros fd Hr. destruct (Hhit fd Hr) as ([Hf|Hf] & Hne).
        * destruct (HI (k_name k) a Hop) as [H0|(i & Hi & Hin)]; [rewrite Hf in Hne; contradiction|]. exists i. split; [rewrite Hf; exact Hi|exact Hin].
        * destruct (HI (k_name k) b Hop) as [H0|(i & Hi & Hin)]; [rewrite Hf in Hne; contradiction|]. exists i. split; [rewrite Hf; exact Hi|exact Hin].
      + apply IH; [exact Hrest|exact Hnp|]. intros n j Hn. rewrite Hsame. apply HI, Hn.
  Qed.

  (** The canonical starting abstraction: for each name, every inode bound to a
      path that ends with it. *)
  Definition al_of_names (f : fs) : allowed :=
    fun n => map snd (filter (fun pi => String.eqb (last (fst pi) EmptyString) n) (names f)).

  Lemma alookup_In (p : path) (l : list (path * nat)) (i : nat) : alookup path_eqb p l = Some i -> In (p, i) l.
  Proof.
    induction l as [|[q j] l IH]; cbn [alookup]; [discriminate|].
    destruct (path_eqb p q) eqn:E; [intros H; injection H as <-; apply path_eqb_eq in E; subst q; left; reflexivity|intros H; right; apply IH, H].
  Qed.

  Lemma HInvS_al_of_names f : HInvS (al_of_names f) f.
  Proof.
    intros n j _. destruct (name_of f (entry j n)) as [i|] eqn:Hb; [|left; reflexivity].
    right. exists i. split; [reflexivity|]. unfold al_of_names. apply in_map_iff. exists (entry j n, i). split; [reflexivity|].
    apply filter_In. split; [exact (alookup_In _ _ _ Hb)|]. cbn [fst]. rewrite last_last. apply String.eqb_refl.
  Qed.
End ShardedHistory.

(** * The public stack API over a SHARDED write cache (no read-only caches, no
    checker): set / put / set_temp_file / put_temp_file / get / touch, grow-only form. *)
Section StackShardedHistory.
  Variable cfg : stack_cfg.
  Variable dir : path.
  Variable nsh total : N.
  Hypothesis Hw : s_writer cfg = Some (FSharded dir nsh total).
  Hypothesis Hrd : s_readers cfg = [].
  Hypothesis Hck : s_checker cfg = None.
  Hypothesis Hdir : plainp dir = true.
  Notation entry j n := ((dir ++ [format_id j]) ++ [n]).

  Definition ssop_wf (op : sop) : Prop :=
    match op with
    | SWrite _ k v => valid_name (k_name k) = true /\ plainp v = true /\ (forall q, v <> dir ++ q) /\ (forall q, dir <> v ++ q)
    | SGet k | STouch k => valid_name (k_name k) = true
    end.

  Fixpoint sshist (ops : list sop) (os : list oracle) (w : world) (al : allowed) : Prop :=
    match ops, os with
    | op :: ops', o :: os' =>
        match op with
        | SGet k =>
            let '(r, w', _, _) := run (cache_get cfg k) w o in
            (forall fd, r = Ok (Some fd) -> exists i, fdino (w_fs w') fd = Some i /\ In i (al (k_name k))) /\
            sshist ops' os' w' al
        | STouch k =>
            let '(_, w', _, _) := run (cache_touch cfg k) w o in sshist ops' os' w' al
        | SWrite how k v =>
            let src := name_of (w_fs w) v in
            let '(_, w', _, _) := run (w_prog cfg how k v) w o in
            sshist ops' os' w' (upd al (k_name k) (olist src ++ al (k_name k)))
        end
    | _, _ => True
    end.

  (** the two class monitors accept the stack-level writers *)
  Section Writer.
    Variable k : key.
    Variable v : path.
    Hypothesis Hk : valid_name (k_name k) = true.
    Hypothesis Hv : plainp v = true.
    Hypothesis Hout : forall q, v <> dir ++ q.
    Hypothesis Hnanc : forall q, dir <> v ++ q.

    Lemma class_w_prog {S0} (m : S0 -> event -> option S0) (ok : call -> bool) (s0 : S0) how :
      (forall c, rebind_paths c = [] -> ok c = true) ->
      (forall (s : S0) c r, True -> ok c = true -> exists s', m s (EvCall c r) = Some s' /\ True) ->
      (forall (s : S0) ev, True -> match ev with EvCall _ _ => True | _ => exists s', m s ev = Some s' /\ True end) ->
      ok (CUnlink v) = true ->
      (forall (which : bool) (s : S0), wpv m (sh_publish (if which then cd_set else cd_put) (s_handle cfg) dir nsh total k v) (fun _ _ => True) s) ->
      wpv m (w_prog cfg how k v) (fun _ _ => True) s0.
    Proof.
      intros Hnr Hcall Hsil Hu Hpub.
      assert (Hcls : forall {A} (p : prog A) s, allc ok p anyc -> wpv m p (fun _ _ => True) s).
      { intros A p s H. eapply wpv_mono; [|apply (gclass m (fun _ => True) ok Hcall Hsil p anyc H s I)]. auto. }
      assert (Hwi : forall which s, wpv m (write_impl which cfg k v) (fun _ _ => True) s).
      { intros which s. unfold write_impl. rewrite Hw. destruct which; cbn [f_set f_put]; [apply (Hpub true)|apply (Hpub false)]. }
      destruct how as [| |fd|fd]; cbn [w_prog]; unfold cache_set, cache_put, cache_write_temp; apply wpv_try.
      1-2: (eapply wpv_mono; [|apply (Hcls _ _ s0 (gc_maybe_sync_path ok Hnr cfg v))]); intros [u|e|] s1 _; try exact I; apply Hwi.
      all: (eapply wpv_mono; [|apply (Hcls _ _ s0 (gc_finalize v fd ok Hnr Hu (s_autosync cfg)))]); intros [u|e|] s1 _; try exact I.
      all: apply wpv_bind; (eapply wpv_mono; [|apply Hwi]); intros r s2 _.
      all: (eapply wpv_mono; [|apply (Hcls _ (quiet (CUnlink v) ;;; Ret r) s2)]); [auto|].
      all: unfold quiet; allc_auto; try (apply allc_call; exact Hu).
    Qed.
  End Writer.

  Lemma ssh_write_step how k v w o al :
    valid_name (k_name k) = true -> plainp v = true -> (forall q, v <> dir ++ q) -> (forall q, dir <> v ++ q) ->
    names_plain (w_fs w) -> HInvS dir al (w_fs w) ->
    let src := name_of (w_fs w) v in
    let '(_, w', _, _) := run (w_prog cfg how k v) w o in
    names_plain (w_fs w') /\ HInvS dir (upd al (k_name k) (olist src ++ al (k_name k))) (w_fs w').
  Proof.
    intros Hk Hv Hout Hnanc Hpl HI src.
    pose proof (run_names_plain (w_prog cfg how k v) w o Hpl) as Hnp.
    assert (Hoth : forall n j, valid_name n = true -> n <> k_name k ->
              let '(_, w', _, _) := run (w_prog cfg how k v) w o in
              name_of (w_fs w') (entry j n) = name_of (w_fs w) (entry j n) \/ name_of (w_fs w') (entry j n) = None).
    { intros n j Hn Hne.
      assert (Hx : plainp (entry j n) = true) by (apply (dst_plain (shard_cdir dir nsh total j) n); [apply (dcd_plain dir nsh total Hdir)|exact Hn]).
      assert (Hxv : entry j n <> v) by (intros E; rewrite <- app_assoc in E; exact (Hout _ (eq_sym E))).
      assert (Hxd : forall sid, entry j n <> cd_base (shard_cdir dir nsh total sid) ++ [k_name k]).
      { intros sid E. cbn [cd_base shard_cdir] in E. apply app_inj_tail in E. destruct E as (_ & E). contradiction. }
      assert (Hxl : List.length dir + 1 < List.length (entry j n)) by (rewrite !app_length; cbn; lia).
      refine (sharded_others_gen (entry j n) Hx (w_fs w) (w_prog cfg how k v) _ w o _ eq_refl Hpl).
      apply (class_w_prog k v (xs_step (entry j n)) (xcls (entry j n)) tt how (xcls_nr (entry j n)) (xs_call (entry j n)) (xs_sil (entry j n))).
      - apply xcls_unlink, Hv.
      - intros which []. apply (xs_sh_publish dir nsh total k v Hdir Hk Hv (entry j n) Hx Hxv Hxd Hxl which). }
    assert (Hkey : forall j i0, (src = Some i0 \/ src = None) ->
              let '(_, w', _, _) := run (w_prog cfg how k v) w o in
              name_of (w_fs w') (entry j (k_name k)) = name_of (w_fs w) (entry j (k_name k)) \/ name_of (w_fs w') (entry j (k_name k)) = None \/
              name_of (w_fs w') (entry j (k_name k)) = Some i0).
    { intros j i0 Hs.
      assert (Hy : plainp (entry j (k_name k)) = true) by (apply (dst_plain (shard_cdir dir nsh total j) (k_name k)); [apply (dcd_plain dir nsh total Hdir)|exact Hk]).
      assert (Hyv : entry j (k_name k) <> v) by (intros E; rewrite <- app_assoc in E; exact (Hout _ (eq_sym E))).
      assert (Hyl : List.length dir + 1 < List.length (entry j (k_name k))) by (rewrite !app_length; cbn; lia).
      refine (sharded_entry_gen v Hv (entry j (k_name k)) Hy Hyv i0 _ (w_prog cfg how k v) _ w o _ Hpl Hs eq_refl).
      apply (class_w_prog k v (ys_step v (entry j (k_name k))) (ycls v (entry j (k_name k))) tt how (ycls_nr v (entry j (k_name k))) (ys_call v (entry j (k_name k))) (ys_sil v (entry j (k_name k)))).
      - exact Hv.
      - intros which []. apply (ys_sh_publish dir nsh total k v Hdir Hk Hv Hout Hnanc (entry j (k_name k)) Hy Hyl which). }
    destruct (run (w_prog cfg how k v) w o) as [[[r w'] o'] tr].
    split; [exact Hnp|]. intros n j Hn.
    destruct (string_dec n (k_name k)) as [->|Hne].
    - rewrite upd_same.
      assert (Hb : name_of (w_fs w') (entry j (k_name k)) = name_of (w_fs w) (entry j (k_name k)) \/ name_of (w_fs w') (entry j (k_name k)) = None \/
                   (src <> None /\ name_of (w_fs w') (entry j (k_name k)) = src)).
      { destruct src as [i0|] eqn:Hsrc.
        - destruct (Hkey j i0 (or_introl eq_refl)) as [H|[H|H]]; [tauto|tauto|right; right; split; [discriminate|exact H]].
        - destruct (Hkey j 0 (or_intror eq_refl)) as [Ha|[Ha|Ha]]; [tauto|tauto|].
          destruct (Hkey j 1 (or_intror eq_refl)) as [Hb|[Hb|Hb]]; [tauto|tauto|]. rewrite Ha in Hb. discriminate. }
      destruct Hb as [H|[H|(Hs & H)]].
      + rewrite H. destruct (HI (k_name k) j Hn) as [H0|(i & Hi & Hin)]; [left; exact H0|right; exists i; split; [exact Hi|apply in_or_app; right; exact Hin]].
      + left. exact H.
      + right. destruct src as [i0|]; [|contradiction]. exists i0. split; [exact H|cbn; left; reflexivity].
    - rewrite (upd_other al (k_name k) _ n Hne). destruct (Hoth n j Hn Hne) as [H|H]; [rewrite H; apply HI, Hn|left; exact H].
  Qed.

  Lemma sg_cache_get k a b : valid_name (k_name k) = true -> shard_ids (k_hash k) (k_sec k) nsh = (a, b) ->
    wpv (sg_step dir nsh total k a b) (cache_get cfg k)
        (fun r s' => match r with
                     | Ok (Some fd) => s' = G1 (RFd fd) \/ exists r1, s' = G2 r1 (RFd fd)
                     | _ => s' <> G0
                     end) G0.
  Proof.
    intros Hk Hids. unfold cache_get. rewrite Hw, Hrd. cbn [f_get ro_get]. apply wpv_try.
    eapply wpv_mono; [|apply (sg_sh_get dir nsh total k Hk a b Hids)].
    intros [[fd|]|e|] s' H; try exact H.
    all: try (unfold with_checked; rewrite Hck; cbn [try bind]; apply wpv_ret; exact H).
    all: try (apply wpv_ret; exact H).
  Qed.

  Theorem stack_sharded_history_refines_map : forall ops os w al,
    Forall ssop_wf ops -> names_plain (w_fs w) -> HInvS dir al (w_fs w) -> sshist ops os w al.
  Proof.
    induction ops as [|op ops IH]; intros os w al Hwf Hpl HI; [exact I|].
    destruct os as [|o os]; [destruct op; exact I|].
    inversion Hwf as [|? ? Hop Hrest]; subst.
    destruct op as [how k v|k|k]; cbn [sshist ssop_wf] in *.
    - destruct Hop as (Hk & Hv & Hout & Hnanc).
      pose proof (ssh_write_step how k v w o al Hk Hv Hout Hnanc Hpl HI) as H. cbn zeta in H.
      destruct (run (w_prog cfg how k v) w o) as [[[r w'] o'] tr]. destruct H as (Hnp & HI1).
      apply IH; assumption.
    - destruct (shard_ids (k_hash k) (k_sec k) nsh) as [a b] eqn:Hids.
      pose proof (sharded_get_reads_gen dir nsh total k Hdir Hop a b (w_fs w) (cache_get cfg k) w o (sg_cache_get k a b Hop Hids) eq_refl Hpl) as H.
      pose proof (run_names_plain (cache_get cfg k) w o Hpl) as Hnp.
      destruct (run (cache_get cfg k) w o) as [[[r w'] o'] tr]. destruct H as (Hsame & Hhit).
      split.
      + intros fd Hr. destruct (Hhit fd Hr) as ([Hf|Hf] & Hne).
        * destruct (HI (k_name k) a Hop) as [H0|(i & Hi & Hin)]; [rewrite Hf in Hne; contradiction|]. exists i. split; [rewrite Hf; exact Hi|exact Hin].
        * destruct (HI (k_name k) b Hop) as [H0|(i & Hi & Hin)]; [rewrite Hf in Hne; contradiction|]. exists i. split; [rewrite Hf; exact Hi|exact Hin].
      + apply IH; [exact Hrest|exact Hnp|]. intros n j Hn. rewrite Hsame. apply HI, Hn.
    - pose proof (inert_run _ _ (rd_cache_touch cfg k) w o) as H.
      pose proof (run_names_plain (cache_touch cfg k) w o Hpl) as Hnp.
      destruct (run (cache_touch cfg k) w o) as [[[r w'] o'] tr]. destruct H as (Hsame & _).
      apply IH; [exact Hrest|exact Hnp|]. intros n j Hn. rewrite Hsame. apply HI, Hn.
  Qed.
End StackShardedHistory.
