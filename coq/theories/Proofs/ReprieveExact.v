(** prune reprieves exactly what the planner prescribes, for arbitrary environment
    responses: if [prune dir cap] returns [Ok _], then, besides the unlinks of
    [PruneExact], the entries it set out to re-stamp (each re-stamp starts by
    opening the entry read-only) are, in order, [dir/name] for the entries that
    [plan (entries_of observed) cap] moves back - the entries found marked as
    used ahead of the last victim - and every unlink precedes every re-stamp.
    The stamp values are [Restamp]'s subject. *)
From Coq Require Import List NArith ZArith String Bool Arith Lia.
From Kismet Require Import Pure.SecondChance Pure.Hash FS.Fs FS.Prog Spec.Wp Spec.ClassMon Ops.Ops.
Import ListNotations.
Local Open Scope Z_scope.

Record rstate := mkR { r_obs : list cfile; r_unl : list path; r_stp : list path; r_late : bool }.
(* r_late: an unlink was issued after a re-stamp had started *)

Definition r_step (s : rstate) (ev : event) : option rstate :=
  match ev with
  | EvCall (CStat p false) (RStat st) =>
      if st_dir st then Some s
      else Some (mkR (r_obs s ++ [mkCfile (last p EmptyString) (st_mtime st) (st_mtime st <=? st_atime st)]) (r_unl s) (r_stp s) (r_late s))
  | EvCall (CUnlink p) _ => Some (mkR (r_obs s) (r_unl s ++ [p]) (r_stp s) (match r_stp s with [] => r_late s | _ => true end))
  | EvCall (COpen p RDONLY) _ => Some (mkR (r_obs s) (r_unl s) (r_stp s ++ [p]) (r_late s))
  | _ => Some s
  end.

Lemma collect_loop_r dir dh names : forall acc count s base,
  r_obs s = base ++ rev acc ->
  wp r_step (collect_loop dir dh names acc count)
     (fun r s' => r_unl s' = r_unl s /\ r_stp s' = r_stp s /\ r_late s' = r_late s /\ match r with Ok (files, _) => r_obs s' = base ++ files | _ => True end) s.
Proof.
  induction names as [|n rest IH]; intros acc count s base Hobs; cbn [collect_loop].
  - cbn [wp]. repeat split; try reflexivity. exact Hobs.
  - destruct (dot_prefixed n); [apply IH; exact Hobs|].
    cbn [bind call1 wp]. intros r. unfold after.
    destruct r as [| |st| | |er]; cbn [r_step];
      try (cbn [wp bind quiet call1]; intros r2; unfold after; cbn [r_step wp]; repeat split; reflexivity).
    + destruct (st_dir st).
      * apply IH. exact Hobs.
      * eapply wp_mono; [|apply (IH _ _ _ base)].
        -- intros a s' (Hu & Hs & Hl & Hq). repeat split; assumption.
        -- cbn [r_obs rev]. rewrite Hobs, last_last, app_assoc. reflexivity.
    + destruct (is_absent (OsErr er)); [apply IH; exact Hobs|].
      cbn [wp bind quiet call1]. intros r2. unfold after. cbn [r_step wp]. repeat split; reflexivity.
Qed.

Lemma evict_loop_r dir names : forall s, r_stp s = [] ->
  wp r_step (evict_loop dir names)
     (fun r s' => r_obs s' = r_obs s /\ r_stp s' = [] /\ r_late s' = r_late s /\
                  match r with Ok _ => r_unl s' = r_unl s ++ map (fun n => dir ++ [n]) names | _ => True end) s.
Proof.
  induction names as [|n rest IH]; intros s Hst; cbn [evict_loop].
  - cbn [wp map]. rewrite app_nil_r. auto.
  - unfold try, ensure_file_removed, unit_call. cbn [bind call1 wp]. intros r. unfold after. cbn [r_step]. rewrite Hst.
    assert (Hgo : wp r_step (evict_loop dir rest)
              (fun r0 s' => r_obs s' = r_obs s /\ r_stp s' = [] /\ r_late s' = r_late s /\
                            match r0 with Ok _ => r_unl s' = r_unl s ++ map (fun n0 => dir ++ [n0]) (n :: rest) | _ => True end)
              (mkR (r_obs s) (r_unl s ++ [dir ++ [n]]) [] (r_late s))).
    { eapply wp_mono; [|apply IH; reflexivity]. intros a s' (Ho & Hs & Hl & Hq). repeat split; try assumption.
      destruct a; auto. rewrite Hq. cbn [r_unl map]. rewrite <- app_assoc. reflexivity. }
    destruct r as [| | | | |er]; cbn [wp bind]; try exact Hgo.
    destruct (is_absent (OsErr er)); cbn [wp]; [exact Hgo|]. repeat split; reflexivity.
Qed.

(** one re-stamp: exactly one read-only open, of the entry; no unlink, no stat by path *)
Lemma set_times_r p a m : forall s,
  wp r_step (set_times p a m) (fun _ s' => s' = mkR (r_obs s) (r_unl s) (r_stp s ++ [p]) (r_late s)) s.
Proof.
  intros s. unfold set_times, unit_call, quiet. cbn [bind call1 wp]. intros r. unfold after. cbn [r_step].
  Ltac fin_stamp := cbn [bind wp]; intros ?; unfold after; cbn [r_step]; cbn [bind wp]; intros ?; unfold after; cbn [r_step wp]; reflexivity.
  destruct r; first [fin_stamp|idtac].
  all: cbn [bind wp]; intros r2; unfold after; cbn [r_step]; destruct r2; first [fin_stamp|cbn [wp]; reflexivity].
Qed.

Lemma move_back_loop_r dir names : forall s,
  wp r_step (move_back_loop dir names)
     (fun r s' => r_obs s' = r_obs s /\ r_unl s' = r_unl s /\ r_late s' = r_late s /\
                  match r with Ok _ => r_stp s' = r_stp s ++ map (fun n => dir ++ [n]) names | _ => True end) s.
Proof.
  induction names as [|n rest IH]; intros s; cbn [move_back_loop].
  - cbn [wp map]. rewrite app_nil_r. auto.
  - unfold move_to_back_of_list. cbn [bind wp]. intros t. unfold after. cbn [r_step].
    apply wp_bind. eapply wp_mono; [|apply set_times_r]. intros r s1 ->.
    assert (Hgo : wp r_step (move_back_loop dir rest)
              (fun r0 s' => r_obs s' = r_obs s /\ r_unl s' = r_unl s /\ r_late s' = r_late s /\
                            match r0 with Ok _ => r_stp s' = r_stp s ++ map (fun n0 => dir ++ [n0]) (n :: rest) | _ => True end)
              (mkR (r_obs s) (r_unl s) (r_stp s ++ [dir ++ [n]]) (r_late s))).
    { eapply wp_mono; [|apply IH]. intros a s' (Ho & Hu & Hl & Hq). repeat split; try assumption.
      destruct a; auto. rewrite Hq. cbn [r_stp map]. rewrite <- app_assoc. reflexivity. }
    destruct r as [u|e|]; [exact Hgo|destruct (is_absent e); [exact Hgo|cbn [wp]; repeat split; reflexivity]|cbn [wp]; repeat split; reflexivity].
Qed.

Definition r_init : rstate := mkR [] [] [] false.

Theorem prune_reprieves_exactly_the_plan dir cap :
  wp r_step (prune dir cap)
     (fun r s' => match r with
                  | Ok (est, nev) =>
                      exists ev mb, plan (entries_of (r_obs s')) cap = Some (ev, mb) /\
                        r_unl s' = map (fun e => dir ++ [name_at (r_obs s') e]) ev /\
                        r_stp s' = map (fun e => dir ++ [name_at (r_obs s') e]) mb /\
                        r_late s' = false
                  | _ => True
                  end) r_init.
Proof.
  unfold prune, try, collect_cached_files, fd_call. cbn [bind call1 wp]. intros r. unfold after. cbn [r_step].
  destruct r as [|dh| | | |er]; cbn [wp bind]; auto.
  intros r2. unfold after. cbn [r_step].
  destruct r2 as [| | | |names|er2]; try (cbn [wp bind quiet call1]; intros r3; unfold after; cbn [r_step wp]; exact I).
  apply wp_bind. apply wp_bind.
  eapply wp_mono; [|apply (collect_loop_r dir dh names [] 0%N r_init [])]; [|reflexivity].
  intros [[files count]|e|] s1 (Hu & Hs & Hl & Hobs); cbn [wp bind]; auto.
  cbn [app] in Hobs.
  destruct (plan (entries_of files) cap) as [[ev mb]|] eqn:Hplan.
  - cbn [bind quiet call1 wp]. intros r3. unfold after. cbn [r_step].
    apply wp_bind. apply wp_bind.
    eapply wp_mono; [|apply (evict_loop_r dir (map (name_at files) ev) s1 Hs)].
    intros [u|e|] s2 (Ho2 & Hs2 & Hl2 & Hq); cbn [wp]; auto.
    eapply wp_mono; [|apply (move_back_loop_r dir (map (name_at files) mb) s2)].
    intros a s3 (Ho3 & Hu3 & Hl3 & Hq3). cbn [wp]. destruct a as [u2|e|]; auto.
    exists ev, mb. rewrite Ho3, Ho2, Hobs. split; [exact Hplan|]. split; [|split].
    + rewrite Hu3, Hq, Hu. cbn [r_init r_unl app]. rewrite map_map. reflexivity.
    + rewrite Hq3, Hs2. cbn [app]. rewrite map_map. reflexivity.
    + rewrite Hl3, Hl2, Hl. reflexivity.
  - cbn [bind quiet call1 wp]. intros r3. unfold after. cbn [r_step wp]. exact I.
Qed.
