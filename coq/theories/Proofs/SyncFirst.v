(** Durable before visible (auto_sync on): for arbitrary environment responses,
    every publishing rename or link issued by set / put / set_temp_file /
    put_temp_file / ensure / get_or_update is preceded by an ACCEPTED fsync that
    came after the last write, copy or file creation of the operation.  A failed
    flush is never followed by a publication. *)
From Coq Require Import List NArith ZArith String Bool Arith Lia.
From Kismet Require Import Pure.Hash FS.Fs FS.Prog Spec.Wp Spec.ClassMon Spec.Calm Spec.Chain Ops.Ops.
Import ListNotations.

(** state: "an accepted fsync happened since the last data write / creation" *)
Definition y_step (s : bool) (ev : event) : option bool :=
  match ev with
  | EvCall (CWrite _ _) _ | EvCall (CCopy _ _) _ | EvCall (CCreate _ _) _ | EvCall (COpenTmp _) _
  | EvCall (CCreateTrunc _ _) _ => Some false
  | EvCall (CFsync _) r => Some (match r with RErr _ => s | _ => true end)
  | EvCall (CRename _ _) _ | EvCall (CLink _ _) _ => if s then Some s else None
  | _ => Some s
  end.

Definition sy {A} (p : prog A) : Prop := forall s, wp y_step p (fun _ _ => True) s.

Lemma sy_bind {A B} (p : prog A) (f : A -> prog B) : sy p -> (forall a, sy (f a)) -> sy (bind p f).
Proof. intros Hp Hf s. apply wp_bind. eapply wp_mono; [|apply Hp]. intros a s' _. apply Hf. Qed.
Lemma sy_ret {A} (a : A) : sy (Ret a). Proof. intros s. exact I. Qed.

(** Programs without rename or link cannot violate anything. *)
Definition nrl (c : call) : bool := match c with CRename _ _ | CLink _ _ => false | _ => true end.
Lemma base_nrl c : base c = true -> nrl c = true. Proof. destruct c; cbn; auto. Qed.
Lemma sy_of_nrl {A} (p : prog A) Q : allc nrl p Q -> sy p.
Proof.
  unfold allc, sy.
  induction p as [a|c k IH|k IH|w k IH|n k IH|h i k IH|h i v k IH|k IH|t pl k IH]; cbn [wp]; unfold after; cbn [k_step]; intros H s; auto.
  - intros r. specialize (H r). destruct (nrl c) eqn:Hc; [|contradiction].
    assert (Hs : exists s1, y_step s (EvCall c r) = Some s1) by (destruct c; try discriminate Hc; cbn [y_step]; eauto).
    destruct Hs as (s1 & Hs). rewrite Hs. apply IH, H.
  - intros t. cbn [y_step]. apply IH, H.
  - intros b. cbn [y_step]. apply IH, H.
  - intros x. cbn [y_step]. apply IH, H.
  - intros x. cbn [y_step]. apply IH, H.
  - cbn [y_step]. apply IH, H.
Qed.

(** Calm programs (no write, copy, creation) started synced stay synced, renames and links included. *)
Lemma calm_keeps_synced {A} (p : prog A) Q : cm p Q -> wp y_step p (fun _ s' => s' = true) true.
Proof.
  unfold allc.
  induction p as [a|c k IH|k IH|w k IH|n k IH|h i k IH|h i v k IH|k IH|t pl k IH]; cbn [wp]; unfold after; cbn [k_step]; intros H; auto.
  - intros r. specialize (H r). destruct (calm c) eqn:Hc; [|contradiction].
    assert (Hs : y_step true (EvCall c r) = Some true).
    { destruct c; try (match goal with a : accmode |- _ => destruct a end); try discriminate Hc; cbn [y_step]; try reflexivity. destruct r; reflexivity. }
    rewrite Hs. apply IH, H.
  - intros t. cbn [y_step]. apply IH, H.
  - intros b. cbn [y_step]. apply IH, H.
  - intros x. cbn [y_step]. apply IH, H.
  - intros x. cbn [y_step]. apply IH, H.
  - cbn [y_step]. apply IH, H.
Qed.

Definition is_ok {A} (r : outcome A) : bool := match r with Ok _ => true | _ => false end.

(** The two flushing steps: success means "synced". *)
Lemma sync_path_synced cfg p : s_autosync cfg = true -> forall s,
  wp y_step (maybe_sync_path cfg p) (fun r s' => is_ok r = true -> s' = true) s.
Proof.
  intros Ha s. unfold maybe_sync_path, try, fd_call, quiet. rewrite Ha. cbn [bind call1 wp]. intros r. unfold after. cbn [y_step].
  destruct r as [|fd| | | |er]; cbn [wp bind]; try discriminate.
  intros r2. unfold after. cbn [y_step]. destruct r2 as [| | | | |er2]; cbn [wp bind]; intros r3; unfold after; cbn [y_step wp]; auto; discriminate.
Qed.

Lemma finalize_synced fd p : forall s,
  wp y_step (finalize_tempfile fd p true) (fun r s' => is_ok r = true -> s' = true) s.
Proof.
  intros s. unfold finalize_tempfile, try_c, unit_call, quiet. cbn [bind call1 wp]. intros r. unfold after. cbn [y_step].
  destruct r as [| | | | |er]; cbn [wp bind];
    try (intros r2; unfold after; cbn [y_step]; destruct r2 as [| | | | |er2]; cbn [wp bind];
         try (intros r3; unfold after; cbn [y_step]; destruct r3 as [| | | | |er3]; cbn [wp bind]; auto;
              try (intros r4; unfold after; cbn [y_step wp]; discriminate));
         try (intros r3; unfold after; cbn [y_step wp bind]; intros r4; unfold after; cbn [y_step wp]; discriminate)).
  all: try (intros r2; unfold after; cbn [y_step wp bind]; intros r3; unfold after; cbn [y_step wp]; discriminate).
Qed.

(** Composition: once a flushing step succeeded, a calm continuation may publish. *)
Definition flushes {A} (q : prog (outcome A)) : Prop :=
  forall s, wp y_step q (fun r s' => is_ok r = true -> s' = true) s.

Lemma sy_after_flush_try {A B} (q : prog (outcome A)) (f : A -> prog (outcome B)) :
  flushes q -> (forall a, cm (f a) anyc) -> sy (try q f).
Proof.
  intros Hq Hf s. unfold try. apply wp_bind. eapply wp_mono; [|apply Hq].
  intros [a|e|] s1 H1; cbn [wp]; auto. rewrite (H1 eq_refl).
  eapply wp_mono; [|apply (calm_keeps_synced _ _ (Hf a))]. auto.
Qed.

Lemma sy_after_flush_try_c {A B} (q : prog (outcome A)) (cl : prog unit) (f : A -> prog (outcome B)) :
  flushes q -> sy cl -> (forall a, cm (f a) anyc) -> sy (try_c q cl f).
Proof.
  intros Hq Hcl Hf s. unfold try_c. apply wp_bind. eapply wp_mono; [|apply Hq].
  intros [a|e|] s1 H1.
  - rewrite (H1 eq_refl). eapply wp_mono; [|apply (calm_keeps_synced _ _ (Hf a))]. auto.
  - apply sy_bind; [exact Hcl|intros; apply sy_ret].
  - apply sy_bind; [exact Hcl|intros; apply sy_ret].
Qed.

Lemma sy_try_c {A B} (q : prog (outcome A)) (cl : prog unit) (f : A -> prog (outcome B)) :
  sy q -> sy cl -> (forall a, sy (f a)) -> sy (try_c q cl f).
Proof.
  intros Hq Hcl Hf. unfold try_c. apply sy_bind; [exact Hq|].
  intros [a|e|]; [apply Hf|apply sy_bind; [exact Hcl|intros; apply sy_ret]..].
Qed.
Lemma sy_try {A B} (q : prog (outcome A)) (f : A -> prog (outcome B)) : sy q -> (forall a, sy (f a)) -> sy (try q f).
Proof. intros Hq Hf. unfold try. apply sy_bind; [exact Hq|]. intros [a|e|]; [apply Hf|apply sy_ret..]. Qed.

#[local] Hint Extern 1 (nrl _ = true) => reflexivity : allc.
#[local] Hint Resolve allc_call : allc.
Ltac nrl_tac L := eapply sy_of_nrl with (Q := anyc); first [apply L; exact base_nrl | apply L].
Ltac nrl_auto := eapply sy_of_nrl with (Q := anyc); allc_auto.

Section AutoSync.
  Variable cfg : stack_cfg.
  Hypothesis Hsync : s_autosync cfg = true.

  Theorem sy_cache_set k v : sy (cache_set cfg k v).
  Proof. unfold cache_set. apply sy_after_flush_try; [intros s0; apply sync_path_synced, Hsync|]. intros _. apply cm_write_impl. Qed.
  Theorem sy_cache_put k v : sy (cache_put cfg k v).
  Proof. unfold cache_put. apply sy_after_flush_try; [intros s0; apply sync_path_synced, Hsync|]. intros _. apply cm_write_impl. Qed.

  Theorem sy_cache_write_temp b k fd p : sy (cache_write_temp b cfg k fd p).
  Proof.
    unfold cache_write_temp. rewrite Hsync. apply sy_after_flush_try; [intros s0; apply finalize_synced|].
    intros _. unfold quiet. allc_auto.
  Qed.

  Lemma sy_new_named_temp dir : sy (new_named_temp dir).
  Proof. unfold new_named_temp, try, fd_call. nrl_auto. Qed.

  Lemma sy_promote w k f : sy (promote cfg w k f).
  Proof.
    unfold promote. rewrite Hsync.
    apply sy_try_c; [nrl_tac ck_f_temp_dir|unfold quiet; nrl_auto|]. intros td.
    apply sy_try_c; [apply sy_new_named_temp|unfold quiet; nrl_auto|]. intros [fd p].
    apply sy_try_c; [unfold unit_call; nrl_auto|unfold quiet; nrl_auto|]. intros _.
    apply sy_after_flush_try_c; [intros s0; apply finalize_synced|unfold quiet; nrl_auto|].
    intros _. unfold try_c, quiet, unit_call. pose proof (cm_f_put (s_handle cfg) w k p). allc_auto.
  Qed.

  (** Callbacks issue no rename or link themselves. *)
  Definition judge_nrl (j : judge) := forall b f, allc nrl (j b f) anyc.
  Definition pop_nrl (pop : populate) := forall dst old, allc nrl (pop dst old) anyc.
  Definition chko_nrl (chk : option checker) := match chk with Some ck => forall a b, allc nrl (ck a b) anyc | None => True end.

  Lemma nrl_f_temp_dir h w k : allc nrl (f_temp_dir h w k) anyc.
  Proof. apply ck_f_temp_dir, base_nrl. Qed.
  Lemma nrl_f_get w k : allc nrl (f_get w k) anyc.
  Proof. apply ck_f_get, base_nrl. Qed.

  Lemma sy_get_tempfile k : sy (get_tempfile cfg k).
  Proof.
    unfold get_tempfile, try, fd_call. pose proof (nrl_f_temp_dir (s_handle cfg)) as Ht.
    destruct (s_writer cfg); nrl_auto.
  Qed.

  Lemma sy_accept_checks k pop f : chko_nrl (s_checker cfg) -> pop_nrl pop -> sy (accept_checks cfg k pop f).
  Proof.
    intros Hck Hpop. unfold accept_checks, try_c.
    apply sy_bind; [unfold unit_call; nrl_auto|]. intros [u|e|]; try (unfold quiet; nrl_auto; fail).
    unfold chko_nrl in Hck. destruct (s_checker cfg) as [ck|]; [|apply sy_ret].
    apply sy_bind; [apply sy_get_tempfile|]. intros [t|e|]; try (unfold quiet; nrl_auto; fail).
    unfold pop_nrl in Hpop. unfold quiet, unit_call. nrl_auto.
  Qed.

  Lemma sy_populate_phase k pop old : pop_nrl pop -> sy (populate_phase cfg k pop old).
  Proof.
    intros Hpop. unfold populate_phase. rewrite Hsync. unfold pop_nrl in Hpop.
    assert (Hdrop : sy (match old with Some o => quiet (CClose o) | None => skip end)) by (destruct old; unfold quiet, skip; nrl_auto).
    destruct (s_writer cfg) as [w|].
    - apply sy_try_c; [nrl_tac ck_f_temp_dir|exact Hdrop|]. intros td.
      apply sy_try_c; [apply sy_new_named_temp|exact Hdrop|]. intros [fd p].
      apply sy_try_c; [eapply sy_of_nrl, Hpop|unfold quiet; nrl_auto|]. intros _.
      apply sy_after_flush_try; [intros s0; apply finalize_synced|]. intros _.
      unfold try_c, quiet, fd_call.
      pose proof (cm_f_put (s_handle cfg) w k p). pose proof (cm_f_set (s_handle cfg) w k p). pose proof (cm_f_get w k).
      destruct old; allc_auto.
    - unfold try_c, fd_call, unit_call, quiet. destruct old; unfold skip; nrl_auto.
  Qed.

  Theorem sy_get_or_update k j pop :
    chko_nrl (s_checker cfg) -> judge_nrl j -> pop_nrl pop -> sy (get_or_update cfg k j pop).
  Proof.
    intros Hck Hj Hpop. unfold get_or_update. unfold judge_nrl in Hj.
    pose proof (fun f => sy_accept_checks k pop f Hck Hpop) as Hac.
    pose proof (fun old => sy_populate_phase k pop old Hpop) as Hpp.
    assert (Hro : sy (ro_get (s_readers cfg) (s_checker cfg) k)).
    { eapply sy_of_nrl with (Q := anyc). apply ck_ro_get; [exact base_nrl|]. unfold chko_ck, chk_ck, chko_nrl in *. destruct (s_checker cfg); auto. }
    assert (Hwc : forall f, sy (with_checked cfg k f (Ret (Ok f)))).
    { intros f. eapply sy_of_nrl with (Q := anyc). apply ck_with_checked; [exact base_nrl|]. unfold chko_ck, chk_ck, chko_nrl in *. destruct (s_checker cfg); auto. }
    apply sy_try; [destruct (s_writer cfg); [nrl_tac ck_f_get|apply sy_ret]|].
    intros [f|].
    - apply sy_try; [apply Hwc|]. intros f'. apply sy_bind; [eapply sy_of_nrl, Hj|]. intros a.
      destruct a; try apply Hpp; (apply sy_try; [apply Hac|intros; apply sy_ret]).
    - apply sy_try; [exact Hro|]. intros [f|]; [|apply Hpp].
      apply sy_bind; [eapply sy_of_nrl, Hj|]. intros a.
      destruct a; try apply Hpp; (apply sy_try; [apply Hac|intros _]); try apply sy_ret.
      destruct (s_writer cfg) as [w|]; [apply sy_promote|apply sy_ret].
  Qed.

  Theorem sy_ensure k pop : chko_nrl (s_checker cfg) -> pop_nrl pop -> sy (ensure cfg k pop).
  Proof. intros Hck Hpop. unfold ensure. apply sy_get_or_update; auto. intros b f. apply allc_ret. exact I. Qed.
End AutoSync.

(** On every sequential run: accepted from the unsynced state. *)
Theorem sync_first_run {A} (p : prog A) : sy p -> forall w o,
  let '(_, _, _, tr) := run p w o in exists s', mon_run y_step false tr = Some s'.
Proof.
  intros H w o. pose proof (wp_run y_step p _ false w o (H _)) as Hr.
  destruct (run p w o) as [[[a w'] o'] tr]. destruct Hr as (s' & Hm & _). eauto.
Qed.
