(** No panic except the documented failed flush.  For ARBITRARY environment
    responses - any fault at any call, any number of them, any interference -
    the lookups (get, touch), the path-based writers (set, put) and the temp-file
    API (set_temp_file, put_temp_file), through plain or sharded write caches and
    any stack of read-only caches without checker, never panic, with one
    exception: a path-based set / put with auto_sync whose flush of the caller's
    file failed (the library's documented behaviour).  The planner's assertion
    inside maintenance is unreachable ([plan_never_asserts], C08). *)
From Coq Require Import List NArith ZArith String Bool Arith Lia.
From Kismet Require Import Pure.Hash Pure.SecondChance FS.Fs FS.Prog Spec.Wp Ops.Ops Proofs.SecondChanceProofs.
Import ListNotations.

(** state: "an fsync was answered with an error" *)
Definition np_step (s : bool) (ev : event) : option bool :=
  match ev with
  | EvCall (CFsync _) (RErr _) => Some true
  | _ => Some s
  end.

Lemma np_step_total s ev : exists s1, np_step s ev = Some s1.
Proof. destruct ev as [c r| | | | | ]; cbn [np_step]; eauto. destruct c; eauto. destruct r; eauto. Qed.

(** the monitor never refuses anything *)
Lemma nv_all {A} (p : prog A) : forall s, wp np_step p (fun _ _ => True) s.
Proof.
  induction p as [a|c k IH|k IH|w k IH|n k IH|h i k IH|h i v k IH|k IH|t pl k IH]; cbn [wp]; unfold after; intros s; auto.
  - intros r. destruct (np_step_total s (EvCall c r)) as (s1 & ->). apply IH.
  - intros t. cbn [np_step]. apply IH.
  - intros b. cbn [np_step]. apply IH.
  - intros x. cbn [np_step]. apply IH.
  - intros x. cbn [np_step]. apply IH.
  - cbn [np_step]. apply IH.
Qed.

(** never panics, whatever the responses *)
Definition npn {A} (p : prog (outcome A)) : Prop := forall s, wp np_step p (fun r _ => r <> Panic) s.

Lemma npn_ret {A} (r : outcome A) : r <> Panic -> npn (Ret r).
Proof. intros H s. exact H. Qed.
Lemma npn_bind {A B} (p : prog A) (f : A -> prog (outcome B)) : (forall a, npn (f a)) -> npn (bind p f).
Proof. intros Hf s. apply wp_bind. eapply wp_mono; [|apply (nv_all p s)]. intros a s1 _. apply Hf. Qed.
Lemma npn_bind_res {A B} (p : prog (outcome A)) (f : outcome A -> prog (outcome B)) :
  npn p -> (forall r, r <> Panic -> npn (f r)) -> npn (bind p f).
Proof. intros Hp Hf s. apply wp_bind. eapply wp_mono; [|apply Hp]. intros r s1 H. apply Hf, H. Qed.
Lemma npn_try {A B} (p : prog (outcome A)) (f : A -> prog (outcome B)) : npn p -> (forall a, npn (f a)) -> npn (try p f).
Proof. intros Hp Hf. unfold try. apply npn_bind_res; [exact Hp|]. intros [a|e|] H; [apply Hf|apply npn_ret; discriminate|contradiction]. Qed.
Lemma npn_try_c {A B} (p : prog (outcome A)) (cl : prog unit) (f : A -> prog (outcome B)) : npn p -> (forall a, npn (f a)) -> npn (try_c p cl f).
Proof.
  intros Hp Hf. unfold try_c. apply npn_bind_res; [exact Hp|]. intros [a|e|] H; [apply Hf| |contradiction].
  apply npn_bind. intros _. apply npn_ret. discriminate.
Qed.
Lemma npn_map {A B} (p : prog (outcome A)) (g : outcome A -> outcome B) :
  npn p -> (forall r, r <> Panic -> g r <> Panic) -> npn (r <- p ;; Ret (g r)).
Proof. intros Hp Hg. apply npn_bind_res; [exact Hp|]. intros r H. apply npn_ret, Hg, H. Qed.
Lemma npn_now {A} (k : Z -> prog (outcome A)) : (forall t, npn (k t)) -> npn (Now k).
Proof. intros H s. cbn [wp]. intros t. unfold after. cbn [np_step]. apply H. Qed.
Lemma npn_trigger {A} w (k : bool -> prog (outcome A)) : (forall b, npn (k b)) -> npn (Trigger w k).
Proof. intros H s. cbn [wp]. intros b. unfold after. cbn [np_step]. apply H. Qed.
Lemma npn_randshard {A} n (k : N -> prog (outcome A)) : (forall r, npn (k r)) -> npn (RandShard n k).
Proof. intros H s. cbn [wp]. intros r. unfold after. cbn [np_step]. apply H. Qed.
Lemma npn_loadget {A} h i (k : N -> prog (outcome A)) : (forall r, npn (k r)) -> npn (LoadGet h i k).
Proof. intros H s. cbn [wp]. intros r. apply H. Qed.
Lemma npn_loadset {A} h i x (k : prog (outcome A)) : npn k -> npn (LoadSet h i x k).
Proof. intros H s. cbn [wp]. apply H. Qed.
Lemma npn_mark {A} t pl (k : prog (outcome A)) : npn k -> npn (Mark t pl k).
Proof. intros H s. cbn [wp]. unfold after. cbn [np_step]. apply H. Qed.

(** calls wrapped into outcomes never produce Panic *)
Lemma npn_unit_call c : npn (unit_call c).
Proof. unfold unit_call. apply npn_bind. intros r. apply npn_ret. destruct r; discriminate. Qed.
Lemma npn_stat_call c : npn (stat_call c).
Proof. unfold stat_call. apply npn_bind. intros r. apply npn_ret. destruct r; discriminate. Qed.
Lemma npn_fd_call c : npn (fd_call c).
Proof. unfold fd_call. apply npn_bind. intros r. apply npn_ret. destruct r; discriminate. Qed.

Lemma npn_set_times p a m : npn (set_times p a m).
Proof.
  unfold set_times. apply npn_bind. intros r.
  assert (Hgo : forall fd, npn (x <- unit_call (CFutimens fd a m) ;; quiet (CClose fd) ;;; Ret x)).
  { intros fd. apply npn_bind_res; [apply npn_unit_call|]. intros x Hx. apply npn_bind. intros _. apply npn_ret, Hx. }
  destruct r; try apply Hgo. all: apply npn_bind; intros r2; destruct r2; try apply Hgo; apply npn_ret; discriminate.
Qed.

Lemma npn_move_to_back p : npn (move_to_back_of_list p).
Proof. unfold move_to_back_of_list. apply npn_now. intros t. apply npn_set_times. Qed.

Lemma npn_touch p : npn (touch p).
Proof.
  unfold touch. apply npn_now. intros t. apply (npn_map (set_times p (Some t) None)); [apply npn_set_times|].
  intros [u|e|] H; try discriminate; [destruct (is_absent e); discriminate|contradiction].
Qed.

Lemma npn_ensure_file_touched fd : npn (ensure_file_touched fd).
Proof. unfold ensure_file_touched. apply npn_try; [apply npn_stat_call|]. intros st. destruct (_ <? _)%Z; [apply npn_unit_call|apply npn_ret; discriminate]. Qed.

Lemma npn_ensure_file_removed p : npn (ensure_file_removed p).
Proof.
  unfold ensure_file_removed. apply (npn_map (unit_call (CUnlink p))); [apply npn_unit_call|].
  intros [u|e|] H; try discriminate; [destruct (is_absent e); discriminate|contradiction].
Qed.

Lemma npn_set_read_only p : npn (set_read_only p).
Proof. unfold set_read_only. apply npn_try; [apply npn_stat_call|]. intros st. apply npn_unit_call. Qed.

Lemma npn_insert_or_update a b : npn (insert_or_update a b).
Proof.
  unfold insert_or_update. apply npn_try; [apply npn_move_to_back|]. intros _. apply npn_try; [apply npn_set_read_only|]. intros _.
  apply npn_try; [apply npn_unit_call|]. intros _. apply npn_ensure_file_removed.
Qed.

Lemma npn_insert_or_touch a b : npn (insert_or_touch a b).
Proof.
  unfold insert_or_touch. apply npn_try; [apply npn_move_to_back|]. intros _. apply npn_try; [apply npn_set_read_only|]. intros _.
  apply npn_bind. intros r. destruct r as [| | | | |[]]; try apply npn_ensure_file_removed; try (apply npn_ret; discriminate).
  apply npn_try; [apply npn_touch|]. intros _. apply npn_ensure_file_removed.
Qed.

(** ** maintenance *)
Lemma npn_evict_loop dir names : npn (evict_loop dir names).
Proof. induction names as [|n rest IH]; cbn [evict_loop]; [apply npn_ret; discriminate|]. apply npn_try; [apply npn_ensure_file_removed|]. intros _. exact IH. Qed.

Lemma npn_move_back_loop dir names : npn (move_back_loop dir names).
Proof.
  induction names as [|n rest IH]; cbn [move_back_loop]; [apply npn_ret; discriminate|].
  apply npn_bind_res; [apply npn_move_to_back|]. intros [u|e|] H; [exact IH|destruct (is_absent e); [exact IH|apply npn_ret; discriminate]|contradiction].
Qed.

Lemma npn_collect_loop dir dh names : forall acc count, npn (collect_loop dir dh names acc count).
Proof.
  induction names as [|n rest IH]; intros acc count; cbn [collect_loop]; [apply npn_ret; discriminate|].
  destruct (dot_prefixed n); [apply IH|].
  apply npn_bind. intros r.
  destruct r as [| |st| | |e]; try (apply npn_bind; intros _; apply npn_ret; discriminate).
  - destruct (st_dir st); apply IH.
  - destruct (is_absent (OsErr e)); [apply IH|]. apply npn_bind. intros _. apply npn_ret. discriminate.
Qed.

Lemma npn_collect dir : npn (collect_cached_files dir).
Proof.
  unfold collect_cached_files. apply npn_try; [apply npn_fd_call|]. intros dh. apply npn_bind. intros r.
  destruct r; try (apply npn_bind; intros _; apply npn_ret; discriminate).
  apply npn_try; [apply npn_collect_loop|]. intros [files count]. apply npn_ret. discriminate.
Qed.

(** the assertion of the planner is unreachable *)
Theorem npn_prune dir cap : npn (prune dir cap).
Proof.
  unfold prune. apply npn_try; [apply npn_collect|]. intros [[dh files] count].
  destruct (plan (entries_of files) cap) as [[ev mb]|] eqn:Hp; [|exfalso; exact (plan_never_asserts _ _ Hp)].
  apply npn_bind. intros _.
  apply (npn_map (try (evict_loop dir (map (name_at files) ev)) (fun _ => move_back_loop dir (map (name_at files) mb)))).
  - apply npn_try; [apply npn_evict_loop|]. intros _. apply npn_move_back_loop.
  - intros [u|e|] H; try discriminate. contradiction.
Qed.

Lemma npn_cleanup_temp temp : npn (cleanup_temporary_directory temp).
Proof.
  unfold cleanup_temporary_directory. apply npn_now. intros t.
  destruct (_ <? _)%Z; [apply npn_ret; discriminate|].
  apply npn_bind. intros r. destruct r; try (apply npn_ret; try destruct (is_absent _); discriminate).
  apply npn_bind. intros l. apply npn_bind. intros _. apply npn_bind. intros _. apply npn_ret. discriminate.
Qed.

Theorem npn_definitely_cleanup d base : npn (definitely_cleanup d base).
Proof.
  unfold definitely_cleanup. apply npn_bind_res; [apply npn_prune|]. intros [[est n]|e|] H; [| |contradiction].
  - apply npn_try; [apply npn_cleanup_temp|]. intros _. apply npn_ret. discriminate.
  - apply npn_ret. destruct (is_absent e); discriminate.
Qed.

Lemma npn_maybe_cleanup d : npn (maybe_cleanup d).
Proof.
  unfold maybe_cleanup. apply npn_trigger. intros [|]; [|apply npn_ret; discriminate].
  apply npn_try; [apply npn_definitely_cleanup|]. intros est. apply npn_ret. discriminate.
Qed.

Lemma npn_create_dir_all_rev rp : npn (create_dir_all_rev rp).
Proof.
  induction rp as [|x rparent IH]; cbn [create_dir_all_rev]; [apply npn_ret; discriminate|].
  apply npn_bind. intros r. destruct r as [| | | | |e]; try (apply npn_ret; discriminate).
  assert (Hsettle : forall e0 : errno, npn (b <- is_dir_follow (rev (x :: rparent)) ;; Ret (if b then Ok tt else Err (OsErr e0)))).
  { intros e0. apply npn_bind. intros b. apply npn_ret. destruct b; discriminate. }
  destruct e.
  1: { apply npn_try; [exact IH|]. intros _. apply npn_bind. intros r2. destruct r2 as [| | | | |e2]; try (apply npn_ret; discriminate).
       destruct e2; first [apply npn_ret; discriminate|apply Hsettle]. }
  all: first [apply npn_ret; discriminate|apply Hsettle].
Qed.

Theorem npn_cd_publish (which : bool) d name v : npn (cd_publish (if which then insert_or_update else insert_or_touch) d name v).
Proof.
  assert (Hins : forall a b, npn ((if which then insert_or_update else insert_or_touch) a b)) by (intros a b; destruct which; [apply npn_insert_or_update|apply npn_insert_or_touch]).
  unfold cd_publish. destruct (validate name) as [u|e|] eqn:Hv; [|apply npn_ret; discriminate|unfold validate in Hv; destruct (valid_name name); discriminate].
  apply npn_try; [apply npn_maybe_cleanup|]. intros ret.
  apply npn_bind_res; [apply Hins|]. intros [u1|e|] H; [apply npn_ret; discriminate| |contradiction].
  apply npn_try; [apply npn_create_dir_all_rev|]. intros _. apply npn_try; [apply Hins|]. intros _. apply npn_ret. discriminate.
Qed.

Lemma npn_force_maintain h dir n t id : npn (force_maintain_shard h dir n t id).
Proof. unfold force_maintain_shard. apply npn_try; [apply npn_definitely_cleanup|]. intros est. apply npn_loadset, npn_ret. discriminate. Qed.

Lemma npn_file_exists dirp name : npn (file_exists dirp name).
Proof.
  unfold file_exists. destruct (validate name) as [u|e|] eqn:Hv; [|apply npn_ret; discriminate|unfold validate in Hv; destruct (valid_name name); discriminate].
  apply npn_bind. intros r. apply npn_ret. destruct r; try discriminate. destruct (is_absent _); discriminate.
Qed.

Theorem npn_sh_publish (which : bool) h dir n t k v : npn (sh_publish (if which then cd_set else cd_put) h dir n t k v).
Proof.
  unfold sh_publish. apply npn_bind. intros [h1 h2].
  apply npn_try; [apply npn_file_exists|]. intros ex.
  apply npn_try; [destruct which; [apply (npn_cd_publish true)|apply (npn_cd_publish false)]|]. intros upd.
  apply npn_bind. intros _. destruct upd.
  - apply npn_randshard. intros r. apply npn_force_maintain.
  - apply npn_loadget. intros l. destruct (_ <? _)%N; [apply npn_mark, npn_force_maintain|apply npn_ret; discriminate].
Qed.

Theorem npn_f_write (which : bool) h f k v : npn (if which then f_set h f k v else f_put h f k v).
Proof.
  destruct f as [dir cap|dir n t].
  - destruct which; cbn [f_set f_put]; unfold drop_opt; (apply npn_try; [|intros _; apply npn_ret; discriminate]); [apply (npn_cd_publish true)|apply (npn_cd_publish false)].
  - destruct which; cbn [f_set f_put]; [apply (npn_sh_publish true)|apply (npn_sh_publish false)].
Qed.

Lemma npn_write_impl which cfg k v : npn (write_impl which cfg k v).
Proof. unfold write_impl. destruct (s_writer cfg) as [w|]; [|apply npn_ret; discriminate]. destruct which; [apply (npn_f_write true)|apply (npn_f_write false)]. Qed.

(** ** the temp-file API: never *)
Lemma npn_finalize fd p sync : npn (finalize_tempfile fd p sync).
Proof.
  unfold finalize_tempfile. apply npn_try_c; [apply npn_unit_call|]. intros _.
  apply npn_try_c; [destruct sync; [apply npn_unit_call|apply npn_ret; discriminate]|]. intros _.
  apply npn_try_c; [apply npn_unit_call|]. intros _. apply npn_ret. discriminate.
Qed.

Theorem npn_cache_write_temp which cfg k fd p : npn (cache_write_temp which cfg k fd p).
Proof.
  unfold cache_write_temp. apply npn_try; [apply npn_finalize|]. intros _.
  apply npn_bind_res; [apply npn_write_impl|]. intros r Hr. apply npn_bind. intros _. apply npn_ret, Hr.
Qed.

(** ** lookups and touches through any stack without checker: never *)
Lemma npn_cd_get d name : npn (cd_get d name).
Proof.
  unfold cd_get. destruct (validate name) as [u|e|] eqn:Hv; [|apply npn_ret; discriminate|unfold validate in Hv; destruct (valid_name name); discriminate].
  apply npn_bind. intros r. destruct r as [|fd| | | |e]; try (apply npn_ret; discriminate).
  - apply npn_bind. intros _. apply npn_ret. discriminate.
  - apply npn_ret. destruct (is_absent _); discriminate.
Qed.
Lemma npn_cd_touch d name : npn (cd_touch d name).
Proof.
  unfold cd_touch. destruct (validate name) as [u|e|] eqn:Hv; [|apply npn_ret; discriminate|unfold validate in Hv; destruct (valid_name name); discriminate].
  apply npn_touch.
Qed.
Lemma npn_f_get f k : npn (f_get f k).
Proof.
  destruct f as [dir cap|dir n t]; cbn [f_get]; [apply npn_cd_get|].
  unfold sh_get. destruct (shard_ids _ _ _) as [h1 h2]. apply npn_try; [apply npn_cd_get|]. intros [fd|]; [apply npn_ret; discriminate|apply npn_cd_get].
Qed.
Lemma npn_f_touch f k : npn (f_touch f k).
Proof.
  destruct f as [dir cap|dir n t]; cbn [f_touch]; [apply npn_cd_touch|].
  unfold sh_touch. destruct (shard_ids _ _ _) as [h1 h2]. apply npn_try; [apply npn_cd_touch|]. intros [|]; [apply npn_ret; discriminate|apply npn_cd_touch].
Qed.
Lemma npn_ro_get_loop stack k : forall ret, npn (ro_get_loop stack None k ret).
Proof.
  induction stack as [|c rest IH]; intros ret; cbn [ro_get_loop]; [apply npn_ret; discriminate|].
  apply npn_try_c; [apply npn_f_get|]. intros [hfd|]; [apply npn_ret; discriminate|apply IH].
Qed.
Lemma npn_ro_get stack k : npn (ro_get stack None k).
Proof. unfold ro_get. destruct stack; [apply npn_ret; discriminate|apply npn_ro_get_loop]. Qed.
Lemma npn_ro_touch stack k : npn (ro_touch stack k).
Proof.
  induction stack as [|c rest IH]; cbn [ro_touch]; [apply npn_ret; discriminate|].
  apply npn_try; [apply npn_f_touch|]. intros [|]; [apply npn_ret; discriminate|exact IH].
Qed.
Theorem npn_cache_get cfg k : s_checker cfg = None -> npn (cache_get cfg k).
Proof.
  intros Hc. unfold cache_get. rewrite Hc. destruct (s_writer cfg) as [w|]; [|apply npn_ro_get].
  apply npn_try; [apply npn_f_get|]. intros [f|]; [|apply npn_ro_get].
  unfold with_checked. rewrite Hc. apply npn_try; [apply npn_ret; discriminate|]. intros f'. apply npn_ret. discriminate.
Qed.
Theorem npn_cache_touch cfg k : npn (cache_touch cfg k).
Proof.
  unfold cache_touch. destruct (s_writer cfg) as [w|]; [|apply npn_ro_touch].
  apply npn_try; [apply npn_f_touch|]. intros [|]; [apply npn_ret; discriminate|apply npn_ro_touch].
Qed.

(** ** the path-based writers: only after a failed flush *)
Theorem cache_write_panics_only_after_failed_flush (which : bool) cfg k v : forall s,
  wp np_step (if which then cache_set cfg k v else cache_put cfg k v) (fun r s' => r = Panic -> s' = true) s.
Proof.
  assert (H : forall s, wp np_step (try (maybe_sync_path cfg v) (fun _ => write_impl which cfg k v)) (fun r s' => r = Panic -> s' = true) s).
  { intros s. unfold try. apply wp_bind. unfold maybe_sync_path.
    assert (Hw : forall s1, wp np_step (write_impl which cfg k v) (fun r s' => r = Panic -> s' = true) s1).
    { intros s1. eapply wp_mono; [|apply npn_write_impl]. intros r s2 Hr E. contradiction. }
    destruct (s_autosync cfg); [|cbn [wp]; apply Hw].
    unfold try, fd_call. cbn [bind call1 wp]. intros r. unfold after.
    destruct (np_step_total s (EvCall (COpen v RDONLY) r)) as (s1 & ->).
    destruct r as [|fd| | | |e]; cbn [bind wp]; try discriminate.
    intros r2. unfold after.
    destruct r2 as [| | | | |e]; cbn [np_step].
    6: { cbn [quiet bind call1 wp]. intros r3. unfold after. assert (Hs : np_step true (EvCall (CClose fd) r3) = Some true) by (destruct r3; reflexivity). rewrite Hs. cbn [wp]. auto. }
    all: cbn [quiet bind call1 wp]; intros r3; unfold after; (assert (Hs : np_step s1 (EvCall (CClose fd) r3) = Some s1) by (destruct r3; reflexivity)); rewrite Hs; cbn [wp]; apply Hw. }
  destruct which; exact H.
Qed.

(** On every sequential run. *)
Theorem no_panic_run {A} (p : prog (outcome A)) : npn p -> forall w o,
  let '(r, _, _, _) := run p w o in r <> Panic.
Proof.
  intros H w o. pose proof (wp_run np_step p _ false w o (H false)) as Hr.
  destruct (run p w o) as [[[r w'] o'] tr]. destruct Hr as (s' & _ & Hq). exact Hq.
Qed.

Theorem write_panic_run (which : bool) cfg k v w o :
  let '(r, _, _, tr) := run (if which then cache_set cfg k v else cache_put cfg k v) w o in
  r = Panic -> mon_run np_step false tr = Some true.
Proof.
  pose proof (wp_run np_step _ _ false w o (cache_write_panics_only_after_failed_flush which cfg k v false)) as Hr.
  destruct (run _ w o) as [[[r w'] o'] tr]. destruct Hr as (s' & Hm & Hq). intros E. rewrite Hm, (Hq E). reflexivity.
Qed.
