(** C06 — Operations are non-blocking. (interim) *)
From Coq Require Import List NArith ZArith String Bool.
From Kismet Require Import FS.Fs FS.Prog Conc.Pool.
Import ListNotations.
(** Scheduling one participant never changes another participant's program or private state. *)
Theorem C06_step_leaves_others : forall A (pool : list (thread A)) f i j,
  i <> j -> nth_error (fst (pool_step i (pool, f))) j = nth_error pool j.
Proof.
  intros A pool f i j Hij. unfold pool_step.
  destruct (nth_error pool i) as [t|] eqn:Hi; [|reflexivity].
  destruct (finished (th_prog t)); [reflexivity|].
  destruct (th_slot t f) as [t' f']. cbn [fst].
  clear Hi. revert i j Hij. induction pool as [|x l IH]; intros i j Hij; [destruct i; reflexivity|].
  destruct i, j; cbn; try reflexivity; try congruence. apply IH. congruence.
Qed.
