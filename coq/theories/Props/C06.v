(** C06 — Operations are non-blocking: a stalled or dead peer never prevents progress.

    What is kernel-checked here: the step bounds and lock-freedom, for every
    pool of participants and every schedule (a frozen participant is one that
    the schedule never mentions again; a dead one likewise); and success of the
    survivor relative to the race class: in every pool under every schedule -
    in particular with every other participant frozen or dead wherever it is - a
    lookup, touch, set, put, set_temp_file or put_temp_file whose received
    responses all lie in the class of what peers can cause finishes WITHOUT an
    I/O error ([C06_survivor_succeeds]); and maintenance is linear in what it
    lists: at most 7 + 5 * (names returned by its two listings) calls, whatever
    the responses ([C06_maintenance_is_linear]).  That the responses of every reachable
    state do lie in that class is established by the frozen-peer exploration
    (vlib/c06.py). *)
From Coq Require Import List NArith ZArith String Bool.
From Kismet Require Import Gen.Constants Gen.Agree FS.Fs FS.Prog Ops.Ops Spec.Wp Spec.CountMon Conc.Pool Conc.PoolProofs Proofs.PoolLift Proofs.RaceFree Proofs.RaceFreeW Proofs.MaintLinear.
Import ListNotations.
Local Open Scope Z_scope.

(** Scheduling one participant never changes another participant's program,
    private state or trace: nobody waits for anybody. *)
Theorem C06_step_leaves_others : forall A (pool : list (thread A)) f i j,
  i <> j -> nth_error (fst (pool_step i (pool, f))) j = nth_error pool j.
Proof. exact step_leaves_others. Qed.

(** A participant's own slot always executes (there is no blocked state): an
    unfinished participant that is scheduled performs its pending call. *)
Theorem C06_scheduled_call_executes : forall A (t : thread A) c k f,
  th_prog t = Call c k ->
  exists r tr, th_trace (fst (th_slot t f)) = (th_trace t ++ EvCall c r :: tr)%list.
Proof. exact scheduled_call_executes. Qed.

(** Step bounds in any pool under any schedule: get, touch, set and put issue at
    most a configuration-only number of calls by the time they complete, unless
    maintenance was requested of them. *)
Theorem C06_get_bounded_in_any_pool : forall cfg k, s_checker cfg = None ->
  bounded_in_any_pool (cache_get cfg k) (stack_get_budget cfg).
Proof. intros. eapply cnt_pool, cnt_cache_get; auto. Qed.
Theorem C06_touch_bounded_in_any_pool : forall cfg k, bounded_in_any_pool (cache_touch cfg k) (stack_touch_budget cfg).
Proof. intros. eapply cnt_pool, cnt_cache_touch. Qed.
Theorem C06_set_bounded_in_any_pool : forall cfg k v, bounded_in_any_pool (cache_set cfg k v) (stack_write_budget cfg).
Proof. intros. eapply cnt_pool, cnt_cache_set. Qed.
Theorem C06_put_bounded_in_any_pool : forall cfg k v, bounded_in_any_pool (cache_put cfg k v) (stack_write_budget cfg).
Proof. intros. eapply cnt_pool, cnt_cache_put. Qed.

(** Alone (everybody else frozen) is a special case of a schedule, and there it
    coincides with the sequential semantics. *)
Theorem C06_alone_is_sequential : forall A fuel (p : prog A) w o p' w1 o1 tr1 a,
  slots fuel p w o = (p', w1, o1, tr1) -> p' = Ret a -> run p w o = (a, w1, o1, tr1).
Proof. exact @slots_run_finished. Qed.

(** With everybody else frozen forever, every operation finishes after finitely
    many of its own slots, from every filesystem state and environment. *)
Theorem C06_alone_terminates : forall A (p : prog A) w o, exists n, finished (prog_of (slots n p w o)) = true.
Proof. exact @alone_terminates. Qed.

(** No lock, lock file or wait in the vocabulary: a program can only issue these calls. *)
(** Success of the survivor, relative to the race class (C05's theorems, for any
    pool, any schedule - so with any set of peers frozen anywhere). *)
Theorem C06_survivor_succeeds : forall cfg f k v,
  s_writer cfg = Some f -> front_ok v f k ->
  (s_checker cfg = None -> race_free_in_any_pool (cache_get cfg k)) /\ race_free_in_any_pool (cache_touch cfg k) /\
  writers_race_free_in_any_pool v (cache_set cfg k v) /\ writers_race_free_in_any_pool v (cache_put cfg k v).
Proof.
  intros cfg f k v Hw Hd. split; [intros Hc; apply rf_pool, rf_cache_get, Hc|]. split; [apply rf_pool, rf_cache_touch|].
  split; apply rw_pool; [exact (rw_cache_write v true cfg f k Hw Hd)|exact (rw_cache_write v false cfg f k Hw Hd)].
Qed.

(** Maintenance: linear in the number of directory entries, for arbitrary responses. *)
Theorem C06_maintenance_is_linear : forall d base s,
  wp ln_step (definitely_cleanup d base) (fun _ s' => (fst s' + 5 * snd s <= fst s + 7 + 5 * snd s' /\ snd s <= snd s')%nat) s.
Proof. exact maintenance_is_linear. Qed.

Theorem C06_maintenance_is_linear_on_every_run : forall d base w o,
  let '(_, _, _, tr) := run (definitely_cleanup d base) w o in
  exists s', mon_run ln_step (0%nat, 0%nat) tr = Some s' /\ (fst s' <= 7 + 5 * snd s')%nat.
Proof. exact maintenance_is_linear_run. Qed.

Theorem C06_linear_monitor_meaning : forall s dh l c r,
  ln_step s (EvCall (CReadDir dh) (RNames l)) = Some (S (fst s), (snd s + List.length l)%nat) /\
  (match c with CReadDir _ => False | _ => True end -> ln_step s (EvCall c r) = Some (S (fst s), snd s)).
Proof. intros s dh l c r. split; [reflexivity|]. destruct c; intros H; try reflexivity. destruct H. Qed.

Theorem C06_no_lock_in_vocabulary : forall c : call,
  match c with
  | COpen _ _ | CCreate _ _ | CCreateTrunc _ _ | COpenTmp _ | CClose _ | CFstat _ | CStat _ _ | CRead _ _
  | CWrite _ _ | CCopy _ _ | CSeek _ _ | CFchmod _ _ | CChmod _ _ | CFutimens _ _ _ | CFsync _
  | CRename _ _ | CLink _ _ | CUnlink _ | CMkdir _ | COpenDir _ | CReadDir _ | CCloseDir _ => True
  end.
Proof. intros c. destruct c; exact I. Qed.

(** The list of blocking constructs (Mutex, RwLock, Condvar, Barrier, Once, OnceLock, sleep,
    park, spin_loop, yield_now, flock/lockf/F_SETLK, join, channels) found in the non-test
    source of the library, regenerated from /repo on every run, is empty. *)
Theorem C06_source_has_no_blocking_primitive : Constants.BLOCKING_PRIMITIVES = nil.
Proof. exact no_blocking_primitive. Qed.

(** "No retry-until loops": the unbounded loops ([loop], [while]) of the non-test
    source, regenerated from /repo on every run, are exactly the one the model
    accounts for - the trigger's redraw of a zero random value. *)
Theorem C06_source_has_no_other_unbounded_loop : Constants.UNBOUNDED_LOOPS = ["trigger.rs:loop"%string].
Proof. exact the_unbounded_loops. Qed.

(** Non-vacuity: two participants looking up the same key of a populated
    directory, interleaved call by call; both finish, each with 3 calls. *)
Definition ex_fs : fs :=
  let mk (f : fs) (name : string) (m a : Z) :=
    let '(f1, i) := alloc_inode f (mkInode false [65%N] 292 m a 1 true) in
    set_names f1 ((["w"%string; name], i) :: names f1) in
  let '(f0, d) := alloc_inode empty_fs (mkInode true [] 493 0 0 2 true) in
  let f0 := set_names f0 ((["w"%string], d) :: names f0) in
  mk f0 "a"%string 100 50.
Definition ex_cfg : stack_cfg := mkStack 0 (Some (FPlain ["w"%string] 300)) [] None true ["systmp"%string].
Definition ex_oracle : oracle := mkOracle [1000; 1001] [] [] [] [] None 0 1 Relatime.
Example C06_bound_nonvacuous :
  let k := mkKey "a"%string 1 2 in
  let t0 := fst (th_start (cache_get ex_cfg k) ex_oracle ex_fs) in
  let '(pool, _) := run_sched [0; 1; 0; 1; 1; 0]%nat ([t0; t0], ex_fs) in
  map (fun t => (finished (th_prog t), mon_run c_step (0, true) (th_trace t))) pool
  = [(true, Some (3, true)); (true, Some (3, true))].
Proof. vm_compute. reflexivity. Qed.
