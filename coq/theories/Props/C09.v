(** C09 — Reads mark entries as used without reordering; writes enqueue them fresh.

    Kernel-checked:
    - reads never reorder: lookups and touches (plain, sharded, read-only,
      stacked) only issue calls that cannot change any modification time, for
      arbitrary environment responses ([C09_lookups_and_touches_keep_mtimes]);
      hence in ANY pool of readers, under ANY schedule, every entry keeps its
      modification time ([C09_reads_never_reorder]);
    - writes enqueue fresh: every publishing rename/link of set / put is
      preceded, since the last clock reading t, by an accepted futimens(atime =
      t - 120 s, mtime = t) ([C09_writes_stamp_fresh]), and that stamp is on the
      file that is published: it goes through a descriptor opened on the very
      path that is then renamed / linked ([C09_the_published_file_is_the_one_stamped]);
      the reprieves of maintenance carry the same pair of values (C07); after truncation to any
      granularity up to 2 s the new entry is still unmarked ([C09_born_unmarked]);
      a lookup's explicit touch (atime := mtime) marks ([C09_touch_marks]).
    How the kernel's own atime updates (relatime, noatime) interact is validated
    by the emulated-policy runs of vlib/c09.py against this model. *)
From Coq Require Import List NArith ZArith String Bool Lia.
From Kismet Require Import Gen.Constants Gen.Agree FS.Fs FS.Prog Spec.Wp Spec.ClassMon Spec.Calm Ops.Ops Conc.Pool Conc.Immut
     Proofs.ReadsKeepOrder Proofs.FreshStamp Proofs.StampPath.
Import ListNotations.

Theorem C09_lookups_and_touches_keep_mtimes : forall cfg k stack chk,
  (chko_rt (s_checker cfg) -> allc ro_time (cache_get cfg k) anyc) /\ allc ro_time (cache_touch cfg k) anyc /\
  (chko_rt chk -> allc ro_time (ro_get stack chk k) anyc) /\ allc ro_time (ro_touch stack k) anyc.
Proof.
  intros. split; [apply rt_cache_get|]. split; [apply rt_cache_touch|]. split; [apply rt_ro_get|apply rt_ro_touch].
Qed.

Theorem C09_no_call_of_the_class_changes_a_modification_time : forall f e c i m,
  ro_time c = true -> mtime f i = Some m -> mtime (fst (sem f e c)) i = Some m.
Proof. exact sem_keeps_mtime. Qed.

Theorem C09_reads_never_reorder : forall A (ps : list (prog A * oracle)) f sched i m,
  Forall (fun po => allc ro_time (fst po) (fun _ => True)) ps ->
  mtime f i = Some m ->
  mtime (snd (run_sched sched (spawn_all ps ([], f)))) i = Some m.
Proof. exact @reads_never_reorder. Qed.

Theorem C09_writes_stamp_fresh : forall cfg k v, fr (cache_set cfg k v) /\ fr (cache_put cfg k v).
Proof. intros. split; [apply fr_cache_set|apply fr_cache_put]. Qed.

Theorem C09_writes_stamp_fresh_on_every_run : forall cfg k v w o,
  let '(_, _, _, tr) := run (cache_set cfg k v) w o in exists s', mon_run f_step (None, false) tr = Some s'.
Proof. intros. apply (fresh_stamp_run _ (fr_cache_set cfg k v)). Qed.

(** The offset between the two timestamps written at insertion covers any
    granularity up to 2 s: after truncation the read mark is still clear. *)
(** ... on the published file itself: per-file monitor for the value file [v]. *)
Theorem C09_the_published_file_is_the_one_stamped : forall (which : bool) cfg k v,
  tr v (if which then cache_set cfg k v else cache_put cfg k v).
Proof. intros which cfg k v. exact (tr_cache_write v which cfg k). Qed.

Theorem C09_per_file_on_every_run : forall cfg k v w o s,
  let '(_, _, _, trc) := run (cache_set cfg k v) w o in mon_run (tp_step v) s trc <> None.
Proof. intros cfg k v w o s. exact (stamp_path_run v _ (tr_cache_write v true cfg k) w o s). Qed.

Theorem C09_per_file_monitor_meaning : forall v q fd t,
  tp_step v (mkT (Some fd) (Some t) false) (EvCall (CRename v q) ROk) = None /\
  tp_step v (mkT (Some fd) (Some t) false) (EvCall (CFutimens fd (Some (t - 120 * 1000000000)%Z) (Some t)) ROk) = Some (mkT (Some fd) (Some t) true) /\
  tp_step v (mkT (Some fd) (Some t) true) (EvNow (t + 1)%Z) = Some (mkT (Some fd) (Some (t + 1)%Z) false).
Proof.
  intros v q fd t. cbn [tp_step t_fd t_clock t_stamped]. rewrite Proofs.PutNeverOverwrites.path_eqb_refl, Nat.eqb_refl, Z.eqb_refl.
  change Ops.DELTA_NS with (120 * 1000000000)%Z. rewrite Z.eqb_refl. repeat split.
Qed.

Theorem C09_born_unmarked : forall g t, (1 <= g <= 2000000000)%Z -> (0 <= t)%Z ->
  (trunc g (t - DELTA_NS) < trunc g t)%Z.
Proof.
  intros g t Hg Ht. unfold trunc, DELTA_NS, NS. pose proof delta_covers_granularity as Hd.
  destruct (Z.leb_spec g 1); [nia|].
  pose proof (Z.mod_pos_bound t g ltac:(lia)). pose proof (Z.mod_pos_bound (t - Constants.DELTA_SEC * 1000000000) g ltac:(lia)). nia.
Qed.
(** A lookup's explicit touch sets atime to the (stored) mtime: marked. *)
Theorem C09_touch_marks : forall g m, (trunc g m <= trunc g (trunc g m))%Z.
Proof.
  intros g m. unfold trunc. destruct (Z.leb_spec g 1); [lia|].
  assert (H0 : ((m - m mod g) mod g = 0)%Z).
  { rewrite (Z.div_mod m g) at 1 by lia. replace (g * (m / g) + m mod g - m mod g)%Z with ((m / g) * g)%Z by lia.
    apply Z.mod_mul. lia. }
  lia.
Qed.

(** Non-vacuity: two readers (a lookup and a touch) on a directory holding "a"
    (inode 2, mtime 100, unread): under an interleaved schedule both finish, the
    modification time is still 100 and the entry is now marked (atime >= mtime). *)
Example C09_example :
  let mk (f : fs) (p : path) (c : N) :=
    let '(f1, i) := alloc_inode f (mkInode false [c] 292 100%Z 50%Z 1 true) in
    set_names f1 ((p, i) :: names f1) in
  let '(f0, d) := alloc_inode empty_fs (mkInode true [] 493 0%Z 0%Z 2 true) in
  let f0 := set_names f0 ((["w"%string], d) :: names f0) in
  let f := mk f0 ["w"; "a"]%string 65%N in
  let cfg := mkStack 0 (Some (FPlain ["w"%string] 300)) [] None false ["systmp"%string] in
  let k := mkKey "a"%string 1 2 in
  let o := mkOracle [1000; 1001]%Z [] [] [] [] None 0 1%Z Relatime in
  let ps : list (prog (outcome unit) * oracle) :=
    [ (bind (cache_get cfg k) (fun _ => Ret (Ok tt)), o); (bind (cache_touch cfg k) (fun _ => Ret (Ok tt)), o) ] in
  let st := run_sched [0; 1; 0; 1; 0; 1; 1; 0]%nat (spawn_all ps ([], f)) in
  mtime f 2 = Some 100%Z /\ mtime (snd st) 2 = Some 100%Z /\
  map (fun t => finished (th_prog t)) (fst st) = [true; true] /\
  option_map (fun x => (i_mtime x <=? i_atime x)%Z) (inode_of (snd st) 2) = Some true.
Proof. vm_compute. repeat split. Qed.
