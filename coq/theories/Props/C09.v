(** C09 — Reads mark entries as used without reordering; writes enqueue them fresh. (interim) *)
From Coq Require Import List NArith ZArith String Bool Lia.
From Kismet Require Import Gen.Constants Gen.Agree FS.Fs Ops.Ops.
(** The offset between the two timestamps written at insertion covers any
    granularity up to 2 s: after truncation the read mark is still clear. *)
Theorem C09_born_unmarked : forall g t, (1 <= g <= 2000000000)%Z -> (0 <= t)%Z ->
  (trunc g (t - DELTA_NS) < trunc g t)%Z.
Proof.
  intros g t Hg Ht. unfold trunc, DELTA_NS, NS. pose proof delta_covers_granularity as Hd.
  destruct (Z.leb_spec g 1); [nia|].
  pose proof (Z.mod_pos_bound t g ltac:(lia)). pose proof (Z.mod_pos_bound (t - Constants.DELTA_SEC * 1000000000) g ltac:(lia)). nia.
Qed.
(** A lookup's explicit touch sets atime to the (stored) mtime: marked. *)
Theorem C09_touch_marks : forall g m, (trunc g m <= trunc g (trunc g m))%Z.
Proof.
  intros g m. unfold trunc. destruct (Z.leb_spec g 1); [lia|].
  assert (H0 : ((m - m mod g) mod g = 0)%Z).
  { rewrite (Z.div_mod m g) at 1 by lia. replace (g * (m / g) + m mod g - m mod g)%Z with ((m / g) * g)%Z by lia.
    apply Z.mod_mul. lia. }
  lia.
Qed.
