(** C01 — Readers never observe partial, mixed or foreign content. (interim: pool semantics adequacy) *)
From Coq Require Import List NArith ZArith String Bool.
From Kismet Require Import FS.Fs FS.Prog Conc.Pool.
Import ListNotations.
(** A finished participant never moves again, whatever the schedule. *)
Theorem C01_finished_is_final : forall A (t : thread A) pool f i,
  nth_error pool i = Some t -> finished (th_prog t) = true -> pool_step i (pool, f) = (pool, f).
Proof. intros A t pool f i H Hf. unfold pool_step. rewrite H, Hf. reflexivity. Qed.
