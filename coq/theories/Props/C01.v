(** C01 — Readers never observe partial, mixed or foreign content.

    What is kernel-checked here, over the interleaving semantics (Conc/Pool.v),
    for every pool of participants, every schedule, every environment:

    1. the library follows the WRITE DISCIPLINE: file contents are written only
       through descriptors the writer created itself by an exclusive create or
       O_TMPFILE (the private value file), nothing is truncated, no existing
       file is opened read-write ([C01_*_disciplined]);
    2. hence, from any reachable state, an inode on which no read-write
       descriptor is open keeps its contents forever, whatever anybody does and
       wherever anybody stalls or dies ([C01_contents_immutable_from_any_reachable_state]).
       Published values are such inodes (the creating descriptor is closed by
       finalize_tempfile before the link/rename; lookups open read-only, C19).

    That the bytes published are the writer's COMPLETE value is the sequential
    content of C13 and is re-checked under every explored schedule by
    vlib/c01.py, which replays each schedule on this semantics. *)
From Coq Require Import List NArith ZArith String Bool.
From Kismet Require Import FS.Fs FS.Prog Ops.Ops Ops.Client Spec.Wp Spec.Calm Conc.Pool Conc.PoolProofs Conc.Effect Conc.Immut Proofs.WriteDisc.
Import ListNotations.

Theorem C01_get_disciplined : forall cfg k, chko_calm (s_checker cfg) -> disciplined (cache_get cfg k).
Proof. intros. apply wd_disciplined, wd_cache_get. assumption. Qed.
Theorem C01_touch_disciplined : forall cfg k, disciplined (cache_touch cfg k).
Proof. intros. apply wd_disciplined, wd_cache_touch. Qed.
Theorem C01_set_disciplined : forall cfg k v, disciplined (cache_set cfg k v).
Proof. intros. apply wd_disciplined, wd_cache_set. Qed.
Theorem C01_put_disciplined : forall cfg k v, disciplined (cache_put cfg k v).
Proof. intros. apply wd_disciplined, wd_cache_put. Qed.
Theorem C01_write_temp_disciplined : forall b cfg k fd p, disciplined (cache_write_temp b cfg k fd p).
Proof. intros. apply wd_disciplined, wd_cache_write_temp. Qed.
Theorem C01_maintenance_disciplined : forall dir cap, disciplined (prune dir cap).
Proof. intros. apply wd_disciplined, wd_prune. Qed.
(** ensure / get_or_update: the judge and the checker do not write, populate
    writes only the descriptor it is handed. *)
Theorem C01_get_or_update_disciplined : forall cfg k j pop,
  chko_calm (s_checker cfg) -> judge_calm j -> pop_own pop -> disciplined (get_or_update cfg k j pop).
Proof. intros. apply wd_disciplined, wd_get_or_update; assumption. Qed.
Theorem C01_ensure_disciplined : forall cfg k pop,
  chko_calm (s_checker cfg) -> pop_own pop -> disciplined (ensure cfg k pop).
Proof. intros. apply wd_disciplined, wd_ensure; assumption. Qed.

(** The callbacks and temp-file clients that the correspondence harness runs
    (vlib/c01.py and every other check) satisfy these hypotheses. *)
Theorem C01_harness_callbacks_admissible :
  (forall pk, pop_own (client_populate pk)) /\ (forall a n, judge_calm (client_judge a n)) /\
  chk_calm chk_byteeq /\ chk_calm chk_panic /\ (forall b, chk_calm (chk_count b)).
Proof.
  split; [exact client_populate_own|]. split; [exact client_judge_calm|].
  split; [exact chk_byteeq_calm|]. split; [exact chk_panic_calm|exact chk_count_calm].
Qed.
Theorem C01_temp_file_client_disciplined : forall which cfg k src chunks,
  disciplined (client_set_temp which cfg k src chunks).
Proof. intros. apply wd_disciplined, wd_client_set_temp. Qed.

Theorem C01_contents_immutable_from_any_reachable_state :
  forall A (ps : list (prog A * oracle)) f0 sched1 sched2 i D,
  fds_wf f0 -> Forall (fun po => disciplined (fst po)) ps ->
  let st1 := run_sched sched1 (spawn_all ps ([], f0)) in
  data (snd st1) i = Some D -> i < next_ino (snd st1) -> NoRW i (snd st1) ->
  data (snd (run_sched sched2 st1)) i = Some D.
Proof. exact @immutable_from_any_reachable_state. Qed.

Theorem C01_existing_contents_immutable :
  forall A (ps : list (prog A * oracle)) f sched i D,
  data f i = Some D -> i < next_ino f -> fds_wf f -> NoRW i f ->
  Forall (fun po => disciplined (fst po)) ps ->
  data (snd (run_sched sched (spawn_all ps ([], f)))) i = Some D.
Proof. exact @immutable_spawned. Qed.

(** A finished participant never moves again, whatever the schedule. *)
Theorem C01_finished_is_final : forall A (t : thread A) pool f i,
  nth_error pool i = Some t -> finished (th_prog t) = true -> pool_step i (pool, f) = (pool, f).
Proof. intros A t pool f i H Hf. unfold pool_step. rewrite H, Hf. reflexivity. Qed.

(** Non-vacuity: a directory holding key "a" (inode 2, contents "A"); one
    participant overwrites the key with set (value file "v", inode 3) while
    another looks it up, interleaved call by call.  The premises hold, and the
    old inode indeed still reads "A" although the name now points elsewhere. *)
Definition ex_fs : fs :=
  let mk (f : fs) (p : path) (c : N) :=
    let '(f1, i) := alloc_inode f (mkInode false [c] 292 100%Z 50%Z 1 true) in
    set_names f1 ((p, i) :: names f1) in
  let '(f0, d) := alloc_inode empty_fs (mkInode true [] 493 0%Z 0%Z 2 true) in
  let f0 := set_names f0 ((["w"%string], d) :: names f0) in
  mk (mk f0 ["w"; "a"]%string 65%N) ["v"%string] 66%N.
Definition ex_cfg : stack_cfg := mkStack 0 (Some (FPlain ["w"%string] 300)) [] None false ["systmp"%string].
Definition ex_oracle : oracle := mkOracle [1000; 1001; 1002]%Z [] [] [] [] None 0 1%Z Relatime.
Definition ex_key := mkKey "a"%string 1 2.
Definition ex_progs : list (prog (outcome unit) * oracle) :=
  [ (cache_set ex_cfg ex_key ["v"%string], ex_oracle);
    (bind (cache_get ex_cfg ex_key) (fun _ => Ret (Ok tt)), ex_oracle) ].
Example C01_nonvacuous :
  let st := run_sched [0; 1; 0; 0; 1; 0; 0; 0; 1; 0; 0; 0; 0]%nat (spawn_all ex_progs ([], ex_fs)) in
  data ex_fs 2 = Some [65%N] /\ fds_wf ex_fs /\ NoRW 2 ex_fs
  /\ data (snd st) 2 = Some [65%N]
  /\ option_map (fun i => data (snd st) i) (name_of (snd st) ["w"; "a"]%string) = Some (Some [66%N])
  /\ map (fun t => finished (th_prog t)) (fst st) = [true; true].
Proof.
  split; [reflexivity|]. split; [intros d ka H; vm_compute in H; discriminate H|].
  split; [intros d H; vm_compute in H; discriminate H|].
  vm_compute. repeat split.
Qed.

(** The descriptor of a populated temporary file is closed exactly once, on every path of its
    finalisation and for arbitrary responses - a close that reports a failure included (the
    kernel has released the number, which may already belong to another thread's lookup handle):
    no later call of the finalisation names it.  (Proofs/CloseOnce.v) *)
From Kismet Require Import Proofs.CloseOnce.
Theorem C01_finalisation_closes_its_descriptor_once : forall fd p (sync : bool),
  wp (co_step fd) (finalize_tempfile fd p sync) (fun _ s' => s' = true) false.
Proof. exact finalize_closes_once. Qed.

Theorem C01_finalisation_closes_once_on_every_run : forall fd p (sync : bool) w o,
  let '(_, _, _, tr) := run (finalize_tempfile fd p sync) w o in
  mon_run (co_step fd) false tr = Some true.
Proof. exact finalize_closes_once_run. Qed.

Theorem C01_close_once_monitor_meaning : forall fd r,
  co_step fd false (EvCall (CClose fd) r) = Some true /\
  co_step fd true (EvCall (CClose fd) r) = None /\
  co_step fd true (EvCall (CFsync fd) r) = None /\
  co_step fd true (EvCall (CUnlink []) r) = Some true /\
  co_step fd false (EvCall (CFchmod fd 292) r) = Some false.
Proof. exact co_monitor_meaning. Qed.
