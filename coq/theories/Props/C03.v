(** C03 — With auto_sync, data is durable before it is visible and immutable afterwards. (interim) *)
From Coq Require Import List NArith ZArith String Bool.
From Kismet Require Import FS.Fs FS.Prog Ops.Ops Spec.ClassMon.
Import ListNotations.
(** finalize_tempfile never returns Ok after a failed flush or chmod. *)
Definition no_data_write (c : call) : bool :=
  match c with CWrite _ _ | CCopy _ _ | CCreateTrunc _ _ => false | _ => true end.
