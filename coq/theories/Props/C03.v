(** C03 — With auto_sync, data is durable before it is visible and immutable afterwards.

    Kernel-checked here:
    - durable before visible: with auto_sync on, for arbitrary environment
      responses, every publishing rename or link of set / put / the temp-file
      variants / ensure / get_or_update is preceded by an ACCEPTED fsync that came
      after the operation's last write, copy or file creation; a failed flush is
      never followed by a publication ([C03_durable_before_visible]);
    - immutable afterwards: for every pool and schedule (the interleaving theorem
      of C01 restated for a visible entry), and the write discipline it rests on.
    - WHICH file is flushed: for the path-based set / put and for set_temp_file /
      put_temp_file, the accepted fsync is on a descriptor that was opened on the
      very path that is then renamed / linked (the caller's descriptor for the
      temp-file API), with no write in between ([C03_the_published_file_is_the_one_flushed]).
    For ensure / get_or_update the file identity is pinned by the per-inode monitor
    on the implementation's traces (vlib/c03.py) and the trace equality with the
    model.  fsync's durability is the kernel's contract. *)
From Coq Require Import List NArith ZArith String Bool.
From Kismet Require Import FS.Fs FS.Prog Ops.Ops Ops.Client Spec.Wp Spec.ClassMon Spec.Calm Conc.Pool Conc.Effect Conc.Immut Proofs.WriteDisc Proofs.SyncFirst Proofs.SyncPath.
Import ListNotations.

Theorem C03_durable_before_visible : forall cfg, s_autosync cfg = true ->
  (forall k v, sy (cache_set cfg k v)) /\ (forall k v, sy (cache_put cfg k v)) /\
  (forall b k fd p, sy (cache_write_temp b cfg k fd p)) /\
  (forall k j pop, chko_nrl (s_checker cfg) -> judge_nrl j -> pop_nrl pop -> sy (get_or_update cfg k j pop)) /\
  (forall k pop, chko_nrl (s_checker cfg) -> pop_nrl pop -> sy (ensure cfg k pop)).
Proof.
  intros cfg H. split; [intros; apply sy_cache_set, H|]. split; [intros; apply sy_cache_put, H|].
  split; [intros; apply sy_cache_write_temp, H|]. split; [intros; apply sy_get_or_update; assumption|intros; apply sy_ensure; assumption].
Qed.

(** ... hence on every sequential run the ordering monitor accepts the trace. *)
Theorem C03_durable_before_visible_on_every_run : forall cfg k v w o, s_autosync cfg = true ->
  let '(_, _, _, tr) := run (cache_set cfg k v) w o in exists s', mon_run y_step false tr = Some s'.
Proof. intros cfg k v w o H. apply (sync_first_run _ (sy_cache_set cfg H k v)). Qed.

(** Non-vacuity: with auto_sync, a set whose flush fails publishes nothing (no
    rename in its trace), and a set whose flush succeeds does rename. *)
Example C03_example :
  let mk (f : fs) (p : path) (c : N) :=
    let '(f1, i) := alloc_inode f (mkInode false [c] 292 100%Z 50%Z 1 false) in
    set_names f1 ((p, i) :: names f1) in
  let '(f0, d) := alloc_inode empty_fs (mkInode true [] 493 0%Z 0%Z 2 true) in
  let f0 := set_names f0 ((["w"%string], d) :: names f0) in
  let w := mkWorld (mk f0 ["v"%string] 66%N) 0 [] in
  let cfg := mkStack 0 (Some (FPlain ["w"%string] 300)) [] None true ["systmp"%string] in
  let renames (flt : option (nat * errno)) :=
    let '(_, _, _, tr) := run (cache_set cfg (mkKey "a"%string 1 2) ["v"%string]) w
                              (mkOracle [1000; 1001]%Z [18446744073709551615%N] [] [] [] flt 0 1%Z Relatime) in
    List.length (filter (fun ev => match ev with EvCall (CRename _ _) _ => true | _ => false end) tr) in
  renames None = 1%nat /\ renames (Some (1%nat, EIO)) = 0%nat.
Proof. vm_compute. split; reflexivity. Qed.

(** Once visible (no read-write descriptor left on it), an entry is never
    written, truncated or replaced in place by anybody, under any schedule. *)
(** Which file: the per-file monitor for the value file [v] accepts every run from
    every state: a rename / link of [v] is refused unless an accepted fsync went
    through a descriptor opened on [v] since the last write. *)
Theorem C03_the_published_file_is_the_one_flushed : forall cfg k v (which : bool) fd, s_autosync cfg = true ->
  (forall s, syp v (if which then cache_set cfg k v else cache_put cfg k v) s) /\
  (forall b, syp v (cache_write_temp which cfg k fd v) (Some fd, b)).
Proof. intros cfg k v which fd H. split; [apply syp_cache_write, H|apply syp_cache_write_temp, H]. Qed.

Theorem C03_per_file_on_every_run : forall cfg k v w o, s_autosync cfg = true ->
  let '(_, _, _, tr) := run (cache_set cfg k v) w o in mon_run (yp_step v) (None, false) tr <> None.
Proof. intros cfg k v w o H. exact (sync_path_run v _ _ (syp_cache_write v true cfg k H (None, false)) w o). Qed.

Theorem C03_per_file_monitor_meaning : forall v q fd fd',
  yp_step v (None, false) (EvCall (CRename v q) ROk) = None /\
  yp_step v (Some fd, false) (EvCall (CFsync fd) ROk) = Some (Some fd, true) /\
  (fd' <> fd -> yp_step v (Some fd, false) (EvCall (CFsync fd') ROk) = Some (Some fd, false)) /\
  yp_step v (Some fd, true) (EvCall (CWrite fd []) ROk) = Some (Some fd, false).
Proof.
  intros v q fd fd'. cbn [yp_step fst snd]. rewrite Proofs.PutNeverOverwrites.path_eqb_refl, Nat.eqb_refl. repeat split.
  intros H. destruct (Nat.eqb fd' fd) eqn:E; [apply Nat.eqb_eq in E; contradiction|reflexivity].
Qed.

Theorem C03_immutable_once_visible :
  forall A (ps : list (prog A * oracle)) f0 sched1 sched2 i D,
  fds_wf f0 -> Forall (fun po => disciplined (fst po)) ps ->
  let st1 := run_sched sched1 (spawn_all ps ([], f0)) in
  data (snd st1) i = Some D -> i < next_ino (snd st1) -> NoRW i (snd st1) ->
  data (snd (run_sched sched2 st1)) i = Some D.
Proof. exact @immutable_from_any_reachable_state. Qed.

(** The publishing paths never write file contents themselves: set, put and
    the temp-file variants issue no write, copy, truncating or exclusive create
    and open nothing read-write, whatever the environment answers. *)
Theorem C03_publishing_paths_do_not_write : forall cfg k v,
  allc calm (cache_set cfg k v) anyc /\ allc calm (cache_put cfg k v) anyc.
Proof. intros. split; [apply cm_cache_set|apply cm_cache_put]. Qed.

(** finalize_tempfile closes the value's read-write descriptor on every path. *)
Theorem C03_finalize_is_calm : forall fd p sync, allc calm (finalize_tempfile fd p sync) anyc.
Proof. intros. apply cm_finalize. Qed.
