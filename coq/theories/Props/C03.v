(** C03 — With auto_sync, data is durable before it is visible and immutable afterwards.

    Kernel-checked here: the "immutable afterwards" half, for every pool and
    schedule (the interleaving theorem of C01 restated for a visible entry), and
    the write discipline it rests on.  The ordering half (successful flush after
    the last write and before the publishing rename/link) is decided today by the
    per-inode monitor on the implementation's traces (vlib/c03.py) and the trace
    equality with the model; its theorem is stated in DESIGN.md as not done. *)
From Coq Require Import List NArith ZArith String Bool.
From Kismet Require Import FS.Fs FS.Prog Ops.Ops Spec.ClassMon Spec.Calm Conc.Pool Conc.Effect Conc.Immut Proofs.WriteDisc.
Import ListNotations.

(** Once visible (no read-write descriptor left on it), an entry is never
    written, truncated or replaced in place by anybody, under any schedule. *)
Theorem C03_immutable_once_visible :
  forall A (ps : list (prog A * oracle)) f0 sched1 sched2 i D,
  fds_wf f0 -> Forall (fun po => disciplined (fst po)) ps ->
  let st1 := run_sched sched1 (spawn_all ps ([], f0)) in
  data (snd st1) i = Some D -> i < next_ino (snd st1) -> NoRW i (snd st1) ->
  data (snd (run_sched sched2 st1)) i = Some D.
Proof. exact @immutable_from_any_reachable_state. Qed.

(** The publishing paths never write file contents themselves: set, put and
    the temp-file variants issue no write, copy, truncating or exclusive create
    and open nothing read-write, whatever the environment answers. *)
Theorem C03_publishing_paths_do_not_write : forall cfg k v,
  allc calm (cache_set cfg k v) anyc /\ allc calm (cache_put cfg k v) anyc.
Proof. intros. split; [apply cm_cache_set|apply cm_cache_put]. Qed.

(** finalize_tempfile closes the value's read-write descriptor on every path. *)
Theorem C03_finalize_is_calm : forall fd p sync, allc calm (finalize_tempfile fd p sync) anyc.
Proof. intros. apply cm_finalize. Qed.
