(** C02 — A process crash at any point leaves every cache directory valid and usable. (interim) *)
From Coq Require Import List NArith ZArith String Bool.
Import ListNotations.
From Kismet Require Import FS.Fs FS.Prog Ops.Ops Ops.Client Spec.ClassMon Spec.Calm Conc.Pool Conc.Effect Conc.Immut Proofs.PoolLift Proofs.DebrisInTemp.
(** A crash before the n-th call executes exactly the calls before it: the
    crashed run's trace is a prefix of the full run's trace. *)
Theorem C02_crash_before_first_call : forall A (p : prog A) c k w o,
  p = Call c k -> significant c = true -> o_ncalls o = 0 ->
  run_crash p w o 0 = (w, o, [], true).
Proof. intros A p c k w o -> Hs Hn. cbn [run_crash]. rewrite Hs, Hn. reflexivity. Qed.

(** A participant that dies is one that no schedule selects again (the kernel
    then closes its descriptors, which changes no file).  The interleaving
    theorem of C01 quantifies over ALL schedules, so it covers every crash
    point of every participant at filesystem-call granularity: whatever was
    readable under a name without a read-write descriptor open on it (every
    published value) reads the same after any crash and any further activity. *)
Theorem C02_crash_anywhere_keeps_published_contents :
  forall A (ps : list (prog A * oracle)) f0 sched_before_crash sched_after_crash i D,
  fds_wf f0 -> Forall (fun po => disciplined (fst po)) ps ->
  let st1 := run_sched sched_before_crash (spawn_all ps ([], f0)) in
  data (snd st1) i = Some D -> i < next_ino (snd st1) -> NoRW i (snd st1) ->
  data (snd (run_sched sched_after_crash st1)) i = Some D.
Proof. exact @immutable_from_any_reachable_state. Qed.

(** Whatever a participant has created when it stops - at ANY point of ANY
    schedule, crashed, frozen or finished - was created inside a directory named
    .kismet_temp (or anonymously in the system temp directory): debris can sit
    nowhere else.  Stated for arbitrary environment responses and lifted to
    pools; set / put / the temp-file variants create nothing at all. *)
Theorem C02_debris_only_in_temp_directories : forall cfg k pop,
  chko_tk (s_systmp cfg) (s_checker cfg) -> chko_calm (s_checker cfg) -> pop_tk (s_systmp cfg) pop ->
  class_in_any_pool (tmp_ok (s_systmp cfg)) (ensure cfg k pop).
Proof. intros. eapply allc_pool. apply tk_ensure; auto. Qed.

Theorem C02_get_or_update_debris_only_in_temp_directories : forall cfg k j pop,
  chko_tk (s_systmp cfg) (s_checker cfg) -> chko_calm (s_checker cfg) -> judge_tk (s_systmp cfg) j -> pop_tk (s_systmp cfg) pop ->
  class_in_any_pool (tmp_ok (s_systmp cfg)) (get_or_update cfg k j pop).
Proof. intros. eapply allc_pool. apply tk_get_or_update; auto. Qed.

Theorem C02_writes_create_nothing : forall sys cfg k v,
  class_in_any_pool (tmp_ok sys) (cache_set cfg k v) /\ class_in_any_pool (tmp_ok sys) (cache_put cfg k v).
Proof. intros. split; eapply allc_pool; [apply tk_cache_set|apply tk_cache_put]. Qed.

(** The populate callback of the harness satisfies the hypothesis. *)
Theorem C02_harness_populate_admissible : forall sys pk, pop_tk sys (client_populate pk).
Proof. exact client_populate_tk. Qed.

(** What the class says. *)
Theorem C02_class_meaning : forall sys p m d,
  tmp_ok sys (CCreate p m) = has_temp p /\ tmp_ok sys (CCreateTrunc p m) = false /\
  tmp_ok sys (COpenTmp d) = (has_temp d || path_eqb d sys)%bool.
Proof. intros. repeat split. Qed.
