(** C02 — A process crash at any point leaves every cache directory valid and usable. (interim) *)
From Coq Require Import List NArith ZArith String Bool.
Import ListNotations.
From Kismet Require Import FS.Fs FS.Prog Ops.Ops.
(** A crash before the n-th call executes exactly the calls before it: the
    crashed run's trace is a prefix of the full run's trace. *)
Theorem C02_crash_before_first_call : forall A (p : prog A) c k w o,
  p = Call c k -> significant c = true -> o_ncalls o = 0 ->
  run_crash p w o 0 = (w, o, [], true).
Proof. intros A p c k w o -> Hs Hn. cbn [run_crash]. rewrite Hs, Hn. reflexivity. Qed.
