(** C02 — A process crash at any point leaves every cache directory valid and usable.

    Kernel-checked here: (1) published contents survive any crash of any
    participant and any later activity (all schedules); (2) debris can only sit in
    `.kismet_temp` directories (all responses, any pool); (3) publication is
    atomic at every crash point: when a plain set or put dies before ANY of its
    calls (after a fault anywhere before), the key's name is bound to what it was
    bound to, to nothing, or to the inode the source named - never to anything else
    ([C02_publication_is_atomic_at_every_crash_point]), and the write paths change
    no file contents, so either inode is complete; (4) "normal semantics" after
    the crash: whatever program a process was running, wherever it died, every
    later history of the public API on a plain write cache keeps the key-value
    semantics of C11 from whatever the directory shows at that moment, and keeps
    every file's bytes ([C02_histories_after_any_crash]); (5) debris older than
    the limit is reclaimed: in the kernel model a fault-free temp-directory sweep
    leaves every entry it measured as a stale non-directory unbound
    ([C02_stale_debris_is_reclaimed]; younger files are never unlinked: C17).
    That the later operations SUCCEED: crash-point enumeration (vlib/c02.py). *)
From Coq Require Import List NArith ZArith String Bool.
Import ListNotations.
From Kismet Require Import Pure.Hash FS.Fs FS.Prog Ops.Ops Ops.Client Spec.ClassMon Spec.Calm Conc.Pool Conc.Effect Conc.Immut Proofs.PoolLift Proofs.DebrisInTemp Seq.Plain Proofs.KvSeq Proofs.KvTemp Proofs.KvHist Spec.Wp Seq.Sane Proofs.TempSweep Proofs.KvShard Proofs.KvShardKey.
(** A crash before the n-th call executes exactly the calls before it: the
    crashed run's trace is a prefix of the full run's trace. *)
Theorem C02_crash_before_first_call : forall A (p : prog A) c k w o,
  p = Call c k -> significant c = true -> o_ncalls o = 0 ->
  run_crash p w o 0 = (w, o, [], true).
Proof. intros A p c k w o -> Hs Hn. cbn [run_crash]. rewrite Hs, Hn. reflexivity. Qed.

(** A participant that dies is one that no schedule selects again (the kernel
    then closes its descriptors, which changes no file).  The interleaving
    theorem of C01 quantifies over ALL schedules, so it covers every crash
    point of every participant at filesystem-call granularity: whatever was
    readable under a name without a read-write descriptor open on it (every
    published value) reads the same after any crash and any further activity. *)
Theorem C02_crash_anywhere_keeps_published_contents :
  forall A (ps : list (prog A * oracle)) f0 sched_before_crash sched_after_crash i D,
  fds_wf f0 -> Forall (fun po => disciplined (fst po)) ps ->
  let st1 := run_sched sched_before_crash (spawn_all ps ([], f0)) in
  data (snd st1) i = Some D -> i < next_ino (snd st1) -> NoRW i (snd st1) ->
  data (snd (run_sched sched_after_crash st1)) i = Some D.
Proof. exact @immutable_from_any_reachable_state. Qed.

(** Publication is atomic at every crash point (sequential kernel model, any
    directory contents, any maintenance, any injected fault before the crash). *)
Theorem C02_publication_is_atomic_at_every_crash_point : forall d name v i0 j0 (which : bool) w o n,
  plainp (cd_base d) = true -> valid_name name = true -> plainp v = true ->
  (forall q, v <> cd_base d ++ q) -> (forall q, cd_base d <> v ++ q) ->
  names_plain (w_fs w) -> name_of (w_fs w) v = Some i0 -> name_of (w_fs w) (cd_base d ++ [name]) = j0 ->
  let '(w', _, _, _) := run_crash (if which then cd_set d name v else cd_put d name v) w o n in
  name_of (w_fs w') (cd_base d ++ [name]) = j0 \/ name_of (w_fs w') (cd_base d ++ [name]) = None \/
  name_of (w_fs w') (cd_base d ++ [name]) = Some i0.
Proof. intros d name v i0 j0 which w o n Hb Hn Hv Ho Ha. exact (crash_anywhere_is_atomic d name v Hb Hn Hv Ho Ha i0 j0 which w o n). Qed.

(** The same for ANY plain source path, in particular a temporary file inside the
    cache's own [.kismet_temp] (what the temp-file API and the populate paths publish). *)
Theorem C02_publication_from_any_source_is_atomic : forall d name v (which : bool) i0 j0 w o n,
  plainp (cd_base d) = true -> valid_name name = true -> plainp v = true ->
  v <> cd_base d ++ [name] -> (forall q, cd_base d <> v ++ q) ->
  names_plain (w_fs w) -> name_of (w_fs w) v = Some i0 -> name_of (w_fs w) (cd_base d ++ [name]) = j0 ->
  let '(w', _, _, _) := run_crash (cd_publish (if which then insert_or_update else insert_or_touch) d name v) w o n in
  name_of (w_fs w') (cd_base d ++ [name]) = j0 \/ name_of (w_fs w') (cd_base d ++ [name]) = None \/
  name_of (w_fs w') (cd_base d ++ [name]) = Some i0.
Proof. intros d name v which i0 j0 w o n Hb Hn Hv Hvd Ha. exact (publish_is_atomic d name v which Hb Hn Hv Hvd Ha i0 j0 w o n). Qed.

(** Whatever a participant has created when it stops - at ANY point of ANY
    schedule, crashed, frozen or finished - was created inside a directory named
    .kismet_temp (or anonymously in the system temp directory): debris can sit
    nowhere else.  Stated for arbitrary environment responses and lifted to
    pools; set / put / the temp-file variants create nothing at all. *)
Theorem C02_debris_only_in_temp_directories : forall cfg k pop,
  chko_tk (s_systmp cfg) (s_checker cfg) -> chko_calm (s_checker cfg) -> pop_tk (s_systmp cfg) pop ->
  class_in_any_pool (tmp_ok (s_systmp cfg)) (ensure cfg k pop).
Proof. intros. eapply allc_pool. apply tk_ensure; auto. Qed.

Theorem C02_get_or_update_debris_only_in_temp_directories : forall cfg k j pop,
  chko_tk (s_systmp cfg) (s_checker cfg) -> chko_calm (s_checker cfg) -> judge_tk (s_systmp cfg) j -> pop_tk (s_systmp cfg) pop ->
  class_in_any_pool (tmp_ok (s_systmp cfg)) (get_or_update cfg k j pop).
Proof. intros. eapply allc_pool. apply tk_get_or_update; auto. Qed.

Theorem C02_writes_create_nothing : forall sys cfg k v,
  class_in_any_pool (tmp_ok sys) (cache_set cfg k v) /\ class_in_any_pool (tmp_ok sys) (cache_put cfg k v).
Proof. intros. split; eapply allc_pool; [apply tk_cache_set|apply tk_cache_put]. Qed.

(** The populate callback of the harness satisfies the hypothesis. *)
Theorem C02_harness_populate_admissible : forall sys pk, pop_tk sys (client_populate pk).
Proof. exact client_populate_tk. Qed.

(** What the class says. *)
Theorem C02_class_meaning : forall sys p m d,
  tmp_ok sys (CCreate p m) = has_temp p /\ tmp_ok sys (CCreateTrunc p m) = false /\
  tmp_ok sys (COpenTmp d) = (has_temp d || path_eqb d sys)%bool.
Proof. intros. repeat split. Qed.

(** After a crash of ANY program at ANY call boundary (any fault before), the
    public API keeps its semantics: every later history refines the key-value map
    of C11 starting from the bindings the crash left, and no file changes. *)
Theorem C02_histories_after_any_crash : forall cfg dir cap A (p : prog A) w o n ops os,
  s_writer cfg = Some (FPlain dir cap) -> s_readers cfg = [] -> s_checker cfg = None -> plainp dir = true ->
  names_plain (w_fs w) -> Forall (sop_wf dir) ops ->
  let '(w', _, _, _) := run_crash p w o n in
  shist cfg dir ops os w' (al_of (plain_cdir dir cap) (w_fs w')) /\
  forall i D, data (w_fs w') i = Some D -> i < next_ino (w_fs w') -> data (w_fs (srun cfg ops os w')) i = Some D.
Proof. intros cfg dir cap A p w o n ops os Hw Hr Hc Hb. exact (history_after_any_crash cfg dir cap Hw Hr Hc Hb p w o n ops os). Qed.

(** Sharded caches: publication is atomic at every crash point as well - any entry
    of any shard directory is bound to what it was, to nothing, or to the source's
    inode, whatever shard was chosen, after any fault. *)
Theorem C02_sharded_publication_is_atomic_at_every_crash_point : forall dir nsh total k v (which : bool) h nm j i0 w o n,
  plainp dir = true -> valid_name (k_name k) = true -> plainp v = true ->
  (forall q, v <> dir ++ q) -> (forall q, dir <> v ++ q) -> valid_name nm = true ->
  names_plain (w_fs w) -> (name_of (w_fs w) v = Some i0 \/ name_of (w_fs w) v = None) ->
  let y := (dir ++ [format_id j]) ++ [nm] in
  let '(w', _, _, _) := run_crash (sh_publish (if which then cd_set else cd_put) h dir nsh total k v) w o n in
  name_of (w_fs w') y = name_of (w_fs w) y \/ name_of (w_fs w') y = None \/ name_of (w_fs w') y = Some i0.
Proof.
  intros dir nsh total k v which h nm j i0 w o n Hd Hk Hv Hout Hnanc Hn Hpl Hs y.
  assert (Hy : plainp y = true) by (apply (dst_plain (shard_cdir dir nsh total j) nm); [apply (dcd_plain dir nsh total Hd)|exact Hn]).
  assert (Hyv : y <> v) by (intros E; unfold y in E; rewrite <- app_assoc in E; exact (Hout _ (eq_sym E))).
  assert (Hyl : List.length dir + 1 < List.length y) by (unfold y; rewrite !app_length; cbn; Lia.lia).
  exact (sharded_publication_is_atomic dir nsh total k v Hd Hk Hv Hout Hnanc y Hy Hyv Hyl i0 _ which h w o n Hpl Hs eq_refl).
Qed.

Theorem C02_stale_debris_is_reclaimed : forall temp w o, plainp temp = true ->
  o_fault o = None -> names_plain (w_fs w) ->
  let '(r, w', _, tr) := run (cleanup_temporary_directory temp) w o in
  exists s', mon_run (lift (ws_step temp)) (Some (mkW None None None [])) tr = Some (Some s') /\
    (forall p, In p (w_gone s') -> name_of (w_fs w') p = None) /\
    match r with Ok _ => w_pend s' = None /\ (w_todo s' = Some [] \/ w_todo s' = None) | _ => True end.
Proof. intros temp w o Ht. exact (stale_files_do_go temp Ht w o). Qed.

(** Non-vacuity of the atomicity theorem: key "a" holds inode 2; set "a" <- "v"
    (inode 3) killed before each of its first 12 calls: the name is bound to the
    old inode at the early crash points and to the new one at the late ones,
    nothing else ever. *)
Example C02_atomic_example :
  let mk (f : fs) (p : path) (c : N) :=
    let '(f1, i) := alloc_inode f (mkInode false [c] 292 100%Z 50%Z 1 true) in
    set_names f1 ((p, i) :: names f1) in
  let '(f0, d) := alloc_inode empty_fs (mkInode true [] 493 0%Z 0%Z 2 true) in
  let f0 := set_names f0 ((["w"%string], d) :: names f0) in
  let f := mk (mk f0 ["w"; "a"]%string 65%N) ["v"%string] 66%N in
  let o := mkOracle [1000; 1001; 1002]%Z [18446744073709551615%N] [] [] [] None 0 1%Z Relatime in
  let at_crash n :=
    let '(w', _, _, _) := run_crash (cd_set (plain_cdir ["w"%string] 300) "a" ["v"%string]) (mkWorld f 0 []) o n in
    name_of (w_fs w') ["w"; "a"]%string in
  let seen := map at_crash (seq 0 12) in
  forallb (fun x => match x with Some 2%nat | Some 3%nat => true | _ => false end) seen = true /\
  existsb (fun x => match x with Some 2%nat => true | _ => false end) seen = true /\
  existsb (fun x => match x with Some 3%nat => true | _ => false end) seen = true.
Proof. vm_compute. repeat split. Qed.
