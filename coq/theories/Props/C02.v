(** C02 — A process crash at any point leaves every cache directory valid and usable. (interim) *)
From Coq Require Import List NArith ZArith String Bool.
Import ListNotations.
From Kismet Require Import FS.Fs FS.Prog Ops.Ops Conc.Pool Conc.Effect Conc.Immut.
(** A crash before the n-th call executes exactly the calls before it: the
    crashed run's trace is a prefix of the full run's trace. *)
Theorem C02_crash_before_first_call : forall A (p : prog A) c k w o,
  p = Call c k -> significant c = true -> o_ncalls o = 0 ->
  run_crash p w o 0 = (w, o, [], true).
Proof. intros A p c k w o -> Hs Hn. cbn [run_crash]. rewrite Hs, Hn. reflexivity. Qed.

(** A participant that dies is one that no schedule selects again (the kernel
    then closes its descriptors, which changes no file).  The interleaving
    theorem of C01 quantifies over ALL schedules, so it covers every crash
    point of every participant at filesystem-call granularity: whatever was
    readable under a name without a read-write descriptor open on it (every
    published value) reads the same after any crash and any further activity. *)
Theorem C02_crash_anywhere_keeps_published_contents :
  forall A (ps : list (prog A * oracle)) f0 sched_before_crash sched_after_crash i D,
  fds_wf f0 -> Forall (fun po => disciplined (fst po)) ps ->
  let st1 := run_sched sched_before_crash (spawn_all ps ([], f0)) in
  data (snd st1) i = Some D -> i < next_ino (snd st1) -> NoRW i (snd st1) ->
  data (snd (run_sched sched_after_crash st1)) i = Some D.
Proof. exact @immutable_from_any_reachable_state. Qed.
