(** C10 — Cache growth between maintenance runs is bounded.
    Statements only; proofs in Proofs/TriggerProofs.v.  [observe] models
    trigger.rs:43-72 in u64 arithmetic, [scale]/[weight] PeriodicTrigger::new
    and weighted_event, [write_step] the counting abstraction of one plain
    directory written by one thread (maintenance, when the trigger fires, runs
    BEFORE the insertion and leaves at most [k] files: C07). *)
From Coq Require Import List NArith Bool.
From Kismet Require Import Gen.Constants Pure.Pinned Gen.Agree Pure.Trigger Proofs.TriggerProofs.
Import ListNotations.
Local Open Scope N_scope.

(** The plain cache's period is floor(capacity / 3) — on the constant
    regenerated from the current source. *)
Theorem C10_period : forall k, plain_period k Constants.PLAIN_MAINTENANCE_SCALE = k / 3.
Proof. intros k. rewrite plain_scale_agrees. reflexivity. Qed.

(** Among any max(1, period) consecutive events at least one fires: from any
    counter state (0 = uninitialised), for any non-zero u64 draws. *)
Theorem C10_window : forall period c ds fs c' ds',
  eff_period period <= U64_MAX -> c <= U64_MAX -> draws_ok ds ->
  run_events (N.to_nat (eff_period period)) c (scale period) ds = Some (fs, c', ds') ->
  existsb (fun b => b) fs = true.
Proof. exact trigger_window. Qed.

(** A period of 0 or 1 means every write maintains. *)
Theorem C10_always : forall period c ds r,
  period <= 1 -> c <= U64_MAX -> draws_ok ds ->
  observe c (scale period) ds = Some r -> fst (fst r) = true.
Proof. exact trigger_always. Qed.

(** No overflow: the scale fits in u64 and a single event's weight is not
    clamped; [scale * period] covers the whole u64 range, so a small draw fires
    at once even for huge capacities. *)
Theorem C10_no_overflow : forall period,
  scale period <= U64_MAX /\ weight period 1 = scale period /\
  U64_MAX <= eff_period period * scale period.
Proof. intros p. split; [apply scale_le_max|]. split; [apply weight_one|apply scale_covers]. Qed.

(** With no concurrent writer, starting from at most k files, the directory
    never holds more than k + max(1, period) files after any write — for every
    write sequence (fresh or repeated keys) and every draw sequence. *)
Theorem C10_growth : forall k period count c ds ws counts st',
  eff_period period <= U64_MAX -> count <= k -> c <= U64_MAX -> draws_ok ds ->
  run_writes k (scale period) (count, c, ds) ws = Some (counts, st') ->
  Forall (fun n => n <= k + eff_period period) counts.
Proof. exact growth_bound. Qed.

(** Non-vacuity: capacity 9 (period 3), uninitialised counter, draws at the
    boundary of the per-event decrement. *)
Example C10_example :
  let w := scale 3 in
  run_events 3 0 w [w + 1; 7; 9] = Some ([false; true; false], 9 - 0, []) \/
  exists fs c ds, run_events 3 0 w [w + 1; 7; 9] = Some (fs, c, ds) /\ existsb (fun b => b) fs = true.
Proof. right. vm_compute. eexists _, _, _. split; reflexivity. Qed.

(** The premise of the counting abstraction, for the model's real programs and arbitrary
    responses: a write (set / put through a plain or a sharded directory, hence the public
    Cache::set / put) observes AT MOST one event of the maintenance trigger and exactly one
    when it succeeds; lookups, touches and the plain temp directory observe none.
    (Proofs/TriggerOnce.v) *)
From Kismet Require Import FS.Fs FS.Prog Spec.Wp Ops.Ops Proofs.TriggerOnce.
Theorem C10_write_observes_one_trigger_event : forall (which : bool) cfg k v n,
  wp tg_step (if which then cache_set cfg k v else cache_put cfg k v)
     (fun r n' => (n' <= S n)%nat /\ (forall x, r = Ok x -> n' = S n)) n.
Proof. exact public_write_observes_one_event. Qed.

Theorem C10_write_observes_one_trigger_event_on_every_run : forall (which : bool) cfg k v w o,
  let '(r, _, _, tr) := run (if which then cache_set cfg k v else cache_put cfg k v) w o in
  exists n', mon_run tg_step 0%nat tr = Some n' /\ (n' <= 1)%nat /\ (r = Ok tt -> n' = 1%nat).
Proof. exact public_write_observes_one_event_run. Qed.

Theorem C10_lookups_and_touches_observe_no_event : forall f k, notrig (f_get f k) /\ notrig (f_touch f k).
Proof. exact lookups_and_touches_observe_no_event. Qed.

Theorem C10_plain_temp_dir_observes_no_event : forall d, notrig (ensure_temp_dir d).
Proof. exact plain_temp_dir_observes_no_event. Qed.

Theorem C10_no_event_means_no_count : forall A (p : prog A), notrig p -> forall n, wp tg_step p (fun _ n' => n' = n) n.
Proof. intros A p. exact (tg_frame p). Qed.

Theorem C10_trigger_monitor_meaning : forall n w b c r t,
  tg_step n (EvTrigger w b) = Some (S n) /\ tg_step n (EvCall c r) = Some n /\ tg_step n (EvNow t) = Some n.
Proof. exact tg_monitor_meaning. Qed.
