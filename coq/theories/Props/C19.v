(** C19 — Cached data is exposed read-only and from the start.
    On the whole configuration matrix of C13/C14 (judge and checker both READ
    the files they are given): every returned handle is at offset 0; it is
    read-only, except the throw-away file that serves a populated value when
    there is no write cache at all (nothing is cached then); every file visible
    under a key name in the write cache has no write permission bit.
    Beyond the matrix, for ARBITRARY environment responses and every publishing
    path of set / put / set_temp_file / put_temp_file (plain or sharded, retry
    included): the source of every publishing rename / link is a path that an
    accepted chmod made read-only - the mode it set has no write bit - and that
    no later chmod made writable again ([C19_read_only_before_visible]); and, for
    lookups through stacks of ANY depth, with or without a consistency checker:
    the descriptor returned has not been read from since it was opened or since
    the library rewound it with an accepted seek to 0
    ([C19_lookups_serve_from_the_start]). *)
From Coq Require Import List NArith ZArith String Bool.
From Kismet Require Import FS.Fs FS.Prog Spec.Wp Ops.Ops Spec.StackSpec Proofs.StackSweep Proofs.ReadOnlyFirst Proofs.OffsetZero Ops.Client Proofs.FinalizeMode.
Import ListNotations.

Theorem C19_handles_matrix : forall c op, In c configs -> In op ops -> handle_ok c op = true.
Proof.
  assert (H : forallb (fun c => forallb (fun op => handle_ok c op) ops) configs = true)
    by (vm_compute; reflexivity).
  intros c op Hc Hop. rewrite forallb_forall in H. specialize (H c Hc).
  rewrite forallb_forall in H. exact (H op Hop).
Qed.

(** The one read-write handle: no write side, populated value. *)
Example C19_throwaway_rw :
  ob_acc (observe_op (mkCfg WNone None [] CkNone) (AGou Accept (PVal vP))) = Some RDWR /\
  ob_off (observe_op (mkCfg WNone None [] CkNone) (AGou Accept (PVal vP))) = Some 0%N.
Proof. vm_compute. split; reflexivity. Qed.

(** finalize_tempfile sets the mode on the descriptor: the published mode is
    0444 whatever mode the file was created with (umask acts at creation only). *)
Example C19_mode_0444 :
  let c := mkCfg WPlain None [(false, Some vA)] CkNone in
  let '(_, w', _, _) := FS.Prog.run (get_or_update (mk_stack c) the_key (Ops.Client.client_judge Promote 1)
                                      (Ops.Client.client_populate Ops.Client.PopNotFound)) (the_world c) the_oracle in
  match name_of (FS.Prog.w_fs w') ["w"%string; "kk"%string] with
  | Some i => match inode_of (FS.Prog.w_fs w') i with Some x => i_mode x = 292%N | None => False end
  | None => False
  end.
Proof. vm_compute. reflexivity. Qed.

(** Read-only before visible, all responses, every publishing path. *)
Theorem C19_read_only_before_visible : forall cfg k v (which : bool) fd,
  qr (cache_set cfg k v) /\ qr (cache_put cfg k v) /\ qr (cache_write_temp which cfg k fd v).
Proof. intros. split; [apply qr_cache_set|split; [apply qr_cache_put|apply qr_cache_write_temp]]. Qed.

Theorem C19_read_only_before_visible_on_every_run : forall cfg k v w o s,
  let '(_, _, _, tr) := run (cache_set cfg k v) w o in mon_run q_step s tr <> None.
Proof. intros cfg k v w o s. exact (read_only_first_run _ (qr_cache_set cfg k v) w o s). Qed.

(** The monitor: a rename / link is accepted only from the path last made read-only;
    the mode that set_read_only computes (mode & 0o7555) never has a write bit. *)
Theorem C19_monitor_meaning : forall p q m,
  q_step None (EvCall (CRename p q) ROk) = None /\ q_step None (EvCall (CLink p q) ROk) = None /\
  q_step (Some p) (EvCall (CChmod p 420) ROk) = Some None /\      (* 0o644: writable again *)
  q_step None (EvCall (CChmod p (N.land m 3949)) ROk) = Some (Some p).
Proof.
  intros p q m. repeat split. cbn [q_step]. rewrite masked_mode_read_only. reflexivity.
Qed.

(** From the start, any depth, all responses, with or without a checker (which is
    only assumed to read nothing but the two descriptors it is given). *)
Theorem C19_lookups_serve_from_the_start : forall chk cfg k,
  match chk with
  | Some ck => forall a b s, wp oz_step (ck a b) (fun _ s' => forall x, x <> a -> x <> b -> clean x s -> clean x s') s
  | None => True end ->
  s_checker cfg = chk -> forall s,
  wp oz_step (cache_get cfg k) (fun r s' => match r with Ok (Some fd) => clean fd s' | _ => True end) s.
Proof. intros chk cfg k H. exact (lookup_serves_from_the_start chk H cfg k). Qed.

Theorem C19_model_checkers_read_their_arguments : forall a b fail s,
  wp oz_step (chk_byteeq a b) (fun _ s' => forall x, x <> a -> x <> b -> clean x s -> clean x s') s /\
  wp oz_step (chk_count fail a b) (fun _ s' => forall x, x <> a -> x <> b -> clean x s -> clean x s') s.
Proof. exact model_checkers_read_their_arguments. Qed.

Theorem C19_offset_monitor_meaning : forall fd p a n s,
  oz_step s (EvCall (CRead fd n) (RData [])) = Some (fd :: s) /\
  clean fd (match oz_step (fd :: s) (EvCall (CSeek fd 0) ROk) with Some s' => s' | None => [fd] end) /\
  clean fd (match oz_step (fd :: s) (EvCall (COpen p a) (RFd fd)) with Some s' => s' | None => [fd] end) /\
  oz_step (fd :: s) (EvCall (CSeek fd 0) (RErr EIO)) = Some (fd :: s).
Proof. intros. cbn [oz_step N.eqb]. repeat split; apply clean_remove. Qed.

(** Finalisation of a populated temporary file - the step get_or_update / ensure, promotion and
    the temp-file API all go through before publishing - makes the file read-only for BOTH values
    of auto_sync and arbitrary responses: it reports success only after an fchmod of that
    descriptor to 0444 that did not fail. *)
Theorem C19_finalisation_sets_read_only_whatever_auto_sync : forall fd p (sync : bool) s,
  wp (fz_step fd) (finalize_tempfile fd p sync) (fun r s' => match r with Ok _ => s' = true | _ => True end) s.
Proof. exact finalize_sets_read_only. Qed.

Theorem C19_finalisation_on_every_run : forall fd p (sync : bool) w o,
  let '(r, _, _, tr) := run (finalize_tempfile fd p sync) w o in
  match r with Ok _ => mon_run (fz_step fd) false tr = Some true | _ => True end.
Proof. exact finalize_sets_read_only_run. Qed.

Theorem C19_finalisation_monitor_meaning : forall fd s,
  fz_step fd s (EvCall (CFchmod fd 292) ROk) = Some true /\
  fz_step fd s (EvCall (CFchmod fd 292) (RErr EIO)) = Some s /\
  fz_step fd s (EvCall (CFchmod fd 420) ROk) = Some s /\
  fz_step fd s (EvCall (CFsync fd) ROk) = Some s.
Proof. exact fz_monitor_meaning. Qed.
