(** C12 — Shard placement is a fixed, process-independent function of the key
    hashes.  Statements only; proofs in Proofs/HashProofs.v, Gen/Agree.v. *)
From Coq Require Import List NArith String Ascii Bool.
From Kismet Require Import Gen.Constants Pure.Pinned Gen.Agree Pure.Sha256 Pure.Hash Proofs.HashProofs Ops.Ops.
Import ListNotations.
Local Open Scope N_scope.

(** The mixers' constants are SHA-256 of the two fixed strings, as read from
    the CURRENT source (Gen/Constants.v), little-endian, multiplier made odd. *)
Theorem C12_mixers :
  mixer_keyed Constants.PRIMARY_MIXER_KEY = PRIMARY /\
  mixer_keyed Constants.SECONDARY_MIXER_KEY = SECONDARY /\
  N.odd (mult PRIMARY) = true /\ N.odd (mult SECONDARY) = true.
Proof.
  rewrite primary_key_agrees, secondary_key_agrees.
  repeat split; auto using primary_mixer_derivation, secondary_mixer_derivation.
Qed.

(** Two distinct in-range shards, by multiply-add (wrapping, u64) then scale
    ((n * x) >> 64), with the collision fix-up; fewer than 2 shards behave as 2.
    The function has no argument other than (hash, secondary hash, n). *)
Theorem C12_ids : forall hash sec n,
  let n' := eff_shards n in
  let '(a, b) := shard_ids hash sec n in
  a < n' /\ b < n' /\ a <> b /\
  a = reduce (mix PRIMARY hash) n' /\
  b = other_shard_id n' a (reduce (mix SECONDARY sec) n').
Proof. exact shard_ids_spec. Qed.

Theorem C12_small_counts : forall hash sec n, n < 2 -> shard_ids hash sec n = shard_ids hash sec 2.
Proof. exact shard_ids_small_counts. Qed.

Theorem C12_reduce_shift : Constants.REDUCE_SHIFT = 64 /\ TWO64 = 2 ^ 64.
Proof. split; reflexivity. Qed.

(** Directory names: ".kismet_" + at least four lowercase hex digits, injective,
    never a valid key name, never the temporary directory — with the prefix,
    width and case read from the current source. *)
Theorem C12_name_format :
  Constants.SHARD_PREFIX = ".kismet_"%string /\ Constants.SHARD_HEX_WIDTH = 4%nat /\
  Constants.SHARD_HEX_UPPER = false.
Proof. repeat split. Qed.

Theorem C12_names : forall x, x < TWO64 ->
  (exists ds, format_id x = (".kismet_" ++ string_of_list ds)%string /\ (4 <= List.length ds)%nat /\
              Forall (fun c => is_lower_hex c = true) ds) /\
  valid_name (format_id x) = false /\ format_id x <> TEMP_SUBDIR.
Proof.
  intros x Hx. split; [apply format_id_shape; exact Hx|]. split; [apply format_id_not_a_key|apply format_id_not_temp; exact Hx].
Qed.

Theorem C12_names_injective : forall a b, a < TWO64 -> b < TWO64 -> format_id a = format_id b -> a = b.
Proof. exact format_id_injective. Qed.

(** The builders choose the layout from the shard count alone: with n >= 2 the directory is
    sharded whatever the capacity (so that every handle declared with n shards looks where any
    other stores), and a reader's choice is the writer's. *)
Theorem C12_layout_depends_on_the_count_only : forall dir n total,
  2 <= n -> builder_writer dir n total = FSharded dir n total /\
            builder_reader dir n = FSharded dir n 18446744073709551615.
Proof.
  intros dir n total Hn. unfold builder_reader, builder_writer.
  destruct (N.leb_spec n 1) as [H|H]; [|split; reflexivity].
  exfalso. apply (N.lt_irrefl 1). apply (N.lt_le_trans 1 2 1); [reflexivity|].
  apply (N.le_trans _ n); assumption.
Qed.

(** Whatever the count (0 and 1 included: plain) and whatever the writer's capacity, a reader
    declared with the same count as a writer uses the writer's layout. *)
Theorem C12_reader_layout_is_the_writers : forall dir n total,
  match builder_writer dir n total, builder_reader dir n with
  | FPlain d _, FPlain d' _ => d = d'
  | FSharded d m _, FSharded d' m' _ => d = d' /\ m = m'
  | _, _ => False
  end.
Proof.
  intros dir n total. unfold builder_reader, builder_writer.
  destruct (n <=? 1); [reflexivity|split; reflexivity].
Qed.

Example C12_example :
  shard_ids 7 9 4 = (2, 3) /\ shard_ids 7 9 8 = (4, 6) /\ shard_ids 1 2 4 = (0, 2) /\
  format_id 64151 = ".kismet_fa97"%string /\ format_id 3 = ".kismet_0003"%string /\
  format_id 1048576 = ".kismet_100000"%string.
Proof. vm_compute. repeat split. Qed.

(** "looked up from two distinct subdirectories": for arbitrary responses, a lookup or a touch
    in a sharded directory names exactly two paths - the key's name inside the shard directory
    of its primary candidate and inside that of its secondary candidate, the candidates being
    shard_ids (hash, secondary, n) - and no other: no third shard, no top-level file, no
    listing.  (Proofs/LookupShards.v) *)
From Kismet Require Import FS.Fs FS.Prog Spec.ClassMon Spec.Calm Proofs.LookupShards.
Import ListNotations.
Theorem C12_lookups_name_the_two_candidates_only : forall dir n t k,
  let '(a, b) := shard_ids (k_hash k) (k_sec k) n in
  let p1 := ((dir ++ [format_id a]) ++ [k_name k])%list in
  let p2 := ((dir ++ [format_id b]) ++ [k_name k])%list in
  allc (paths_ok (one_of p1 p2)) (sh_get dir n t k) anyc /\ allc (paths_ok (one_of p1 p2)) (sh_touch dir n t k) anyc.
Proof. exact sharded_lookups_name_two_paths. Qed.

Theorem C12_lookups_name_the_two_candidates_on_every_run : forall dir n t k w o,
  let '(a, b) := shard_ids (k_hash k) (k_sec k) n in
  let p1 := ((dir ++ [format_id a]) ++ [k_name k])%list in
  let p2 := ((dir ++ [format_id b]) ++ [k_name k])%list in
  let '(_, _, _, tr) := run (sh_get dir n t k) w o in
  Forall (fun ev => match ev with EvCall c _ => paths_ok (one_of p1 p2) c = true | _ => True end) tr.
Proof. exact sharded_lookups_name_two_paths_run. Qed.

Theorem C12_two_paths_class_meaning : forall p1 p2 q a, q <> p1 -> q <> p2 ->
  paths_ok (one_of p1 p2) (COpen q a) = false /\ paths_ok (one_of p1 p2) (COpenDir q) = false /\
  paths_ok (one_of p1 p2) (CStat q true) = false.
Proof. exact two_paths_meaning. Qed.

(** "only ever stored in two distinct subdirectories": for arbitrary responses, every rename or
    link issued by a set / put through a sharded directory - the publication, its retry after
    creating the directory, whatever maintenance of this or another shard does - has as its
    destination the key's name inside the shard directory of one of the key's two candidates.
    (Proofs/StoreShards.v) *)
From Kismet Require Import Proofs.StoreShards.
Theorem C12_writes_store_in_the_two_candidates_only : forall (which : bool) h dir n t k v,
  let '(a, b) := shard_ids (k_hash k) (k_sec k) n in
  let p1 := ((dir ++ [format_id a]) ++ [k_name k])%list in
  let p2 := ((dir ++ [format_id b]) ++ [k_name k])%list in
  allc (dst2 p1 p2) (sh_publish (if which then cd_set else cd_put) h dir n t k v) anyc.
Proof. exact sharded_writes_store_in_two_places. Qed.

Theorem C12_writes_store_in_the_two_candidates_on_every_run : forall (which : bool) h dir n t k v w o,
  let '(a, b) := shard_ids (k_hash k) (k_sec k) n in
  let p1 := ((dir ++ [format_id a]) ++ [k_name k])%list in
  let p2 := ((dir ++ [format_id b]) ++ [k_name k])%list in
  let '(_, _, _, tr) := run (sh_publish (if which then cd_set else cd_put) h dir n t k v) w o in
  Forall (fun ev => match ev with EvCall c _ => dst2 p1 p2 c = true | _ => True end) tr.
Proof. exact sharded_writes_store_in_two_places_run. Qed.

Theorem C12_destination_class_meaning : forall p1 p2 s q, q <> p1 -> q <> p2 ->
  dst2 p1 p2 (CRename s q) = false /\ dst2 p1 p2 (CLink s q) = false /\ dst2 p1 p2 (CRename s p1) = true /\
  dst2 p1 p2 (CLink s p2) = true /\ dst2 p1 p2 (CUnlink q) = true.
Proof. exact dst2_meaning. Qed.
