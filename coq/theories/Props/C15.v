(** C15 — Read-only caches are never modified.
    For arbitrary environment responses (every filesystem state, fault and
    interference), hence on every run:
    - the read-only API ([ro_get], [ro_touch]) issues NO path-naming mutating
      call at all (create, temp-file, chmod, rename, link, unlink, mkdir);
    - every path-naming mutating call of the stacked API names a path under the
      write cache's directory (or an ancestor of it: mkdir -p; or a path the
      caller handed in; or the system temp directory) — so, the read-only roots
      being disjoint from those, never a path under a read-only root.
    In the kernel model, on every sequential run with any injected fault, the
    read-only API and the stack's lookups and touches leave EVERY name bound as it
    was and EVERY file's contents as they were
    ([C15_read_only_api_changes_nothing], [C15_lookups_change_nothing]); with C09
    (no modification time changes) what remains is the access time, which the
    correspondence check follows on the implementation's traces and snapshots. *)
From Coq Require Import List NArith ZArith String Bool.
From Kismet Require Import FS.Fs FS.Prog Ops.Ops Spec.ClassMon Proofs.RejectProofs Spec.Confine Conc.Pool Conc.Effect Proofs.PoolLift Proofs.ReadsInert.
Import ListNotations.

Definition no_mutating_path_call (tr : list event) : Prop :=
  Forall (fun ev => match ev with EvCall c _ => mut_paths c = [] | _ => True end) tr.

Lemma nomut_empty c : nomut c = true -> mut_paths c = [].
Proof. unfold nomut. destruct (mut_paths c); [reflexivity|discriminate]. Qed.

Theorem C15_read_only_api_get : forall stack chk k,
  match chk with Some ck => chk_nm ck | None => True end ->
  forall w o, let '(_, _, _, tr) := run (ro_get stack chk k) w o in no_mutating_path_call tr.
Proof.
  intros stack chk k Hc w o. pose proof (allc_run _ _ _ (nm_ro_get stack chk k Hc) w o) as H.
  destruct (run _ w o) as [[[a w'] o'] tr]. destruct H as [_ H].
  eapply Forall_impl; [|exact H]. intros [] Hev; auto. apply nomut_empty, Hev.
Qed.

(** The same inside ANY pool of concurrent participants, under ANY schedule, at
    any point (finished or not): interference by others is just another environment. *)
Theorem C15_read_only_api_in_any_pool : forall stack chk k,
  match chk with Some ck => chk_nm ck | None => True end ->
  class_in_any_pool nomut (ro_get stack chk k) /\ class_in_any_pool nomut (ro_touch stack k).
Proof. intros stack chk k Hc. split; eapply allc_pool; [apply nm_ro_get, Hc|apply nm_ro_touch]. Qed.

Theorem C15_read_only_api_touch : forall stack k,
  forall w o, let '(_, _, _, tr) := run (ro_touch stack k) w o in no_mutating_path_call tr.
Proof.
  intros stack k w o. pose proof (allc_run _ _ _ (nm_ro_touch stack k) w o) as H.
  destruct (run _ w o) as [[[a w'] o'] tr]. destruct H as [_ H].
  eapply Forall_impl; [|exact H]. intros [] Hev; auto. apply nomut_empty, Hev.
Qed.

(** In the kernel model: names and contents, everywhere, are left as they were. *)
Theorem C15_read_only_api_changes_nothing : forall stack chk k w o, chko_rd chk ->
  (let '(_, w', _, _) := run (ro_get stack chk k) w o in
   (forall x, name_of (w_fs w') x = name_of (w_fs w) x) /\
   (forall i D, data (w_fs w) i = Some D -> i < next_ino (w_fs w) -> data (w_fs w') i = Some D)) /\
  (let '(_, w', _, _) := run (ro_touch stack k) w o in
   (forall x, name_of (w_fs w') x = name_of (w_fs w) x) /\
   (forall i D, data (w_fs w) i = Some D -> i < next_ino (w_fs w) -> data (w_fs w') i = Some D)).
Proof. intros stack chk k w o. exact (read_only_api_changes_nothing stack chk k w o). Qed.

Theorem C15_lookups_change_nothing : forall cfg k w o, chko_rd (s_checker cfg) ->
  (let '(_, w', _, _) := run (cache_get cfg k) w o in
   (forall x, name_of (w_fs w') x = name_of (w_fs w) x) /\
   (forall i D, data (w_fs w) i = Some D -> i < next_ino (w_fs w) -> data (w_fs w') i = Some D)) /\
  (let '(_, w', _, _) := run (cache_touch cfg k) w o in
   (forall x, name_of (w_fs w') x = name_of (w_fs w) x) /\
   (forall i D, data (w_fs w) i = Some D -> i < next_ino (w_fs w) -> data (w_fs w') i = Some D)).
Proof. intros cfg k w o. exact (reads_change_nothing cfg k w o). Qed.

(** Stacked API: given that nothing allowed (write directory, its ancestors,
    caller paths) lies under a read-only root, no mutating path call does. *)
Definition never_under (ro_roots : list path) (tr : list event) : Prop :=
  Forall (fun ev => match ev with EvCall c _ => forallb (fun p => negb (under ro_roots p)) (mut_paths c) = true | _ => True end) tr.

Lemma conf_never W extra ro_roots c :
  (forall p, allowed_path W extra p = true -> under ro_roots p = false) ->
  conf W extra c = true -> forallb (fun p => negb (under ro_roots p)) (mut_paths c) = true.
Proof.
  intros Hd Hc. unfold conf in Hc. rewrite forallb_forall in *. intros p Hp.
  rewrite (Hd p (Hc p Hp)). reflexivity.
Qed.

Section Stacked.
  Variables (W : path) (extra ro_roots : list path).
  Hypothesis disjoint : forall p, allowed_path W extra p = true -> under ro_roots p = false.

  Lemma lift {A} (p : prog A) : allc (conf W extra) p anyr ->
    forall w o, let '(_, _, _, tr) := run p w o in never_under ro_roots tr.
  Proof.
    intros H w o. pose proof (allc_run _ _ _ H w o) as Hr.
    destruct (run p w o) as [[[a w'] o'] tr]. destruct Hr as [_ Hr].
    eapply Forall_impl; [|exact Hr]. intros [] Hev; auto. eapply conf_never; eauto.
  Qed.

  Theorem C15_get : forall cfg k, cfg_conf W extra cfg ->
    forall w o, let '(_, _, _, tr) := run (cache_get cfg k) w o in never_under ro_roots tr.
  Proof. intros. apply lift, cf_cache_get; auto. Qed.
  Theorem C15_touch : forall cfg k,
    forall w o, let '(_, _, _, tr) := run (cache_touch cfg k) w o in never_under ro_roots tr.
  Proof. intros. apply lift, cf_cache_touch. Qed.
  Theorem C15_set : forall cfg k v, cfg_conf W extra cfg -> allowed_path W extra v = true ->
    forall w o, let '(_, _, _, tr) := run (cache_set cfg k v) w o in never_under ro_roots tr.
  Proof. intros. apply lift, cf_cache_set; auto. Qed.
  Theorem C15_put : forall cfg k v, cfg_conf W extra cfg -> allowed_path W extra v = true ->
    forall w o, let '(_, _, _, tr) := run (cache_put cfg k v) w o in never_under ro_roots tr.
  Proof. intros. apply lift, cf_cache_put; auto. Qed.
  Theorem C15_write_temp : forall b cfg k fd p, cfg_conf W extra cfg -> allowed_path W extra p = true ->
    forall w o, let '(_, _, _, tr) := run (cache_write_temp b cfg k fd p) w o in never_under ro_roots tr.
  Proof. intros. apply lift, cf_cache_write_temp; auto. Qed.
  (** ensure / get_or_update, promotion and replacement included *)
  Theorem C15_get_or_update : forall cfg k j pop, cfg_conf W extra cfg -> judge_cf W extra j -> pop_cf W extra pop ->
    forall w o, let '(_, _, _, tr) := run (get_or_update cfg k j pop) w o in never_under ro_roots tr.
  Proof. intros. apply lift, cf_get_or_update; auto. Qed.
End Stacked.

(** Non-vacuity: the standard layout (write cache "w", read-only "r0", "r1",
    staging area and system temp dir as caller paths) satisfies the hypotheses. *)
Example C15_layout_disjoint :
  forall p, allowed_path ["w"%string] [["stage"%string]; ["systmp"%string]] p = true ->
            under [["r0"%string]; ["r1"%string]] p = false.
Proof.
  intros p H. unfold allowed_path, under in *. cbn [existsb] in *.
  destruct p as [|x p]; [reflexivity|]. cbn [is_prefix] in *.
  destruct (String.eqb_spec "r0" x) as [<-|]; [cbn in H; destruct p; discriminate|].
  destruct (String.eqb_spec "r1" x) as [<-|]; [cbn in H; destruct p; discriminate|]. reflexivity.
Qed.

(** The premise about the checker holds of the library's byte-equality checkers
    and of the harness's counting checker. *)
Theorem C15_checkers_only_read : chk_rd Ops.Client.chk_byteeq /\ chk_rd Ops.Client.chk_panic /\ (forall b, chk_rd (Ops.Client.chk_count b)).
Proof. split; [exact chk_byteeq_rd|]. split; [exact chk_panic_rd|exact chk_count_rd]. Qed.
