(** C11 — Sequential histories behave like a key-value map. (interim) *)
From Coq Require Import List NArith ZArith String Bool.
From Kismet Require Import Ops.Ops Pure.Hash Proofs.HashProofs.
(** Whatever the load estimates say, a sharded write goes to one of the key's
    two shards: the one probed (second by load order) if the entry is there,
    else the first by load order. *)
Theorem C11_sorted_pair : forall hash sec n, let '(a, b) := shard_ids hash sec n in a <> b.
Proof. intros. pose proof (shard_ids_spec hash sec n) as H. cbv zeta in H. destruct (shard_ids hash sec n). destruct H as (_ & _ & H & _). exact H. Qed.
