(** C11 — Sequential histories behave like a key-value map with explainable evictions.

    Kernel-checked here, clause by clause.
    - "every lookup returns exactly the value a simple map predicts": in the
      kernel model, on every sequential run (any directory contents, any
      maintenance, any fault position unless stated): a successful plain [set]
      leaves the key's name bound to the inode its source named
      ([C11_set_binds]); a successful plain [put] leaves it bound to that inode
      or to exactly what it was bound to before, never anything else
      ([C11_put_binds], fault-free); a lookup changes no binding and, when it
      hits, returns a descriptor on the inode the name was bound to
      ([C11_get_reads]); fault-free, it misses only when the name is unbound
      ([C11_get_miss]); hence a lookup after a successful set returns the set's
      inode ([C11_set_then_get]).  What that inode contains is C01's subject.
    - "a miss only if the entry was evicted": every other entry of the
      directory keeps its binding or disappears, whatever the write does
      ([C11_others_keep_or_vanish]), and nothing disappears at all when the
      directory listed at most its capacity ([C11_no_eviction_within_capacity]);
      which entries maintenance removes when it does is C07 / C08 / C17.
    - "a sharded cache never holds two copies of one key": for arbitrary
      responses, a sharded write renames / links onto the key's secondary-shard
      path exactly when its probe of that path said the key is there, and onto
      the primary-shard path otherwise ([C11_one_copy]).
    - "a successful set or put always consumes its source": for arbitrary
      responses, success implies that after the accepted publication the source
      path was unlinked, successfully or finding it already gone
      ([C11_source_consumed]).
    - whole histories: ANY sequence of set / put / set_temp_file /
      put_temp_file / get / touch calls of the public API on a plain write cache, each run from the state its predecessor
      left and each under its own oracle (any fault, clock, trigger draw - hence
      any maintenance, and any number of handles, whose only private state is the
      trigger countdown the oracle replaces): every hit is a descriptor on an
      inode ALLOWED for that key - after a successful set exactly the set's
      source, a put or a failed set adding its own source - never a value written
      for another key, nor one that a later successful set replaced
      ([C11_history_refines_map]; directory level: [C11_directory_history]); and
      no call of the history writes file contents, so that inode holds what the
      source held ([C11_history_keeps_data]).
    - whole histories on a SHARDED cache (set, put, get; any oracles, any shard
      chosen, any shard maintained): every hit is a descriptor on an inode that was
      the source of a write to that key or was bound under that key's name when
      the history started - never another key's value, from whichever of the key's
      two shards it comes ([C11_sharded_history]); every other key's entry in every
      shard directory keeps its binding or vanishes
      ([C11_sharded_others_keep_or_vanish]).
    Histories over stacked handles, the exact "latest set" precision on sharded
    caches (per operation pair: [C11_sharded_set_then_get]), the "first put since
    the key was last absent" precision, and the attribution of every disappearance to a Second
    Chance eviction of an over-capacity directory, are decided by the
    differential history runs against the map oracle (vlib/c11.py). *)
From Coq Require Import List NArith ZArith String Bool Lia.
From Kismet Require Import Pure.Hash FS.Fs FS.Prog Spec.Wp Ops.Ops Conc.Effect Proofs.HashProofs Proofs.NeverMasked
  Proofs.KvFacts Seq.Plain Seq.Steps Seq.Bind Seq.Sane Proofs.KvSeq Proofs.KvShard Proofs.KvTemp Proofs.KvCap Proofs.KvHist Proofs.KvShardOthers Proofs.KvShardKey Proofs.ShardCap Pure.Trigger.
Import ListNotations.

Theorem C11_sorted_pair : forall hash sec n, let '(a, b) := shard_ids hash sec n in a <> b.
Proof. intros. pose proof (shard_ids_spec hash sec n) as H. cbv zeta in H. destruct (shard_ids hash sec n). destruct H as (_ & _ & H & _). exact H. Qed.

Theorem C11_set_binds : forall cfg dir cap k v i0 w o,
  s_writer cfg = Some (FPlain dir cap) ->
  plainp dir = true -> valid_name (k_name k) = true -> plainp v = true ->
  (forall q, v <> dir ++ q) -> (forall q, dir <> v ++ q) ->
  names_plain (w_fs w) -> name_of (w_fs w) v = Some i0 ->
  let '(r, w', _, _) := run (cache_set cfg k v) w o in
  is_ok r = true -> name_of (w_fs w') (dir ++ [k_name k]) = Some i0.
Proof. intros cfg dir cap k v i0 w o Hw Hb Hn Hv Ho Ha. exact (cache_set_binds cfg dir cap Hw k v Hb Hn Hv Ho Ha i0 w o). Qed.

Theorem C11_put_binds : forall cfg dir cap k v i0 j0 w o,
  s_writer cfg = Some (FPlain dir cap) ->
  plainp dir = true -> valid_name (k_name k) = true -> plainp v = true ->
  (forall q, v <> dir ++ q) -> (forall q, dir <> v ++ q) ->
  o_fault o = None -> names_plain (w_fs w) ->
  name_of (w_fs w) v = Some i0 -> name_of (w_fs w) (dir ++ [k_name k]) = j0 ->
  let '(r, w', _, _) := run (cache_put cfg k v) w o in
  is_ok r = true ->
  name_of (w_fs w') (dir ++ [k_name k]) = Some i0 \/ (name_of (w_fs w') (dir ++ [k_name k]) = j0 /\ j0 <> None).
Proof. intros cfg dir cap k v i0 j0 w o Hw Hb Hn Hv Ho Ha. exact (cache_put_binds cfg dir cap Hw k v Hb Hn Hv Ho Ha i0 j0 w o). Qed.

Theorem C11_get_reads : forall d name f0 w o,
  plainp (cd_base d) = true -> valid_name name = true -> w_fs w = f0 -> names_plain f0 ->
  let '(r, w', _, _) := run (cd_get d name) w o in
  (forall x, name_of (w_fs w') x = name_of f0 x) /\
  (forall fd, r = Ok (Some fd) -> fdino (w_fs w') fd = name_of f0 (cd_base d ++ [name]) /\ name_of f0 (cd_base d ++ [name]) <> None).
Proof. intros d name f0 w o Hb Hn. exact (plain_get_reads d name Hb Hn f0 w o). Qed.

Theorem C11_get_miss : forall d name f0 w o,
  valid_name name = true -> w_fs w = f0 -> o_fault o = None -> names_plain f0 ->
  resolve f0 (cd_base d ++ [name]) = inl (cd_base d ++ [name]) ->
  (forall i, name_of f0 (cd_base d ++ [name]) = Some i -> inode_of f0 i <> None) ->
  let '(r, _, _, _) := run (cd_get d name) w o in
  r = Ok None -> name_of f0 (cd_base d ++ [name]) = None.
Proof. intros d name f0 w o Hn. exact (plain_get_miss d name Hn f0 w o). Qed.

Theorem C11_set_then_get : forall d name v i0 w o o2,
  plainp (cd_base d) = true -> valid_name name = true -> plainp v = true ->
  (forall q, v <> cd_base d ++ q) -> (forall q, cd_base d <> v ++ q) ->
  names_plain (w_fs w) -> name_of (w_fs w) v = Some i0 ->
  let '(r, w1, _, _) := run (cd_set d name v) w o in
  is_ok r = true ->
  let '(r2, w2, _, _) := run (cd_get d name) w1 o2 in
  (forall fd, r2 = Ok (Some fd) -> fdino (w_fs w2) fd = Some i0) /\
  (o_fault o2 = None -> resolve (w_fs w1) (cd_base d ++ [name]) = inl (cd_base d ++ [name]) ->
   inode_of (w_fs w1) i0 <> None -> r2 <> Ok None).
Proof. exact set_then_get. Qed.

(** The same through the public stack API ([Cache::set] then [Cache::get]) for a
    plain write cache without read-only caches or checker. *)
Theorem C11_cache_set_then_get : forall cfg dir cap k v i0 w o o2,
  s_writer cfg = Some (FPlain dir cap) -> s_readers cfg = [] -> s_checker cfg = None ->
  plainp dir = true -> valid_name (k_name k) = true -> plainp v = true ->
  (forall q, v <> dir ++ q) -> (forall q, dir <> v ++ q) ->
  names_plain (w_fs w) -> name_of (w_fs w) v = Some i0 ->
  let '(r, w1, _, _) := run (cache_set cfg k v) w o in
  is_ok r = true ->
  let '(r2, w2, _, _) := run (cache_get cfg k) w1 o2 in
  forall fd, r2 = Ok (Some fd) -> fdino (w_fs w2) fd = Some i0.
Proof. intros cfg dir cap k v i0 w o o2 Hw Hr Hc Hb Hn Hv Ho Ha. exact (cache_set_then_get cfg dir cap Hw Hr Hc k Hb Hn v i0 w o o2 Hv Ho Ha). Qed.

(** ... down to the bytes: the hit's file holds exactly what the source file held
    when [set] was called (the write and lookup paths write no file contents). *)
Theorem C11_cache_set_then_get_bytes : forall cfg dir cap k v i0 D w o o2,
  s_writer cfg = Some (FPlain dir cap) -> s_readers cfg = [] -> s_checker cfg = None ->
  plainp dir = true -> valid_name (k_name k) = true -> plainp v = true ->
  (forall q, v <> dir ++ q) -> (forall q, dir <> v ++ q) ->
  names_plain (w_fs w) -> name_of (w_fs w) v = Some i0 ->
  data (w_fs w) i0 = Some D -> i0 < next_ino (w_fs w) ->
  let '(r, w1, _, _) := run (cache_set cfg k v) w o in
  is_ok r = true ->
  let '(r2, w2, _, _) := run (cache_get cfg k) w1 o2 in
  forall fd, r2 = Ok (Some fd) -> fdino (w_fs w2) fd = Some i0 /\ data (w_fs w2) i0 = Some D.
Proof. exact cache_set_then_get_bytes. Qed.

(** The temp-file API ([set_temp_file] / [put_temp_file]): the source is the
    caller's NamedTempFile, anywhere - typically inside the cache's own
    [.kismet_temp], where the maintenance that precedes the publication may even
    delete it (the call then fails): success still means the key's name is bound
    to the temp file's inode (put: or left on exactly its old binding). *)
Theorem C11_temp_file_api_binds : forall cfg dir cap k p fd (which : bool) i0 j0 w o,
  s_writer cfg = Some (FPlain dir cap) ->
  plainp dir = true -> valid_name (k_name k) = true -> plainp p = true ->
  p <> dir ++ [k_name k] -> (forall q, dir <> p ++ q) ->
  o_fault o = None -> names_plain (w_fs w) ->
  name_of (w_fs w) p = Some i0 -> name_of (w_fs w) (dir ++ [k_name k]) = j0 ->
  let '(r, w', _, _) := run (cache_write_temp which cfg k fd p) w o in
  is_ok r = true ->
  name_of (w_fs w') (dir ++ [k_name k]) = Some i0 \/ (which = false /\ name_of (w_fs w') (dir ++ [k_name k]) = j0 /\ j0 <> None).
Proof. intros cfg dir cap k p fd which i0 j0 w o Hw Hb Hn Hp Hpd Ha. exact (temp_file_api_binds cfg dir cap Hw k p fd which Hb Hn Hp Hpd Ha i0 j0 w o). Qed.

(** "Every disappearance of an entry is attributable to an eviction in a directory
    that exceeded its capacity": if the directory lists at most [cap] visible
    entries when a plain set / put starts, every other entry is bound afterwards
    exactly as before (fault-free, listing in kernel order). *)
Theorem C11_no_eviction_within_capacity : forall d name v (which : bool) f0 w o,
  plainp (cd_base d) = true -> valid_name name = true -> plainp v = true -> (forall q, v <> cd_base d ++ q) ->
  w_fs w = f0 -> o_fault o = None -> o_orders o = [] -> names_plain f0 ->
  (N.of_nat (List.length (visible (children f0 (cd_base d)))) <= cd_cap d)%N ->
  let '(_, w', _, _) := run (cd_publish (if which then insert_or_update else insert_or_touch) d name v) w o in
  forall n, n <> name -> name_of (w_fs w') (cd_base d ++ [n]) = name_of f0 (cd_base d ++ [n]).
Proof. intros d name v which f0 w o Hb Hn Hv Ho. exact (no_eviction_within_capacity d name v which Hb Hn Hv Ho f0 w o). Qed.

Theorem C11_others_keep_or_vanish : forall d name v (which : bool) f0 w o,
  plainp (cd_base d) = true -> valid_name name = true -> plainp v = true -> w_fs w = f0 -> names_plain f0 ->
  let '(_, w', _, _) := run (cd_publish (if which then insert_or_update else insert_or_touch) d name v) w o in
  forall n, n <> name ->
    name_of (w_fs w') (cd_base d ++ [n]) = name_of f0 (cd_base d ++ [n]) \/ name_of (w_fs w') (cd_base d ++ [n]) = None.
Proof. intros d name v which f0 w o Hb Hn Hv. exact (others_keep_or_vanish d name v Hb Hn Hv f0 which w o). Qed.

Theorem C11_sharded_set_binds : forall dir nsh total k v h i0 w o,
  plainp dir = true -> valid_name (k_name k) = true -> plainp v = true ->
  (forall q, v <> dir ++ q) -> (forall q, dir <> v ++ q) ->
  (eff_shards nsh <= TWO64)%N ->
  names_plain (w_fs w) -> name_of (w_fs w) v = Some i0 ->
  let '(a, b) := shard_ids (k_hash k) (k_sec k) nsh in
  let '(r, w', _, _) := run (sh_publish cd_set h dir nsh total k v) w o in
  is_ok r = true ->
  exists sid, (sid = a \/ sid = b) /\
    (name_of (w_fs w') ((dir ++ [format_id sid]) ++ [k_name k]) = Some i0 \/
     name_of (w_fs w') ((dir ++ [format_id sid]) ++ [k_name k]) = None).
Proof.
  intros dir nsh total k v h i0 w o Hd Hn Hv Ho Ha Hsz Hpl Hv0.
  pose proof (shard_ids_spec (k_hash k) (k_sec k) nsh) as Hs. cbv zeta in Hs.
  destruct (shard_ids (k_hash k) (k_sec k) nsh) as [a b] eqn:Hids. destruct Hs as (Hla & Hlb & Hne & _).
  assert (Hab : format_id a <> format_id b) by (intros He; apply Hne; apply format_id_injective; [lia|lia|exact He]).
  exact (sharded_set_binds dir nsh total k v Hd Hn Hv Ho Ha a b Hab Hids i0 h w o Hpl Hv0).
Qed.

(** Sharded lookups and "no stale read from the alternate shard": given at most
    one copy of the key before (and bound entries reachable), a successful sharded
    set leaves each of the two shard paths bound to the source's inode or unbound,
    at most one of them bound; a sharded lookup's hit is a descriptor on what one
    of the two paths was bound to; so a lookup after the set never returns an
    older value. *)
Theorem C11_sharded_get_reads : forall dir nsh total k f0 w o,
  plainp dir = true -> valid_name (k_name k) = true -> w_fs w = f0 -> names_plain f0 ->
  let '(a, b) := shard_ids (k_hash k) (k_sec k) nsh in
  let dstp sid := cd_base (shard_cdir dir nsh total sid) ++ [k_name k] in
  let '(r, w', _, _) := run (sh_get dir nsh total k) w o in
  (forall x, name_of (w_fs w') x = name_of f0 x) /\
  (forall fd, r = Ok (Some fd) ->
     (fdino (w_fs w') fd = name_of f0 (dstp a) \/ fdino (w_fs w') fd = name_of f0 (dstp b)) /\ fdino (w_fs w') fd <> None).
Proof.
  intros dir nsh total k f0 w o Hd Hn Hw Hpl. destruct (shard_ids (k_hash k) (k_sec k) nsh) as [a b] eqn:Hids.
  exact (sharded_get_reads dir nsh total k Hd Hn a b Hids f0 w o Hw Hpl).
Qed.

Theorem C11_sharded_set_then_get : forall dir nsh total k v h i0 w o o2,
  plainp dir = true -> valid_name (k_name k) = true -> plainp v = true ->
  (forall q, v <> dir ++ q) -> (forall q, dir <> v ++ q) -> (eff_shards nsh <= TWO64)%N ->
  let '(a, b) := shard_ids (k_hash k) (k_sec k) nsh in
  let dstp sid := cd_base (shard_cdir dir nsh total sid) ++ [k_name k] in
  o_fault o = None -> names_plain (w_fs w) -> name_of (w_fs w) v = Some i0 ->
  (name_of (w_fs w) (dstp a) = None \/ name_of (w_fs w) (dstp b) = None) ->
  (forall sid i, sid = a \/ sid = b -> name_of (w_fs w) (dstp sid) = Some i ->
     resolve (w_fs w) (dstp sid) = inl (dstp sid) /\ inode_of (w_fs w) i <> None) ->
  let '(r, w1, _, _) := run (sh_publish cd_set h dir nsh total k v) w o in
  is_ok r = true ->
  ((forall sid, sid = a \/ sid = b -> name_of (w_fs w1) (dstp sid) = Some i0 \/ name_of (w_fs w1) (dstp sid) = None) /\
   (name_of (w_fs w1) (dstp a) = None \/ name_of (w_fs w1) (dstp b) = None)) /\
  let '(r2, w2, _, _) := run (sh_get dir nsh total k) w1 o2 in
  forall fd, r2 = Ok (Some fd) -> fdino (w_fs w2) fd = Some i0.
Proof.
  intros dir nsh total k v h i0 w o o2 Hd Hn Hv Ho Ha Hsz.
  pose proof (shard_ids_spec (k_hash k) (k_sec k) nsh) as Hs. cbv zeta in Hs.
  destruct (shard_ids (k_hash k) (k_sec k) nsh) as [a b] eqn:Hids. destruct Hs as (Hla & Hlb & Hne & _).
  assert (Hab : format_id a <> format_id b) by (intros He; apply Hne; apply format_id_injective; [lia|lia|exact He]).
  intros dstp Hnf Hpl Hv0 Hone Hreach.
  pose proof (sharded_set_no_stale dir nsh total k Hd Hn a b Hab Hids (w_fs w) v Hv Ho Ha Hone Hreach h i0 w o eq_refl Hnf Hpl Hv0) as H1.
  pose proof (sharded_set_then_get dir nsh total k v a b h i0 w o o2 Hd Hn Hv Ho Ha Hab Hids Hnf Hpl Hv0 Hone Hreach) as H2.
  destruct (run (sh_publish cd_set h dir nsh total k v) w o) as [[[r w1] o1] tr1]. intros Hok. split; [exact (H1 Hok)|exact (H2 Hok)].
Qed.

Theorem C11_sharded_put_keeps : forall dir nsh total k v h i0 f0 w o,
  plainp dir = true -> valid_name (k_name k) = true -> plainp v = true ->
  (forall q, v <> dir ++ q) -> (forall q, dir <> v ++ q) -> (eff_shards nsh <= TWO64)%N ->
  let '(a, b) := shard_ids (k_hash k) (k_sec k) nsh in
  let dstp sid := cd_base (shard_cdir dir nsh total sid) ++ [k_name k] in
  w_fs w = f0 -> o_fault o = None -> names_plain f0 -> name_of f0 v = Some i0 ->
  (name_of f0 (dstp a) = None \/ name_of f0 (dstp b) = None) ->
  (forall sid i, sid = a \/ sid = b -> name_of f0 (dstp sid) = Some i -> resolve f0 (dstp sid) = inl (dstp sid) /\ inode_of f0 i <> None) ->
  let '(r, w', _, _) := run (sh_publish cd_put h dir nsh total k v) w o in
  is_ok r = true ->
  (forall sid, sid = a \/ sid = b ->
     name_of (w_fs w') (dstp sid) = Some i0 \/ name_of (w_fs w') (dstp sid) = name_of f0 (dstp sid) \/ name_of (w_fs w') (dstp sid) = None) /\
  (name_of (w_fs w') (dstp a) = None \/ name_of (w_fs w') (dstp b) = None).
Proof.
  intros dir nsh total k v h i0 f0 w o Hd Hn Hv Ho Ha Hsz.
  pose proof (shard_ids_spec (k_hash k) (k_sec k) nsh) as Hs. cbv zeta in Hs.
  destruct (shard_ids (k_hash k) (k_sec k) nsh) as [a b] eqn:Hids. destruct Hs as (Hla & Hlb & Hne & _).
  assert (Hab : format_id a <> format_id b) by (intros He; apply Hne; apply format_id_injective; [lia|lia|exact He]).
  intros dstp Hw Hnf Hpl Hv0 Hone Hreach.
  exact (sharded_put_keeps dir nsh total k Hd Hn a b Hab Hids f0 v Hv Ho Ha Hone Hreach i0 Hv0 h w o Hw Hnf Hpl).
Qed.

Theorem C11_one_copy : forall (which : bool) dir h n t k v,
  (eff_shards n <= TWO64)%N ->
  forall s, wp (t_step dir (k_name k)) (sh_publish (if which then cd_set else cd_put) h dir n t k v) (fun _ _ => True) s.
Proof. exact sequential_writer_targets_the_probed_copy. Qed.

Theorem C11_one_copy_on_every_run : forall (which : bool) dir h n t k v w o,
  (eff_shards n <= TWO64)%N ->
  let '(_, _, _, tr) := run (sh_publish (if which then cd_set else cd_put) h dir n t k v) w o in
  exists s', mon_run (t_step dir (k_name k)) None tr = Some s'.
Proof. exact targets_the_probed_copy_on_every_run. Qed.

Theorem C11_source_consumed : forall cfg k v,
  consumes v (cache_set cfg k v) /\ consumes v (cache_put cfg k v).
Proof. intros. split; [apply consumes_cache_set|apply consumes_cache_put]. Qed.

Theorem C11_source_consumed_on_every_run : forall cfg k v w o,
  let '(r, _, _, tr) := run (cache_set cfg k v) w o in is_ok r = true -> mon_run (c_step v) 0%nat tr = Some 2%nat.
Proof. intros cfg k v w o. exact (success_means_source_consumed v _ (consumes_cache_set v cfg k) w o). Qed.

(** Non-vacuity: a directory "w" holding key "a" (inode 2) and "b" (inode 3), a
    value file "v" (inode 4).  The premises of the theorems hold of this state;
    set "a" <- "v" succeeds and binds w/a to inode 4, leaves w/b on inode 3 and
    consumes "v"; the following get returns a descriptor on inode 4; the same
    with put leaves w/a on inode 2. *)
Example C11_example :
  let mk (f : fs) (p : path) (c : N) :=
    let '(f1, i) := alloc_inode f (mkInode false [c] 292 100%Z 50%Z 1 true) in
    set_names f1 ((p, i) :: names f1) in
  let '(f0, d) := alloc_inode empty_fs (mkInode true [] 493 0%Z 0%Z 2 true) in
  let f0 := set_names f0 ((["w"%string], d) :: names f0) in
  let f := mk (mk (mk f0 ["w"; "a"]%string 65%N) ["w"; "b"]%string 67%N) ["v"%string] 66%N in
  let cfg := mkStack 0 (Some (FPlain ["w"%string] 300)) [] None false ["systmp"%string] in
  let o := mkOracle [1000; 1001; 1002]%Z [18446744073709551615%N] [] [] [] None 0 1%Z Relatime in
  let go (which : bool) :=
    let '(r, w1, _, _) := run ((if which then cache_set else cache_put) cfg (mkKey "a"%string 1 2) ["v"%string]) (mkWorld f 0 []) o in
    let '(r2, w2, _, _) := run (cache_get cfg (mkKey "a"%string 1 2)) w1 o in
    (r, name_of (w_fs w1) ["w"; "a"]%string, name_of (w_fs w1) ["w"; "b"]%string, name_of (w_fs w1) ["v"%string],
     match r2 with Ok (Some fd) => fdino (w_fs w2) fd | _ => None end) in
  (forallb (fun pi => plainp (fst pi)) (names f) = true /\ plainp ["w"%string] = true /\ valid_name "a" = true /\
   name_of f ["v"%string] = Some 4%nat /\ name_of f ["w"; "a"]%string = Some 2%nat) /\
  go true = (Ok tt, Some 4%nat, Some 3%nat, None, Some 4%nat) /\
  go false = (Ok tt, Some 2%nat, Some 3%nat, None, Some 2%nat).
Proof. vm_compute. repeat split; reflexivity. Qed.

(** Whole histories of the public API on a plain write cache (no read-only
    caches, no checker).  [shist] spells out, call by call, what is guaranteed:
    for a get, every hit's inode is in the key's allowed list; for a set, success
    means the source existed and the key is now bound to its inode, and the
    allowed list becomes exactly that inode; a put (or a failed set) adds its
    source to the list. *)
Theorem C11_history_refines_map : forall cfg dir cap ops os w al,
  s_writer cfg = Some (FPlain dir cap) -> s_readers cfg = [] -> s_checker cfg = None -> plainp dir = true ->
  Forall (sop_wf dir) ops -> names_plain (w_fs w) -> HInv (plain_cdir dir cap) al (w_fs w) ->
  shist cfg dir ops os w al.
Proof. intros cfg dir cap ops os w al Hw Hr Hc Hb. exact (stack_history_refines_map cfg dir cap Hw Hr Hc Hb ops os w al). Qed.

(** ... from ANY start state, with the canonical abstraction of what the directory holds. *)
Theorem C11_history_from_any_state : forall cfg dir cap ops os w,
  s_writer cfg = Some (FPlain dir cap) -> s_readers cfg = [] -> s_checker cfg = None -> plainp dir = true ->
  Forall (sop_wf dir) ops -> names_plain (w_fs w) ->
  shist cfg dir ops os w (al_of (plain_cdir dir cap) (w_fs w)).
Proof.
  intros cfg dir cap ops os w Hw Hr Hc Hb Hwf Hpl.
  exact (stack_history_refines_map cfg dir cap Hw Hr Hc Hb ops os w _ Hwf Hpl (HInv_al_of (plain_cdir dir cap) (w_fs w))).
Qed.

(** What [shist] says, on a short history that crosses two keys and both write
    APIs (a path-based set, then a put_temp_file of another key, then a lookup): *)
Theorem C11_history_unfolded : forall cfg dir ka kb va vb fdb o1 o2 o3 w al,
  shist cfg dir [SWrite WSet ka va; SWrite (WTempPut fdb) kb vb; SGet ka] [o1; o2; o3] w al =
  (let src := name_of (w_fs w) va in
   let '(r, w1, _, _) := run (cache_set cfg ka va) w o1 in
   (true = true -> is_ok r = true -> src <> None /\ name_of (w_fs w1) (dir ++ [k_name ka]) = src) /\
   let al1 := upd al (k_name ka) (if (true && is_ok r)%bool then olist src else olist src ++ al (k_name ka)) in
   let src2 := name_of (w_fs w1) vb in
   let '(r2, w2, _, _) := run (cache_write_temp false cfg kb fdb vb) w1 o2 in
   (false = true -> is_ok r2 = true -> src2 <> None /\ name_of (w_fs w2) (dir ++ [k_name kb]) = src2) /\
   let al2 := upd al1 (k_name kb) (if (false && is_ok r2)%bool then olist src2 else olist src2 ++ al1 (k_name kb)) in
   let '(r3, w3, _, _) := run (cache_get cfg ka) w2 o3 in
   (forall fd, r3 = Ok (Some fd) -> exists i, fdino (w_fs w3) fd = Some i /\ In i (al2 (k_name ka))) /\ True).
Proof. reflexivity. Qed.

Theorem C11_history_keeps_data : forall cfg ops os w i D,
  s_checker cfg = None ->
  data (w_fs w) i = Some D -> i < next_ino (w_fs w) ->
  data (w_fs (srun cfg ops os w)) i = Some D.
Proof. intros cfg ops os w i D Hc HD Hi. exact (proj1 (stack_history_keeps_data cfg Hc ops os w i D HD Hi)). Qed.

(** The same one level down, on a cache directory (the plain cache's own API). *)
Theorem C11_directory_history : forall d ops os w al,
  plainp (cd_base d) = true -> Forall (hop_wf d) ops -> names_plain (w_fs w) -> HInv d al (w_fs w) -> hist d ops os w al.
Proof. intros d ops os w al Hb. exact (history_refines_map d Hb ops os w al). Qed.

(** A corollary crossing three calls and two keys: after a successful set of [a],
    whatever a later write to another key does (its maintenance included), a
    lookup of [a] hits the value set for [a] or misses. *)
Theorem C11_set_other_get : forall d a b va vb w o1 o2 o3,
  plainp (cd_base d) = true ->
  a <> b -> hop_wf d (HSet a va) -> hop_wf d (HSet b vb) -> names_plain (w_fs w) ->
  let '(r1, w1, _, _) := run (cd_set d a va) w o1 in
  is_ok r1 = true ->
  let '(r2, w2, _, _) := run (cd_set d b vb) w1 o2 in
  let '(r3, w3, _, _) := run (cd_get d a) w2 o3 in
  forall fd, r3 = Ok (Some fd) -> fdino (w_fs w3) fd = name_of (w_fs w) va.
Proof. intros d a b va vb w o1 o2 o3 Hb. exact (set_other_get d Hb a b va vb w o1 o2 o3). Qed.

(** Non-vacuity of the history theorem: the directory of [C11_example] plus a
    second value file "u" (inode 5); the history
    [set a <- v; put b <- u; touch a; get a; get b].  Its premises hold, every
    call succeeds, and the two lookups return inode 4 (the set's source) and
    inode 3 (b's old entry, which the put left alone). *)
Example C11_history_example :
  let mk (f : fs) (p : path) (c : N) :=
    let '(f1, i) := alloc_inode f (mkInode false [c] 292 100%Z 50%Z 1 true) in
    set_names f1 ((p, i) :: names f1) in
  let '(f0, d) := alloc_inode empty_fs (mkInode true [] 493 0%Z 0%Z 2 true) in
  let f0 := set_names f0 ((["w"%string], d) :: names f0) in
  let f := mk (mk (mk (mk f0 ["w"; "a"]%string 65%N) ["w"; "b"]%string 67%N) ["v"%string] 66%N) ["u"%string] 68%N in
  let cfg := mkStack 0 (Some (FPlain ["w"%string] 300)) [] None false ["systmp"%string] in
  let o := mkOracle [1000; 1001; 1002]%Z [18446744073709551615%N] [] [] [] None 0 1%Z Relatime in
  let ka := mkKey "a"%string 1 2 in let kb := mkKey "b"%string 3 4 in
  let ops := [SWrite WSet ka ["v"%string]; SWrite WPut kb ["u"%string]; STouch ka; SGet ka; SGet kb] in
  let w := mkWorld f 0 [] in
  let w3 := srun cfg (firstn 3 ops) [o; o; o] w in
  let '(ra, wa, _, _) := run (cache_get cfg ka) w3 o in
  let '(rb, wb, _, _) := run (cache_get cfg kb) wa o in
  (forallb (fun pi => plainp (fst pi)) (names f) = true /\
   forallb (fun op => match op with
                      | SWrite _ k v => (valid_name (k_name k) && plainp v && negb (path_eqb v (["w"%string] ++ [k_name k])))%bool
                      | SGet k | STouch k => valid_name (k_name k) end) ops = true /\
   name_of f ["v"%string] = Some 4%nat /\ name_of f ["u"%string] = Some 5%nat /\
   name_of f ["w"; "a"]%string = Some 2%nat /\ name_of f ["w"; "b"]%string = Some 3%nat) /\
  match ra with Ok (Some fd) => fdino (w_fs wa) fd | _ => None end = Some 4%nat /\
  match rb with Ok (Some fd) => fdino (w_fs wb) fd | _ => None end = Some 3%nat /\
  name_of (w_fs wb) ["v"%string] = None /\ name_of (w_fs wb) ["u"%string] = None.
Proof. vm_compute. repeat split; reflexivity. Qed.

(** A sharded set / put, successful or not, under any fault, whatever shard it
    chooses and whichever shard it then maintains: the entry of every OTHER key
    in every shard directory keeps its binding or disappears - a sharded write
    never binds another key's name. *)
Theorem C11_sharded_others_keep_or_vanish : forall dir nsh total k v (which : bool) h n j f0 w o,
  plainp dir = true -> valid_name (k_name k) = true -> plainp v = true -> (forall q, v <> dir ++ q) ->
  valid_name n = true -> n <> k_name k ->
  w_fs w = f0 -> names_plain f0 ->
  let x := (dir ++ [format_id j]) ++ [n] in
  let '(_, w', _, _) := run (sh_publish (if which then cd_set else cd_put) h dir nsh total k v) w o in
  name_of (w_fs w') x = name_of f0 x \/ name_of (w_fs w') x = None.
Proof.
  intros dir nsh total k v which h n j f0 w o Hd Hk Hv Hout Hn Hne Hw Hpl x.
  assert (Hx : plainp x = true) by (apply (dst_plain (shard_cdir dir nsh total j) n); [apply (dcd_plain dir nsh total Hd)|exact Hn]).
  assert (Hxv : x <> v) by (intros E; unfold x in E; rewrite <- app_assoc in E; exact (Hout _ (eq_sym E))).
  assert (Hxd : forall sid, x <> cd_base (shard_cdir dir nsh total sid) ++ [k_name k]).
  { intros sid E. unfold x in E. cbn [cd_base shard_cdir] in E. apply app_inj_tail in E. destruct E as (_ & E). contradiction. }
  assert (Hxl : List.length dir + 1 < List.length x) by (unfold x; rewrite !app_length; cbn; lia).
  exact (sharded_others_keep_or_vanish dir nsh total k v Hd Hk Hv x Hx Hxv Hxd Hxl f0 which h w o Hw Hpl).
Qed.

(** ... and ANY entry of any shard directory - the key's own candidate entries in
    particular - ends bound to what it was bound to, to nothing, or to the inode
    the source named, whatever shard was chosen, under any fault. *)
Theorem C11_sharded_entry_old_none_or_source : forall dir nsh total k v (which : bool) h n j i0 w o,
  plainp dir = true -> valid_name (k_name k) = true -> plainp v = true ->
  (forall q, v <> dir ++ q) -> (forall q, dir <> v ++ q) -> valid_name n = true ->
  names_plain (w_fs w) -> (name_of (w_fs w) v = Some i0 \/ name_of (w_fs w) v = None) ->
  let y := (dir ++ [format_id j]) ++ [n] in
  let '(_, w', _, _) := run (sh_publish (if which then cd_set else cd_put) h dir nsh total k v) w o in
  name_of (w_fs w') y = name_of (w_fs w) y \/ name_of (w_fs w') y = None \/ name_of (w_fs w') y = Some i0.
Proof.
  intros dir nsh total k v which h n j i0 w o Hd Hk Hv Hout Hnanc Hn Hpl Hs y.
  assert (Hy : plainp y = true) by (apply (dst_plain (shard_cdir dir nsh total j) n); [apply (dcd_plain dir nsh total Hd)|exact Hn]).
  assert (Hyv : y <> v) by (intros E; unfold y in E; rewrite <- app_assoc in E; exact (Hout _ (eq_sym E))).
  assert (Hyl : List.length dir + 1 < List.length y) by (unfold y; rewrite !app_length; cbn; lia).
  exact (sharded_entry_old_none_or_source dir nsh total k v Hd Hk Hv Hout Hnanc y Hy Hyv Hyl i0 _ which h w o Hpl Hs eq_refl).
Qed.

(** Whole histories on a sharded cache directory. *)
Theorem C11_sharded_history : forall dir nsh total h ops os w al,
  plainp dir = true -> Forall (shop_wf dir) ops -> names_plain (w_fs w) -> HInvS dir al (w_fs w) ->
  shhist dir nsh total h ops os w al.
Proof. intros dir nsh total h ops os w al Hd. exact (sharded_history_refines_map dir nsh total h Hd ops os w al). Qed.

(** ... from ANY start state, with the canonical abstraction of what it holds. *)
Theorem C11_sharded_history_from_any_state : forall dir nsh total h ops os w,
  plainp dir = true -> Forall (shop_wf dir) ops -> names_plain (w_fs w) ->
  shhist dir nsh total h ops os w (al_of_names (w_fs w)).
Proof.
  intros dir nsh total h ops os w Hd Hwf Hpl.
  exact (sharded_history_refines_map dir nsh total h Hd ops os w _ Hwf Hpl (HInvS_al_of_names dir (w_fs w))).
Qed.

(** The same through the public stack API over a sharded write cache: set, put,
    set_temp_file, put_temp_file, get, touch. *)
Theorem C11_public_api_history_sharded : forall cfg dir nsh total ops os w,
  s_writer cfg = Some (FSharded dir nsh total) -> s_readers cfg = [] -> s_checker cfg = None -> plainp dir = true ->
  Forall (ssop_wf dir) ops -> names_plain (w_fs w) ->
  sshist cfg ops os w (al_of_names (w_fs w)).
Proof.
  intros cfg dir nsh total ops os w Hw Hr Hc Hd Hwf Hpl.
  exact (stack_sharded_history_refines_map cfg dir nsh total Hw Hr Hc Hd ops os w _ Hwf Hpl (HInvS_al_of_names dir (w_fs w))).
Qed.

(** What [shhist] says on [set a <- v; put b <- u; get a]: *)
Theorem C11_sharded_history_unfolded : forall dir nsh total h ka kb va vb o1 o2 o3 w al,
  shhist dir nsh total h [ShWrite true ka va; ShWrite false kb vb; ShGet ka] [o1; o2; o3] w al =
  (let src := name_of (w_fs w) va in
   let '(_, w1, _, _) := run (sh_publish cd_set h dir nsh total ka va) w o1 in
   let al1 := upd al (k_name ka) (olist src ++ al (k_name ka)) in
   let src2 := name_of (w_fs w1) vb in
   let '(_, w2, _, _) := run (sh_publish cd_put h dir nsh total kb vb) w1 o2 in
   let al2 := upd al1 (k_name kb) (olist src2 ++ al1 (k_name kb)) in
   let '(r3, w3, _, _) := run (sh_get dir nsh total ka) w2 o3 in
   (forall fd, r3 = Ok (Some fd) -> exists i, fdino (w_fs w3) fd = Some i /\ In i (al2 (k_name ka))) /\ True).
Proof. reflexivity. Qed.

(** Non-vacuity, sharded: two shards; the key's copy (inode 4, old value) lives in
    its SECONDARY shard, the primary shard is the less loaded one.  The set
    replaces the copy where it is (no second copy), and the lookup returns the
    new inode 5. *)
Example C11_sharded_example :
  let mk (f : fs) (p : path) (c : N) :=
    let '(f1, i) := alloc_inode f (mkInode false [c] 292 100%Z 50%Z 1 true) in
    set_names f1 ((p, i) :: names f1) in
  let mkd (f : fs) (p : path) :=
    let '(f1, i) := alloc_inode f (mkInode true [] 493 0%Z 0%Z 2 true) in
    set_names f1 ((p, i) :: names f1) in
  let k := mkKey "a"%string 1 2 in
  let '(a, b) := shard_ids (k_hash k) (k_sec k) 2 in
  let da := ["w"%string; format_id a] in let db := ["w"%string; format_id b] in
  let f := mk (mk (mkd (mkd (mkd empty_fs ["w"%string]) da) db) (db ++ ["a"%string]) 65%N) ["v"%string] 66%N in
  let o := mkOracle [1000; 1001; 1002]%Z [18446744073709551615%N] [0%N] [] [] None 0 1%Z Relatime in
  let '(r, w1, _, _) := run (sh_publish cd_set 0 ["w"%string] 2 100 k ["v"%string]) (mkWorld f 0 []) o in
  let '(r2, w2, _, _) := run (sh_get ["w"%string] 2 100 k) w1 o in
  (a <> b /\ name_of f (db ++ ["a"%string]) = Some 4%nat /\ name_of f (da ++ ["a"%string]) = None /\ name_of f ["v"%string] = Some 5%nat) /\
  r = Ok tt /\ name_of (w_fs w1) (da ++ ["a"%string]) = None /\ name_of (w_fs w1) (db ++ ["a"%string]) = Some 5%nat /\
  match r2 with Ok (Some fd) => fdino (w_fs w2) fd = Some 5%nat | _ => False end.
Proof. vm_compute. repeat split; try reflexivity. discriminate. Qed.

(** "explainable evictions" in a sharded cache are judged against each shard's
    capacity: it is the declared total (raised to the number of shards, itself at
    least two) divided by the number of shards and rounded UP - at least one, enough
    for the shards together to hold the total, and the least such capacity. *)
Theorem C11_shard_capacity_is_the_quotient_rounded_up : forall n total,
  let n' := sharded_num_shards n in
  let t := sharded_total n total in
  let c := sharded_shard_capacity n total in
  (1 <= c /\ t <= n' * c /\ n' * (c - 1) < t)%N.
Proof. exact shard_capacity_is_ceiling. Qed.

Theorem C11_shards_cover_the_declared_total : forall n total,
  (total <= sharded_num_shards n * sharded_shard_capacity n total)%N.
Proof. exact shards_cover_the_declared_total. Qed.

Example C11_shard_capacity_example :
  sharded_shard_capacity 4 9 = 3%N /\ sharded_shard_capacity 3 10 = 4%N /\ sharded_shard_capacity 4 8 = 2%N /\
  sharded_shard_capacity 4 1 = 1%N /\ sharded_shard_capacity 0 5 = 3%N.
Proof. vm_compute. repeat split. Qed.
