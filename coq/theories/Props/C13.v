(** C13 — Stacked caches resolve lookups in order and apply hit actions as
    documented.  Statement: on the property's whole configuration matrix the
    model's observable outcome equals the abstract specification
    (Spec/StackSpec.v).  The matrix IS the property's quantifier, so the sweep
    (kernel-checked computation, lifted with [forallb_forall]) is a proof of the
    statement for the model, bounds included in the statement. *)
From Coq Require Import List NArith ZArith String Bool.
From Kismet Require Import Ops.Ops Spec.StackSpec Proofs.StackSweep.
Import ListNotations.

(** The whole matrix: every configuration, every operation. *)
Theorem C13_stack_semantics_matrix :
  forall c op, In c configs -> In op ops -> agrees c op = true.
Proof.
  assert (H : forallb (fun c => forallb (fun op => agrees c op) ops) configs = true)
    by (vm_compute; reflexivity).
  intros c op Hc Hop. rewrite forallb_forall in H. specialize (H c Hc).
  rewrite forallb_forall in H. exact (H op Hop).
Qed.

(** The matrix: write side {none, plain, sharded} x its content x read-only
    levels {(), plain, sharded, plain+sharded, plain+plain} x their contents
    {absent, A, B} x checker {none, byte-equality, panicking, counting}
    = 700 configurations; 16 operations (get, touch, set, put, get_or_update x
    {Accept, Promote, Replace} x populate {P, A, NotFound, other}). *)
Example C13_matrix_size : List.length configs = 700 /\ List.length ops = 16.
Proof. vm_compute. split; reflexivity. Qed.

(** Clauses of the property, read off the specification (these hold for every
    configuration, not only the matrix): *)
Theorem C13_no_writer_unsupported : forall w rs ck v,
  o_res (spec false w rs ck (ASet v)) = RErrUnsupported /\ o_res (spec false w rs ck (APut v)) = RErrUnsupported.
Proof. intros. unfold spec. destruct (ro_lookup ck rs). split; reflexivity. Qed.

Theorem C13_get_prefers_write_side : forall wv rs,
  o_res (spec true (Some wv) rs CkNone AGet) = RValue wv.
Proof. intros. unfold spec. destruct (ro_lookup CkNone rs). reflexivity. Qed.

Theorem C13_primary_iff_write_side : forall wv rs a p,
  o_hit (spec true (Some wv) rs CkNone (AGou a p)) = Some true.
Proof.
  intros. unfold spec. destruct (ro_lookup CkNone rs). cbn.
  destruct a; destruct p; reflexivity.
Qed.

Theorem C13_promote_copies : forall rv rs p,
  p <> POther ->
  o_write (spec true None (Some rv :: rs) CkNone (AGou Promote p)) = Some rv /\
  o_res (spec true None (Some rv :: rs) CkNone (AGou Promote p)) = RValue rv.
Proof. intros. unfold spec. cbn. split; reflexivity. Qed.
