(** C13 — Stacked caches resolve lookups in order and apply hit actions as
    documented.  Statement: on the property's whole configuration matrix the
    model's observable outcome equals the abstract specification
    (Spec/StackSpec.v).  The matrix IS the property's quantifier, so the sweep
    (kernel-checked computation, lifted with [forallb_forall]) is a proof of the
    statement for the model, bounds included in the statement.
    Beyond the matrix, for stacks of ANY depth and any mix of plain and sharded
    levels and for arbitrary environment responses: a lookup walks the itinerary
    "write cache, then the read-only caches in registration order" (a sharded
    level: primary shard, then - after a miss only - the secondary), opens nothing
    after its first hit, returns that first handle, and reports a miss only after
    walking the whole itinerary without one ([C13_lookup_order_any_depth]); a
    touch walks the same itinerary, stops at the first copy whose access time it
    could set, and tries no other ([C13_touch_order_any_depth]); and the judge of
    get_or_update is told "primary" exactly when the handle it is given came from
    the LAST successful read-only open, that open named an entry of the write
    cache, and only lookup calls happened since ([C13_primary_iff_from_the_write_cache]). *)
From Coq Require Import List NArith ZArith String Bool.
From Kismet Require Import Pure.Hash FS.Fs FS.Prog Spec.Wp Ops.Ops Spec.StackSpec Proofs.StackSweep Proofs.LookupOrder Proofs.PutNeverOverwrites Proofs.HitKind.
Import ListNotations.

(** The whole matrix: every configuration, every operation. *)
Theorem C13_stack_semantics_matrix :
  forall c op, In c configs -> In op ops -> agrees c op = true.
Proof.
  assert (H : forallb (fun c => forallb (fun op => agrees c op) ops) configs = true)
    by (vm_compute; reflexivity).
  intros c op Hc Hop. rewrite forallb_forall in H. specialize (H c Hc).
  rewrite forallb_forall in H. exact (H op Hop).
Qed.

(** The matrix: write side {none, plain, sharded} x its content x read-only
    levels {(), plain, sharded, plain+sharded, plain+plain} x their contents
    {absent, A, B} x checker {none, byte-equality, panicking, counting}
    = 700 configurations; 16 operations (get, touch, set, put, get_or_update x
    {Accept, Promote, Replace} x populate {P, A, NotFound, other}). *)
Example C13_matrix_size : List.length configs = 700 /\ List.length ops = 16.
Proof. vm_compute. split; reflexivity. Qed.

(** Clauses of the property, read off the specification (these hold for every
    configuration, not only the matrix): *)
Theorem C13_no_writer_unsupported : forall w rs ck v,
  o_res (spec false w rs ck (ASet v)) = RErrUnsupported /\ o_res (spec false w rs ck (APut v)) = RErrUnsupported.
Proof. intros. unfold spec. destruct (ro_lookup ck rs). split; reflexivity. Qed.

Theorem C13_get_prefers_write_side : forall wv rs,
  o_res (spec true (Some wv) rs CkNone AGet) = RValue wv.
Proof. intros. unfold spec. destruct (ro_lookup CkNone rs). reflexivity. Qed.

Theorem C13_primary_iff_write_side : forall wv rs a p,
  o_hit (spec true (Some wv) rs CkNone (AGou a p)) = Some true.
Proof.
  intros. unfold spec. destruct (ro_lookup CkNone rs). cbn.
  destruct a; destruct p; reflexivity.
Qed.

Theorem C13_promote_copies : forall rv rs p,
  p <> POther ->
  o_write (spec true None (Some rv :: rs) CkNone (AGou Promote p)) = Some rv /\
  o_res (spec true None (Some rv :: rs) CkNone (AGou Promote p)) = RValue rv.
Proof. intros. unfold spec. cbn. split; reflexivity. Qed.

(** Lookup order for stacks of any depth, all responses (no checker configured). *)
Theorem C13_lookup_order_any_depth : forall cfg k, s_checker cfg = None ->
  wp (lo_step false) (cache_get cfg k)
     (fun r s' => match r with
                  | Ok (Some fd) => snd s' = Some fd
                  | Ok None => s' = ([], None)
                  | _ => True
                  end) (itinerary cfg k, None).
Proof. exact lookup_order_no_checker. Qed.

Theorem C13_lookup_order_on_every_run : forall cfg k w o, s_checker cfg = None ->
  let '(r, _, _, tr) := run (cache_get cfg k) w o in
  exists s', mon_run (lo_step false) (itinerary cfg k, None) tr = Some s' /\
    match r with Ok (Some fd) => snd s' = Some fd | Ok None => s' = ([], None) | _ => True end.
Proof. intros cfg k w o H. exact (lookup_order_run cfg k w o H). Qed.

(** The itinerary and the monitor, spelled out on a four-level stack: plain write
    cache, then a sharded, a plain and another sharded read-only cache. *)
Example C13_itinerary_example :
  let k := mkKey "a"%string 1 2 in
  let cfg := mkStack 0 (Some (FPlain ["w"%string] 10)) [FSharded ["r0"%string] 3 30; FPlain ["r1"%string] 0; FSharded ["r2"%string] 2 20] None false ["t"%string] in
  let '(a, b) := shard_ids 1 2 3 in let '(c, d) := shard_ids 1 2 2 in
  itinerary cfg k =
    [[["w"; "a"]]; [["r0"; format_id a; "a"]; ["r0"; format_id b; "a"]]; [["r1"; "a"]]; [["r2"; format_id c; "a"]; ["r2"; format_id d; "a"]]]%string /\
  (* an open out of order is refused, an open after a hit is refused *)
  lo_step false (itinerary cfg k, None) (EvCall (COpen ["r1"; "a"]%string RDONLY) (RFd 7)) = None /\
  lo_step false ([[["r1"; "a"]]]%string, Some 5%nat) (EvCall (COpen ["r1"; "a"]%string RDONLY) (RErr ENOENT)) = None /\
  (* a hit in the primary shard skips the secondary *)
  lo_step false ([[["r0"; "x"; "a"]; ["r0"; "y"; "a"]]; [["r1"; "a"]]]%string, None) (EvCall (COpen ["r0"; "x"; "a"]%string RDONLY) (RFd 7)) = Some ([[["r1"; "a"]]]%string, Some 7%nat).
Proof. vm_compute. repeat split. Qed.

(** touch: same itinerary; once a copy was marked (an accepted futimens that sets
    the access time only) no further path is opened; "absent" means every path of
    the itinerary was tried. *)
Theorem C13_touch_order_any_depth : forall cfg k,
  wp to_step (cache_touch cfg k)
     (fun r s' => match r with Ok true => snd s' = true | Ok false => s' = ([], false) | _ => True end)
     (flat_itinerary cfg k, false).
Proof. exact touch_order. Qed.

Theorem C13_touch_monitor_meaning : forall p q fd t,
  to_step ([p; q], true) (EvCall (COpen p RDONLY) (RFd fd)) = None /\
  to_step ([p; q], false) (EvCall (CFutimens fd (Some t) None) ROk) = Some ([p; q], true) /\
  (p <> q -> to_step ([p; q], false) (EvCall (COpen q RDONLY) (RFd fd)) = None).
Proof.
  intros p q fd t. repeat split. intros H. cbn [to_step fst snd].
  destruct (path_eqb q p) eqn:E; [apply path_eqb_eq in E; congruence|reflexivity].
Qed.

(** Hit kind, any depth, all responses (no checker; read-only levels on paths other
    than the write cache's).  [marked j] puts a ghost mark (4 = primary, 5 =
    secondary) in front of the judge [j], any judge. *)
Theorem C13_primary_iff_from_the_write_cache : forall cfg k (j : judge) pop,
  s_checker cfg = None ->
  let wpaths := match s_writer cfg with Some w => front_paths w k | None => [] end in
  (forall f p, In f (s_readers cfg) -> In p (front_paths f k) -> existsb (path_eqb p) wpaths = false) ->
  wp (pj_step wpaths) (get_or_update cfg k (marked j) pop) (fun _ _ => True) PNone.
Proof. intros cfg k j pop Hc wpaths Hdis. exact (judge_is_told_the_truth wpaths cfg k j pop Hc eq_refl Hdis). Qed.

Theorem C13_hit_kind_monitor_meaning : forall w p fd,
  pj_step [w] PNone (EvCall (COpen w RDONLY) (RFd fd)) = Some (PLast true) /\
  (p <> w -> pj_step [w] PNone (EvCall (COpen p RDONLY) (RFd fd)) = Some (PLast false)) /\
  pj_step [w] (PLast false) (EvMark 4 []) = None /\ pj_step [w] (PLast true) (EvMark 5 []) = None /\
  pj_step [w] PNone (EvMark 4 []) = None /\
  pj_step [w] (PLast true) (EvMark 4 []) = Some PDone /\ pj_step [w] (PLast false) (EvMark 5 []) = Some PDone /\
  pj_step [w] (PLast true) (EvCall (CStat p false) ROk) = Some PDone.
Proof.
  intros w p fd. cbn [pj_step lookup_call existsb N.eqb Pos.eqb]. rewrite path_eqb_refl. cbn [orb]. repeat split.
  intros H. destruct (path_eqb p w) eqn:E; [apply path_eqb_eq in E; contradiction|reflexivity].
Qed.
