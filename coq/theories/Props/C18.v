(** C18 — I/O failures are reported, never masked, and leave the cache valid.

    Kernel-checked, for ARBITRARY call results (so for every fault at every
    position, any number of them, combined with any interference):
    - never masked: if set / put return success, a rename (set) or a link
      accepted or answered EEXIST (put) onto the key's path was really issued
      and accepted — no failure on the publication path turns into [Ok]
      ([C18_set_success_means_published], [C18_put_success_means_published]);
      in the kernel model, with a fault at any call, a plain set that reports
      success has bound the key to the source's inode, which still holds the
      source's bytes ([C18_success_under_any_fault_is_real]);
    - leave the cache valid: whatever fails, anywhere, in any participant, a
      published value keeps its contents ([C18_faults_never_corrupt_published_contents],
      the interleaving theorem, whose oracles include arbitrary injected faults);
      confinement (C16), descriptor balance (C20) and the write discipline (C01)
      hold for arbitrary results as well.
    - never panics except in the documented failed-flush case: lookups, touches
      and the temp-file API never return [Panic] ([C18_no_panic]); a path-based
      set / put does so only after an fsync answered with an error
      ([C18_writers_panic_only_after_failed_flush]); the planner's assertion is
      unreachable (C08).
    - reported, for lookups through stacks of any depth: a lookup that returns a
      result (hit or miss) received no error other than an absence at any of its
      read-only opens - an I/O, permission or descriptor-exhaustion error at ANY
      level surfaces, it is never turned into a miss ([C18_lookups_report_errors]).
    What "reported" requires beyond this (every non-absent error surfaces, the
    documented exceptions aside) is established by the exhaustive single-fault
    enumeration against this model (vlib/c18.py). *)
From Coq Require Import List NArith ZArith String Bool Arith.
From Kismet Require Import Pure.Hash FS.Fs FS.Prog Spec.Wp Ops.Ops Conc.Pool Conc.Effect Conc.Immut Proofs.NeverMasked Seq.Plain Proofs.KvSeq Proofs.NoPanic Proofs.LookupErrors Proofs.MaintErrors Proofs.TouchErrors.
Import ListNotations.

Theorem C18_set_success_means_published : forall cfg k v w o,
  let '(r, _, _, tr) := run (cache_set cfg k v) w o in is_ok r = true -> mon_run p_step false tr = Some true.
Proof. intros. apply (success_means_published _ (pubs_cache_set cfg k v)). Qed.

Theorem C18_put_success_means_published : forall cfg k v w o,
  let '(r, _, _, tr) := run (cache_put cfg k v) w o in is_ok r = true -> mon_run p_step false tr = Some true.
Proof. intros. apply (success_means_published _ (pubs_cache_put cfg k v)). Qed.

(** ... and, in the kernel model, with a fault injected at ANY call of the run
    (the oracle [o] is arbitrary): a plain set that reports success has really
    bound the key's name to the inode its source named, and the file still holds
    the source's bytes -- success is never reported for an effect that did not happen. *)
Theorem C18_success_under_any_fault_is_real : forall cfg dir cap k v i0 D w o,
  s_writer cfg = Some (FPlain dir cap) ->
  plainp dir = true -> valid_name (k_name k) = true -> plainp v = true ->
  (forall q, v <> dir ++ q) -> (forall q, dir <> v ++ q) ->
  names_plain (w_fs w) -> name_of (w_fs w) v = Some i0 ->
  data (w_fs w) i0 = Some D -> i0 < next_ino (w_fs w) ->
  let '(r, w', _, _) := run (cache_set cfg k v) w o in
  is_ok r = true -> name_of (w_fs w') (dir ++ [k_name k]) = Some i0 /\ data (w_fs w') i0 = Some D.
Proof.
  intros cfg dir cap k v i0 D w o Hw Hb Hn Hv Ho Ha Hpl Hv0 HD Hi.
  pose proof (cache_set_binds cfg dir cap Hw k v Hb Hn Hv Ho Ha i0 w o Hpl Hv0) as H1.
  pose proof (calm_run_keeps_data _ _ (Spec.Calm.cm_cache_set cfg k v) w o i0 D HD Hi) as H2.
  destruct (run (cache_set cfg k v) w o) as [[[r w'] o'] tr]. intros Hok. split; [exact (H1 Hok)|exact H2].
Qed.

(** Never a panic, for arbitrary results: lookups and touches through any stack
    without checker, set_temp_file / put_temp_file through plain or sharded write
    caches, with whatever maintenance runs. *)
Theorem C18_no_panic : forall cfg k (which : bool) fd p,
  (s_checker cfg = None -> npn (cache_get cfg k)) /\ npn (cache_touch cfg k) /\ npn (cache_write_temp which cfg k fd p).
Proof. intros. split; [apply npn_cache_get|split; [apply npn_cache_touch|apply npn_cache_write_temp]]. Qed.

Theorem C18_no_panic_on_every_run : forall cfg k (which : bool) fd p w o,
  let '(r, _, _, _) := run (cache_write_temp which cfg k fd p) w o in r <> Panic.
Proof. intros cfg k which fd p w o. exact (no_panic_run _ (npn_cache_write_temp which cfg k fd p) w o). Qed.

(** The documented exception: a path-based set / put panics only after an fsync
    was answered with an error (auto_sync, flush of the caller's file). *)
Theorem C18_writers_panic_only_after_failed_flush : forall (which : bool) cfg k v w o,
  let '(r, _, _, tr) := run (if which then cache_set cfg k v else cache_put cfg k v) w o in
  r = Panic -> mon_run np_step false tr = Some true.
Proof. intros which cfg k v w o. exact (write_panic_run which cfg k v w o). Qed.

Theorem C18_panic_monitor_meaning : forall fd e c r,
  np_step false (EvCall (CFsync fd) (RErr e)) = Some true /\
  (match c with CFsync _ => False | _ => True end -> np_step false (EvCall c r) = Some false).
Proof. intros fd e c r. split; [reflexivity|]. destruct c; intros H; try reflexivity. destruct H. Qed.

(** Non-vacuity: auto_sync on, the flush of the caller's file answers EIO: the set
    panics and the monitor has seen the failed fsync; the same fault at the open
    before it is an ordinary error; without fault the set succeeds. *)
Example C18_panic_example :
  let mk (f : fs) (p : path) (c : N) :=
    let '(f1, i) := alloc_inode f (mkInode false [c] 292 100%Z 50%Z 1 true) in
    set_names f1 ((p, i) :: names f1) in
  let '(f0, d) := alloc_inode empty_fs (mkInode true [] 493 0%Z 0%Z 2 true) in
  let f0 := set_names f0 ((["w"%string], d) :: names f0) in
  let f := mk f0 ["v"%string] 66%N in
  let cfg := mkStack 0 (Some (FPlain ["w"%string] 300)) [] None true ["systmp"%string] in
  let go flt :=
    let o := mkOracle [1000; 1001; 1002]%Z [18446744073709551615%N] [] [] [] flt 0 1%Z Relatime in
    let '(r, _, _, tr) := run (cache_set cfg (mkKey "a"%string 1 2) ["v"%string]) (mkWorld f 0 []) o in
    (match r with Ok _ => 0 | Err _ => 1 | Panic => 2 end, mon_run np_step false tr)%nat in
  go None = (0%nat, Some false) /\ go (Some (1%nat, EIO)) = (2%nat, Some true) /\ go (Some (0%nat, EIO)) = (1%nat, Some false).
Proof. vm_compute. repeat split. Qed.

(** Lookups report errors (any depth, all responses). *)
Theorem C18_lookups_report_errors : forall cfg k, s_checker cfg = None ->
  forall s, wp le_step (cache_get cfg k) (fun r s' => match r with Ok _ => s' = s | _ => True end) s.
Proof. exact lookups_report_errors. Qed.

Theorem C18_lookups_report_errors_on_every_run : forall cfg k w o, s_checker cfg = None ->
  let '(r, _, _, tr) := run (cache_get cfg k) w o in
  match r with Ok _ => mon_run le_step false tr = Some false | _ => True end.
Proof. intros cfg k w o H. exact (lookups_report_errors_run cfg k w o H). Qed.

Theorem C18_lookup_error_monitor_meaning : forall p,
  le_step false (EvCall (COpen p RDONLY) (RErr ENOENT)) = Some false /\ le_step false (EvCall (COpen p RDONLY) (RErr ESTALE)) = Some false /\
  le_step false (EvCall (COpen p RDONLY) (RErr EIO)) = Some true /\ le_step false (EvCall (COpen p RDONLY) (RErr EACCES)) = Some true /\
  le_step false (EvCall (COpen p RDONLY) (RErr EMFILE)) = Some true.
Proof. intros. repeat split. Qed.

(** Maintenance reports errors (all responses): a prune that returns a result has received no
    error other than an absence from its opendir, its readdir, any stat of its scan, any unlink
    of a victim or any futimens of a re-stamp; an error it does return was an absence only if no
    other kind was seen.  An I/O error at a stat is never read as "the entry vanished". *)
Theorem C18_maintenance_reports_errors : forall dir cap s,
  wp me_step (prune dir cap)
     (fun r s' => match r with Ok _ => s' = s | Err e => is_absent e = true -> s' = s | Panic => True end) s.
Proof. exact maintenance_reports_errors. Qed.

Theorem C18_maintenance_reports_errors_on_every_run : forall dir cap w o,
  let '(r, _, _, tr) := run (prune dir cap) w o in
  match r with Ok _ => mon_run me_step false tr = Some false | _ => True end.
Proof. exact maintenance_reports_errors_run. Qed.

Theorem C18_maintenance_error_monitor_meaning : forall p fd a m s,
  me_step false (EvCall (CStat p false) (RErr ENOENT)) = Some false /\ me_step false (EvCall (CStat p false) (RErr ESTALE)) = Some false /\
  me_step s (EvCall (CStat p false) (RErr EIO)) = Some true /\ me_step s (EvCall (CStat p false) (RErr EACCES)) = Some true /\
  me_step s (EvCall (CUnlink p) (RErr EIO)) = Some true /\ me_step s (EvCall (COpenDir p) (RErr EMFILE)) = Some true /\
  me_step s (EvCall (CFutimens fd a m) (RErr EIO)) = Some true /\ me_step false (EvCall (CUnlink p) (RErr ENOENT)) = Some false.
Proof. intros. repeat split; apply me_monitor_meaning; reflexivity. Qed.

(** Touches report errors (any depth, all responses): a touch that returns a result - marked or
    "no such entry" - has received no error other than an absence at the last open it tried for
    an entry or at a futimens. *)
Theorem C18_touches_report_errors : forall cfg k s,
  wp te_step (cache_touch cfg k)
     (fun r s' => match r with Ok _ => s' = s | Err e => is_absent e = true -> s' = s | Panic => True end) s.
Proof. exact touches_report_errors. Qed.

Theorem C18_touches_report_errors_on_every_run : forall cfg k w o,
  let '(r, _, _, tr) := run (cache_touch cfg k) w o in
  match r with Ok _ => mon_run te_step false tr = Some false | _ => True end.
Proof. exact touches_report_errors_run. Qed.

Theorem C18_touch_error_monitor_meaning : forall p fd a m s,
  te_step false (EvCall (COpen p WRONLY) (RErr ENOENT)) = Some false /\
  te_step s (EvCall (COpen p RDONLY) (RErr EIO)) = Some s /\
  te_step s (EvCall (COpen p WRONLY) (RErr EIO)) = Some true /\
  te_step s (EvCall (COpen p WRONLY) (RErr EMFILE)) = Some true /\
  te_step s (EvCall (CFutimens fd a m) (RErr EACCES)) = Some true /\
  te_step false (EvCall (CFutimens fd a m) (RErr ESTALE)) = Some false.
Proof. intros. repeat split; apply te_monitor_meaning; reflexivity. Qed.

(** For arbitrary results, not only those a run of the model produces. *)
Theorem C18_never_masked_all_responses : forall cfg k v, pubs (cache_set cfg k v) /\ pubs (cache_put cfg k v).
Proof. intros. split; [apply pubs_cache_set|apply pubs_cache_put]. Qed.

(** The participants' oracles below are arbitrary: any of them may carry an
    injected fault ([o_fault]) at any call. *)
Theorem C18_faults_never_corrupt_published_contents :
  forall A (ps : list (prog A * oracle)) f0 sched1 sched2 i D,
  fds_wf f0 -> Forall (fun po => disciplined (fst po)) ps ->
  let st1 := run_sched sched1 (spawn_all ps ([], f0)) in
  data (snd st1) i = Some D -> i < next_ino (snd st1) -> NoRW i (snd st1) ->
  data (snd (run_sched sched2 st1)) i = Some D.
Proof. exact @immutable_from_any_reachable_state. Qed.

(** The model's fault injection: a faulted call leaves the filesystem unchanged
    and returns the error (a failing close still releases the descriptor). *)
Theorem C18_fault_semantics : forall w o c ord n er,
  o_fault o = Some (n, er) -> significant c = true -> n = o_ncalls o ->
  snd (do_call w o c ord) = RErr er /\
  (match c with CClose _ | CCloseDir _ => True | _ => fst (do_call w o c ord) = w_fs w end).
Proof.
  intros w o c ord n er Hf Hs Hn. unfold do_call. rewrite Hf, Hs, Hn, Nat.eqb_refl. cbn [andb].
  destruct c; cbn [fst snd]; auto.
Qed.

(** Non-vacuity: a set succeeds; a set whose first rename fails with EIO retries,
    succeeds and has really published; a set of a missing source file reports the
    error and the monitor saw no publication. *)
Example C18_example :
  let mk (f : fs) (p : path) (c : N) :=
    let '(f1, i) := alloc_inode f (mkInode false [c] 292 100%Z 50%Z 1 true) in
    set_names f1 ((p, i) :: names f1) in
  let '(f0, d) := alloc_inode empty_fs (mkInode true [] 493 0%Z 0%Z 2 true) in
  let f0 := set_names f0 ((["w"%string], d) :: names f0) in
  let w := mkWorld (mk f0 ["v"%string] 66%N) 0 [] in
  let cfg := mkStack 0 (Some (FPlain ["w"%string] 300)) [] None false ["systmp"%string] in
  let k := mkKey "a"%string 1 2 in
  let run_with (src : path) (flt : option (nat * errno)) :=
    let '(r, _, _, tr) := run (cache_set cfg k src) w (mkOracle [1000; 1001]%Z [18446744073709551615%N] [] [] [] flt 0 1%Z Relatime) in
    (is_ok r, mon_run p_step false tr) in
  run_with ["v"%string] None = (true, Some true) /\
  run_with ["v"%string] (Some (5%nat, EIO)) = (true, Some true) /\
  run_with ["missing"%string] None = (false, Some false).
Proof. vm_compute. repeat split. Qed.

(** The kinds of error the library's source inspects are those the model handles
    (regenerated from the source on every run). *)
From Kismet Require Import Gen.Constants Gen.ErrKinds.
Theorem C18_error_kinds_inspected :
  Constants.ERROR_KINDS_INSPECTED =
  ["benign_error.rs:ESTALE"; "benign_error.rs:NotFound"; "cache_dir.rs:InvalidInput"; "lib.rs:Other";
   "raw_cache.rs:AlreadyExists"; "stack.rs:NotFound"; "stack.rs:Unsupported"]%string.
Proof. exact error_kinds_inspected. Qed.
