(** C18 — I/O failures are reported, never masked, and leave the cache valid. (interim) *)
From Coq Require Import List NArith String Bool Arith.
From Kismet Require Import FS.Fs FS.Prog Ops.Ops.
(** The model's fault injection: a faulted call leaves the filesystem unchanged
    and returns the error (the operation then continues with that result). *)
Theorem C18_fault_semantics : forall w o c ord n er,
  o_fault o = Some (n, er) -> significant c = true -> n = o_ncalls o ->
  snd (do_call w o c ord) = RErr er /\
  (match c with CClose _ | CCloseDir _ => True | _ => fst (do_call w o c ord) = w_fs w end).
Proof.
  intros w o c ord n er Hf Hs Hn. unfold do_call. rewrite Hf, Hs, Hn, Nat.eqb_refl. cbn [andb].
  destruct c; cbn [fst snd]; auto.
Qed.
