(** C05 — Concurrent activity never surfaces as an error or a panic.

    Kernel-checked here, for lookups and touches (get, touch through plain,
    sharded, read-only and stacked caches, no checker): whatever other
    participants' allowed actions do — which, seen from one call, can only make
    a path-naming lookup fail with an absence error (ENOENT / ESTALE), never make
    a descriptor-based call fail or the kernel answer with the wrong shape — the
    operation returns no I/O error and does not panic ([C05_lookups_and_touches]),
    on every run and for every participant of every pool under every schedule
    whose received responses were all in that class.
    For the writers (set, put, ensure, get_or_update, maintenance) the same claim
    is decided by lost-race injection at every shared-path call and by
    exhaustive context-switch exploration of real processes (vlib/c05.py). *)
From Coq Require Import List NArith ZArith String Bool.
From Kismet Require Import FS.Fs FS.Prog Spec.Wp Ops.Ops Conc.Pool Proofs.RaceFree Proofs.PoolLift.
Import ListNotations.

Theorem C05_lookups_and_touches : forall cfg k,
  (s_checker cfg = None -> rf (cache_get cfg k) no_io_error) /\ rf (cache_touch cfg k) no_io_error.
Proof. intros. split; [apply rf_cache_get|apply rf_cache_touch]. Qed.

Theorem C05_read_only_api : forall stack k, rf (ro_get stack None k) no_io_error /\ rf (ro_touch stack k) no_io_error.
Proof. intros. split; [apply rf_ro_get|apply rf_ro_touch]. Qed.

Theorem C05_on_every_run : forall cfg k w o, s_checker cfg = None ->
  let '(r, _, _, tr) := run (cache_get cfg k) w o in mon_run r_step true tr = Some true -> no_io_error r.
Proof. intros cfg k w o H. apply (race_free_run _ (rf_cache_get cfg k H)). Qed.

Theorem C05_in_any_pool : forall cfg k, s_checker cfg = None ->
  race_free_in_any_pool (cache_get cfg k) /\ race_free_in_any_pool (cache_touch cfg k).
Proof. intros cfg k H. split; apply rf_pool; [apply rf_cache_get, H|apply rf_cache_touch]. Qed.

(** The response class, spelled out for the calls lookups make. *)
Theorem C05_race_class : forall p a e,
  race_ok (COpen p a) (RErr e) = absent_errno e /\ race_ok (CFstat 0) (RErr e) = false /\
  race_ok (CClose 0) (RErr e) = false /\ race_ok (CFutimens 0 None None) (RErr e) = false.
Proof. intros. repeat split. Qed.

(** benign_error.rs: a missing file — NotFound or a stale handle — is an absence. *)
Theorem C05_absent_errors : is_absent (OsErr ENOENT) = true /\ is_absent (OsErr ESTALE) = true /\ is_absent (OsErr EIO) = false.
Proof. repeat split. Qed.

(** Non-vacuity: a lookup whose open is answered ENOENT (the entry was just evicted by
    a peer) returns a miss; the same with EIO is NOT in the class and does surface. *)
Example C05_example :
  let '(f0, d) := alloc_inode empty_fs (mkInode true [] 493 0%Z 0%Z 2 true) in
  let f := set_names f0 ((["w"%string], d) :: names f0) in
  let cfg := mkStack 0 (Some (FPlain ["w"%string] 300)) [] None false ["systmp"%string] in
  let go flt :=
    let '(r, _, _, tr) := run (cache_get cfg (mkKey "a"%string 1 2)) (mkWorld f 0 []) (mkOracle [] [] [] [] [] flt 0 1%Z Relatime) in
    (match r with Ok None => 0 | Ok (Some _) => 1 | Err _ => 2 | Panic => 3 end, mon_run r_step true tr)%nat in
  go None = (0%nat, Some true) /\ go (Some (0%nat, ESTALE)) = (0%nat, Some true) /\ go (Some (0%nat, EIO)) = (2%nat, Some false).
Proof. vm_compute. repeat split. Qed.

(** The kinds of error the library's source inspects are those the model handles
    (regenerated from the source on every run). *)
From Kismet Require Import Gen.Constants Gen.ErrKinds.
Theorem C05_error_kinds_inspected :
  Constants.ERROR_KINDS_INSPECTED =
  ["benign_error.rs:ESTALE"; "benign_error.rs:NotFound"; "cache_dir.rs:InvalidInput"; "lib.rs:Other";
   "raw_cache.rs:AlreadyExists"; "stack.rs:NotFound"; "stack.rs:Unsupported"]%string.
Proof. exact error_kinds_inspected. Qed.
