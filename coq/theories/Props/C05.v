(** C05 — Concurrent activity never surfaces as an error or a panic. (interim) *)
From Coq Require Import List NArith ZArith String Bool.
From Kismet Require Import FS.Fs FS.Prog Ops.Ops.
(** benign_error.rs: a missing file — NotFound or a stale handle — is an absence. *)
Theorem C05_absent_errors : is_absent (OsErr ENOENT) = true /\ is_absent (OsErr ESTALE) = true /\ is_absent (OsErr EIO) = false.
Proof. repeat split. Qed.
