(** C05 — Concurrent activity never surfaces as an error or a panic.

    Kernel-checked here, for lookups and touches (get, touch through plain,
    sharded, read-only and stacked caches, no checker): whatever other
    participants' allowed actions do — which, seen from one call, can only make
    a path-naming lookup fail with an absence error (ENOENT / ESTALE), never make
    a descriptor-based call fail or the kernel answer with the wrong shape — the
    operation returns no I/O error and does not panic ([C05_lookups_and_touches]),
    on every run and for every participant of every pool under every schedule
    whose received responses were all in that class.
    For the writers - set / put on a plain or sharded write cache with their
    maintenance (listing, reprieves, evictions, temp-directory sweep, the probe of
    the secondary shard, maintenance of another shard), at directory level and
    through the stack API (set, put, set_temp_file, put_temp_file) - the same: the allowed actions of others can make a call that names an
    ENTRY answer with an absence error and make the publishing link find the name
    taken; they cannot touch the writer's private source file, remove a
    directory, or fail a descriptor-based call.  As long as every response lies
    in that class the write returns no I/O error and does not panic, whether the
    trigger fires or not, whatever the listing shows and whichever entry vanishes
    between the listing and its use ([C05_writers], [C05_writers_in_any_pool]).
    ensure / get_or_update, and that the class IS what real
    peers can cause: lost-race injection at every shared-path call and exhaustive
    context-switch exploration of real processes (vlib/c05.py). *)
From Coq Require Import List NArith ZArith String Bool.
From Kismet Require Import Pure.Hash FS.Fs FS.Prog Spec.Wp Ops.Ops Conc.Pool Proofs.RaceFree Proofs.PoolLift Proofs.RaceFreeW Proofs.PutNeverOverwrites.
Import ListNotations.

Theorem C05_lookups_and_touches : forall cfg k,
  (s_checker cfg = None -> rf (cache_get cfg k) no_io_error) /\ rf (cache_touch cfg k) no_io_error.
Proof. intros. split; [apply rf_cache_get|apply rf_cache_touch]. Qed.

Theorem C05_read_only_api : forall stack k, rf (ro_get stack None k) no_io_error /\ rf (ro_touch stack k) no_io_error.
Proof. intros. split; [apply rf_ro_get|apply rf_ro_touch]. Qed.

Theorem C05_on_every_run : forall cfg k w o, s_checker cfg = None ->
  let '(r, _, _, tr) := run (cache_get cfg k) w o in mon_run r_step true tr = Some true -> no_io_error r.
Proof. intros cfg k w o H. apply (race_free_run _ (rf_cache_get cfg k H)). Qed.

Theorem C05_in_any_pool : forall cfg k, s_checker cfg = None ->
  race_free_in_any_pool (cache_get cfg k) /\ race_free_in_any_pool (cache_touch cfg k).
Proof. intros cfg k H. split; apply rf_pool; [apply rf_cache_get, H|apply rf_cache_touch]. Qed.

(** Writers: a plain set / put at directory level and through the stack API, with
    whatever maintenance the trigger starts. *)
Theorem C05_directory_writers : forall (which : bool) d name v, cd_base d ++ [name] <> v ->
  rw v (cd_publish (if which then insert_or_update else insert_or_touch) d name v) no_io_error.
Proof. intros which d name v H. exact (rw_cd_publish v which d name H). Qed.

Theorem C05_writers : forall (which : bool) cfg f k v,
  s_writer cfg = Some f ->
  match f with
  | FPlain dir _ => dir ++ [k_name k] <> v
  | FSharded dir _ _ => forall id, (dir ++ [format_id id]) ++ [k_name k] <> v
  end ->
  rw v (if which then cache_set cfg k v else cache_put cfg k v) no_io_error.
Proof. intros which cfg f k v Hw Hd. exact (rw_cache_write v which cfg f k Hw Hd). Qed.

Theorem C05_writers_on_every_run : forall cfg f k v w o,
  s_writer cfg = Some f -> front_ok v f k ->
  let '(r, _, _, tr) := run (cache_set cfg k v) w o in mon_run (w_step v) true tr = Some true -> no_io_error r.
Proof. intros cfg f k v w o Hw Hd. exact (writers_race_free_run v _ (rw_cache_write v true cfg f k Hw Hd) w o). Qed.

Theorem C05_writers_in_any_pool : forall cfg f k v,
  s_writer cfg = Some f -> front_ok v f k ->
  writers_race_free_in_any_pool v (cache_set cfg k v) /\ writers_race_free_in_any_pool v (cache_put cfg k v).
Proof.
  intros cfg f k v Hw Hd. split; apply rw_pool.
  - exact (rw_cache_write v true cfg f k Hw Hd).
  - exact (rw_cache_write v false cfg f k Hw Hd).
Qed.

Theorem C05_temp_file_writers : forall (which : bool) cfg f k fd p,
  s_writer cfg = Some f -> front_ok p f k ->
  rw p (cache_write_temp which cfg k fd p) no_io_error /\ writers_race_free_in_any_pool p (cache_write_temp which cfg k fd p).
Proof.
  intros which cfg f k fd p Hw Hd.
  pose proof (rw_cache_write_temp p which cfg f k fd Hw Hd) as H. split; [exact H|exact (rw_pool p _ H)].
Qed.

(** The writers' response class, spelled out: absence on calls naming an entry
    (never on the private source), EEXIST on the link, nothing else. *)
Theorem C05_writer_race_class : forall v p q e fl,
  p <> v ->
  wrace_ok v (CStat p fl) (RErr e) = absent_errno e /\ wrace_ok v (CStat v fl) (RErr e) = false /\
  wrace_ok v (CUnlink p) (RErr e) = absent_errno e /\ wrace_ok v (COpenDir p) (RErr e) = absent_errno e /\
  wrace_ok v (CRename p q) (RErr e) = false /\ wrace_ok v (CChmod p 292) (RErr e) = false /\
  wrace_ok v (CLink p q) (RErr e) = (match e with EEXIST => true | _ => false end) /\
  wrace_ok v (CClose 0) (RErr e) = false /\ wrace_ok v (CFutimens 0 None None) (RErr e) = false.
Proof.
  intros v p q e fl Hp.
  assert (H : path_eqb p v = false) by (destruct (path_eqb p v) eqn:E; [apply path_eqb_eq in E; contradiction|reflexivity]).
  cbn [wrace_ok]. rewrite H. pose proof (path_eqb_refl v) as Hv.
  rewrite Hv. cbn [negb andb]. repeat split; destruct e; reflexivity.
Qed.

(** Non-vacuity: capacity 1, the directory holds "a" and "b", the trigger fires:
    the set of "c" lists the directory, evicts, publishes.  With the stat of a
    listed entry answered ENOENT (a peer evicted it in between) the run stays in
    the class and still succeeds; with EIO it leaves the class and the error
    surfaces. *)
Example C05_writer_example :
  let mk (f : fs) (p : path) (c : N) :=
    let '(f1, i) := alloc_inode f (mkInode false [c] 292 100%Z 50%Z 1 true) in
    set_names f1 ((p, i) :: names f1) in
  let '(f0, d) := alloc_inode empty_fs (mkInode true [] 493 0%Z 0%Z 2 true) in
  let f0 := set_names f0 ((["w"%string], d) :: names f0) in
  let f := mk (mk (mk f0 ["w"; "a"]%string 65%N) ["w"; "b"]%string 67%N) ["v"%string] 66%N in
  let cfg := mkStack 0 (Some (FPlain ["w"%string] 1)) [] None false ["systmp"%string] in
  let go flt :=
    let o := mkOracle [1000; 1001; 1002; 1003; 1004]%Z [1%N] [] [] [] flt 0 1%Z Relatime in
    let '(r, w1, _, tr) := run (cache_set cfg (mkKey "c"%string 1 2) ["v"%string]) (mkWorld f 0 []) o in
    (match r with Ok _ => 0 | Err _ => 2 | Panic => 3 end, mon_run (w_step ["v"%string]) true tr,
     existsb (fun ev => match ev with EvCall (COpenDir _) _ => true | _ => false end) tr, name_of (w_fs w1) ["w"; "c"]%string)%nat in
  go None = (0%nat, Some true, true, Some 4%nat) /\
  go (Some (2%nat, ENOENT)) = (0%nat, Some true, true, Some 4%nat) /\
  (let '(r, m, l, _) := go (Some (2%nat, EIO)) in (r, m, l)) = (2%nat, Some false, true).
Proof. vm_compute. repeat split. Qed.

(** The response class, spelled out for the calls lookups make. *)
Theorem C05_race_class : forall p a e,
  race_ok (COpen p a) (RErr e) = absent_errno e /\ race_ok (CFstat 0) (RErr e) = false /\
  race_ok (CClose 0) (RErr e) = false /\ race_ok (CFutimens 0 None None) (RErr e) = false.
Proof. intros. repeat split. Qed.

(** benign_error.rs: a missing file — NotFound or a stale handle — is an absence. *)
Theorem C05_absent_errors : is_absent (OsErr ENOENT) = true /\ is_absent (OsErr ESTALE) = true /\ is_absent (OsErr EIO) = false.
Proof. repeat split. Qed.

(** Non-vacuity: a lookup whose open is answered ENOENT (the entry was just evicted by
    a peer) returns a miss; the same with EIO is NOT in the class and does surface. *)
Example C05_example :
  let '(f0, d) := alloc_inode empty_fs (mkInode true [] 493 0%Z 0%Z 2 true) in
  let f := set_names f0 ((["w"%string], d) :: names f0) in
  let cfg := mkStack 0 (Some (FPlain ["w"%string] 300)) [] None false ["systmp"%string] in
  let go flt :=
    let '(r, _, _, tr) := run (cache_get cfg (mkKey "a"%string 1 2)) (mkWorld f 0 []) (mkOracle [] [] [] [] [] flt 0 1%Z Relatime) in
    (match r with Ok None => 0 | Ok (Some _) => 1 | Err _ => 2 | Panic => 3 end, mon_run r_step true tr)%nat in
  go None = (0%nat, Some true) /\ go (Some (0%nat, ESTALE)) = (0%nat, Some true) /\ go (Some (0%nat, EIO)) = (2%nat, Some false).
Proof. vm_compute. repeat split. Qed.

(** The kinds of error the library's source inspects are those the model handles
    (regenerated from the source on every run). *)
From Kismet Require Import Gen.Constants Gen.ErrKinds.
Theorem C05_error_kinds_inspected :
  Constants.ERROR_KINDS_INSPECTED =
  ["benign_error.rs:ESTALE"; "benign_error.rs:NotFound"; "cache_dir.rs:InvalidInput"; "lib.rs:Other";
   "raw_cache.rs:AlreadyExists"; "stack.rs:NotFound"; "stack.rs:Unsupported"]%string.
Proof. exact error_kinds_inspected. Qed.

(** Losing the race to create a cache directory is not an error (all responses): create_dir_all
    and ensure_directory answer "already exists" only when the last thing they did was to look at
    the path (following stat) and find that it is NOT a directory; an EEXIST from mkdir - a
    peer's first insertion created the directory in between - is always followed by that look.
    (Proofs/MkdirRace.v) *)
From Kismet Require Import Proofs.MkdirRace.
Theorem C05_mkdir_race_is_not_an_error : forall p s,
  wp md_step (create_dir_all p) (fun r s' => r = Err (OsErr EEXIST) -> s' = Some false) s.
Proof. exact mkdir_race_is_not_an_error. Qed.

Theorem C05_ensure_directory_race_is_not_an_error : forall p s,
  wp md_step (ensure_directory p) (fun r s' => r = Err (OsErr EEXIST) -> s' = Some false) s.
Proof. exact ensure_directory_race_is_not_an_error. Qed.

Theorem C05_mkdir_race_on_every_run : forall p w o,
  let '(r, _, _, tr) := run (create_dir_all p) w o in
  r = Err (OsErr EEXIST) -> mon_run md_step None tr = Some (Some false).
Proof. exact mkdir_race_run. Qed.

Theorem C05_mkdir_monitor_meaning : forall p s st,
  md_step s (EvCall (CStat p true) (RStat st)) = Some (Some (st_dir st)) /\
  md_step s (EvCall (CStat p true) (RErr ENOENT)) = Some (Some false) /\
  md_step s (EvCall (CMkdir p) (RErr EEXIST)) = Some None /\
  md_step s (EvCall (CStat p false) (RStat st)) = Some s.
Proof. exact md_monitor_meaning. Qed.
