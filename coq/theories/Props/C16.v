(** C16 — Keys are validated and confined to the cache directory. *)
From Coq Require Import List NArith String Ascii Bool.
From Kismet Require Import Proofs.PoolLift Gen.Constants Gen.Agree Pure.Pinned Pure.Hash Proofs.HashProofs.
Import ListNotations.

(** The validation rule, as read from the current source: non-empty, first
    byte none of '.', '/', '\\', and no '/' anywhere. *)
Theorem C16_validation_rule_current_source :
  Constants.RESERVED_FIRST_BYTES = [46; 47; 92]%N /\ Constants.EMPTY_NAME_REJECTED = true /\
  Constants.SEPARATOR_REJECTED = true.
Proof. repeat split. Qed.

Theorem C16_valid_name_spec : forall name,
  valid_name name = true <->
  (exists a rest, name = String a rest /\ a <> "."%char /\ a <> "/"%char /\ a <> "\"%char) /\
  ~ In "/"%char (chars_of name).
Proof. exact valid_name_spec. Qed.

(** * Rejection: an invalid name is refused before any cache directory is touched *)
From Kismet Require Import FS.Fs FS.Prog Ops.Ops Spec.ClassMon Proofs.RejectProofs.

(** On every run (every filesystem state, fault and oracle), for every invalid
    name: the result is InvalidInput and NO call of the operation names a path
    under any of the given directories [roots] — in particular under the cache
    directories.  Lookups need a non-empty stack; writes first flush the
    caller's source file (outside the cache) and report Unsupported when there
    is no write cache. *)
Definition no_call_under (roots : list path) (tr : list event) : Prop :=
  Forall (fun ev => match ev with EvCall c _ => away roots c = true | _ => True end) tr.

Theorem C16_reject_get : forall roots cfg k, valid_name (k_name k) = false -> nonempty_stack cfg ->
  forall w o, let '(r, _, _, tr) := run (cache_get cfg k) w o in r = Err InvalidInput /\ no_call_under roots tr.
Proof.
  intros roots cfg k Hbad Hne w o.
  exact (allc_run _ _ _ (rej_cache_get roots (k_name k) Hbad k eq_refl cfg Hne) w o).
Qed.

Theorem C16_reject_touch : forall roots cfg k, valid_name (k_name k) = false -> nonempty_stack cfg ->
  forall w o, let '(r, _, _, tr) := run (cache_touch cfg k) w o in r = Err InvalidInput /\ no_call_under roots tr.
Proof.
  intros roots cfg k Hbad Hne w o.
  exact (allc_run _ _ _ (rej_cache_touch roots (k_name k) Hbad k eq_refl cfg Hne) w o).
Qed.

Theorem C16_reject_set : forall roots cfg k src, valid_name (k_name k) = false -> under roots src = false ->
  forall w o, let '(r, _, _, tr) := run (cache_set cfg k src) w o in write_rejected cfg r /\ no_call_under roots tr.
Proof.
  intros roots cfg k src Hbad Hsrc w o.
  exact (allc_run _ _ _ (rej_cache_set roots (k_name k) Hbad k eq_refl cfg src Hsrc) w o).
Qed.

Theorem C16_reject_put : forall roots cfg k src, valid_name (k_name k) = false -> under roots src = false ->
  forall w o, let '(r, _, _, tr) := run (cache_put cfg k src) w o in write_rejected cfg r /\ no_call_under roots tr.
Proof.
  intros roots cfg k src Hbad Hsrc w o.
  exact (allc_run _ _ _ (rej_cache_put roots (k_name k) Hbad k eq_refl cfg src Hsrc) w o).
Qed.

Theorem C16_reject_get_or_update : forall roots cfg k j pop wr, valid_name (k_name k) = false -> s_writer cfg = Some wr ->
  forall w o, let '(r, _, _, tr) := run (get_or_update cfg k j pop) w o in r = Err InvalidInput /\ no_call_under roots tr.
Proof.
  intros roots cfg k j pop wr Hbad Hw w o.
  exact (allc_run _ _ _ (rej_get_or_update roots (k_name k) Hbad k eq_refl cfg j pop wr Hw) w o).
Qed.

(** Non-vacuity: names the rule rejects, and one it accepts. *)
Example C16_examples :
  valid_name "" = false /\ valid_name ".x" = false /\ valid_name "/abs" = false /\ valid_name "\b" = false /\
  valid_name "x/../../escaped" = false /\ valid_name "n/m" = false /\ valid_name "k3/" = false /\
  valid_name "ok-name_1" = true /\ valid_name "a..b" = true.
Proof. vm_compute. repeat split. Qed.

(** * Confinement of accepted names
    Every path-naming mutating call (create, temp file, chmod, rename, link,
    unlink, mkdir) of every operation names a path syntactically under the
    write cache's directory, or an ancestor of it (mkdir -p), or a path the
    caller handed in, or the system temp directory — for arbitrary environment
    responses, hence on every run.  Below the configured directory the segments
    appended are: the validated key name (no separator, not dot-prefixed), the
    shard directory name ([format_id], C12), ".kismet_temp", a fresh temp name or
    a name returned by a directory listing (the kernel returns plain component
    names: trusted base). *)
From Kismet Require Import Spec.Confine.

Definition confined_trace (W : path) (extra : list path) (tr : list event) : Prop :=
  Forall (fun ev => match ev with EvCall c _ => conf W extra c = true | _ => True end) tr.

Lemma confined_of_allc {A} W extra (p : prog A) : allc (conf W extra) p anyr ->
  forall w o, let '(_, _, _, tr) := run p w o in confined_trace W extra tr.
Proof.
  intros H w o. pose proof (allc_run _ _ _ H w o) as Hr.
  destruct (run p w o) as [[[a w'] o'] tr]. exact (proj2 Hr).
Qed.

Theorem C16_confined_set : forall W extra cfg k v, cfg_conf W extra cfg -> allowed_path W extra v = true ->
  forall w o, let '(_, _, _, tr) := run (cache_set cfg k v) w o in confined_trace W extra tr.
Proof. intros. apply confined_of_allc, cf_cache_set; auto. Qed.
Theorem C16_confined_put : forall W extra cfg k v, cfg_conf W extra cfg -> allowed_path W extra v = true ->
  forall w o, let '(_, _, _, tr) := run (cache_put cfg k v) w o in confined_trace W extra tr.
Proof. intros. apply confined_of_allc, cf_cache_put; auto. Qed.
Theorem C16_confined_write_temp : forall W extra b cfg k fd p, cfg_conf W extra cfg -> allowed_path W extra p = true ->
  forall w o, let '(_, _, _, tr) := run (cache_write_temp b cfg k fd p) w o in confined_trace W extra tr.
Proof. intros. apply confined_of_allc, cf_cache_write_temp; auto. Qed.
Theorem C16_confined_get : forall W extra cfg k, cfg_conf W extra cfg ->
  forall w o, let '(_, _, _, tr) := run (cache_get cfg k) w o in confined_trace W extra tr.
Proof. intros. apply confined_of_allc, cf_cache_get; auto. Qed.
Theorem C16_confined_touch : forall W extra cfg k,
  forall w o, let '(_, _, _, tr) := run (cache_touch cfg k) w o in confined_trace W extra tr.
Proof. intros. apply confined_of_allc, cf_cache_touch. Qed.
Theorem C16_confined_get_or_update : forall W extra cfg k j pop,
  cfg_conf W extra cfg -> judge_cf W extra j -> pop_cf W extra pop ->
  forall w o, let '(_, _, _, tr) := run (get_or_update cfg k j pop) w o in confined_trace W extra tr.
Proof. intros. apply confined_of_allc, cf_get_or_update; auto. Qed.

(** The same inside ANY pool of concurrent participants under ANY schedule, at
    any point of the execution (interference is just another environment). *)
Theorem C16_confined_in_any_pool : forall W extra cfg k v, cfg_conf W extra cfg -> allowed_path W extra v = true ->
  Proofs.PoolLift.class_in_any_pool (conf W extra) (cache_set cfg k v) /\
  Proofs.PoolLift.class_in_any_pool (conf W extra) (cache_put cfg k v) /\
  Proofs.PoolLift.class_in_any_pool (conf W extra) (cache_get cfg k).
Proof.
  intros. split; [|split]; eapply Proofs.PoolLift.allc_pool;
    [apply cf_cache_set|apply cf_cache_put|apply cf_cache_get]; auto.
Qed.
Theorem C16_reject_in_any_pool : forall roots cfg k src, valid_name (k_name k) = false -> under roots src = false ->
  Proofs.PoolLift.class_in_any_pool (away roots) (cache_set cfg k src) /\
  Proofs.PoolLift.class_in_any_pool (away roots) (cache_put cfg k src).
Proof.
  intros roots cfg k src Hbad Hsrc. split; eapply Proofs.PoolLift.allc_pool;
    [exact (rej_cache_set roots (k_name k) Hbad k eq_refl cfg src Hsrc)|exact (rej_cache_put roots (k_name k) Hbad k eq_refl cfg src Hsrc)].
Qed.

(** The key path itself: directly inside the directory, under the validated
    name (one segment, no separator). *)
Theorem C16_key_path_shape : forall d name, cd_base d ++ [name] = cd_base d ++ [name] /\
  (valid_name name = true -> ~ In "/"%char (chars_of name)).
Proof. intros. split; [reflexivity|]. intros H. apply valid_name_spec in H. tauto. Qed.
