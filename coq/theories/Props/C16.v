(** C16 — Keys are validated and confined to the cache directory. *)
From Coq Require Import List NArith String Ascii Bool.
From Kismet Require Import Gen.Constants Gen.Agree Pure.Pinned Pure.Hash Proofs.HashProofs.
Import ListNotations.

(** The validation rule, as read from the current source: non-empty, first
    byte none of '.', '/', '\\', and no '/' anywhere. *)
Theorem C16_validation_rule_current_source :
  Constants.RESERVED_FIRST_BYTES = [46; 47; 92]%N /\ Constants.EMPTY_NAME_REJECTED = true /\
  Constants.SEPARATOR_REJECTED = true.
Proof. repeat split. Qed.

Theorem C16_valid_name_spec : forall name,
  valid_name name = true <->
  (exists a rest, name = String a rest /\ a <> "."%char /\ a <> "/"%char /\ a <> "\"%char) /\
  ~ In "/"%char (chars_of name).
Proof. exact valid_name_spec. Qed.
