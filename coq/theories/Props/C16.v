(** C16 — Keys are validated and confined to the cache directory. *)
From Coq Require Import List NArith String Ascii Bool.
From Kismet Require Import Gen.Constants Gen.Agree Pure.Pinned Pure.Hash Proofs.HashProofs.
Import ListNotations.

(** The validation rule, as read from the current source: non-empty, first
    byte none of '.', '/', '\\', and no '/' anywhere. *)
Theorem C16_validation_rule_current_source :
  Constants.RESERVED_FIRST_BYTES = [46; 47; 92]%N /\ Constants.EMPTY_NAME_REJECTED = true /\
  Constants.SEPARATOR_REJECTED = true.
Proof. repeat split. Qed.

Theorem C16_valid_name_spec : forall name,
  valid_name name = true <->
  (exists a rest, name = String a rest /\ a <> "."%char /\ a <> "/"%char /\ a <> "\"%char) /\
  ~ In "/"%char (chars_of name).
Proof. exact valid_name_spec. Qed.

(** * Rejection: an invalid name is refused before any cache directory is touched *)
From Kismet Require Import FS.Fs FS.Prog Ops.Ops Spec.ClassMon Proofs.RejectProofs.

(** On every run (every filesystem state, fault and oracle), for every invalid
    name: the result is InvalidInput and NO call of the operation names a path
    under any of the given directories [roots] — in particular under the cache
    directories.  Lookups need a non-empty stack; writes first flush the
    caller's source file (outside the cache) and report Unsupported when there
    is no write cache. *)
Definition no_call_under (roots : list path) (tr : list event) : Prop :=
  Forall (fun ev => match ev with EvCall c _ => away roots c = true | _ => True end) tr.

Theorem C16_reject_get : forall roots cfg k, valid_name (k_name k) = false -> nonempty_stack cfg ->
  forall w o, let '(r, _, _, tr) := run (cache_get cfg k) w o in r = Err InvalidInput /\ no_call_under roots tr.
Proof.
  intros roots cfg k Hbad Hne w o.
  exact (allc_run _ _ _ (rej_cache_get roots (k_name k) Hbad k eq_refl cfg Hne) w o).
Qed.

Theorem C16_reject_touch : forall roots cfg k, valid_name (k_name k) = false -> nonempty_stack cfg ->
  forall w o, let '(r, _, _, tr) := run (cache_touch cfg k) w o in r = Err InvalidInput /\ no_call_under roots tr.
Proof.
  intros roots cfg k Hbad Hne w o.
  exact (allc_run _ _ _ (rej_cache_touch roots (k_name k) Hbad k eq_refl cfg Hne) w o).
Qed.

Theorem C16_reject_set : forall roots cfg k src, valid_name (k_name k) = false -> under roots src = false ->
  forall w o, let '(r, _, _, tr) := run (cache_set cfg k src) w o in write_rejected cfg r /\ no_call_under roots tr.
Proof.
  intros roots cfg k src Hbad Hsrc w o.
  exact (allc_run _ _ _ (rej_cache_set roots (k_name k) Hbad k eq_refl cfg src Hsrc) w o).
Qed.

Theorem C16_reject_put : forall roots cfg k src, valid_name (k_name k) = false -> under roots src = false ->
  forall w o, let '(r, _, _, tr) := run (cache_put cfg k src) w o in write_rejected cfg r /\ no_call_under roots tr.
Proof.
  intros roots cfg k src Hbad Hsrc w o.
  exact (allc_run _ _ _ (rej_cache_put roots (k_name k) Hbad k eq_refl cfg src Hsrc) w o).
Qed.

Theorem C16_reject_get_or_update : forall roots cfg k j pop wr, valid_name (k_name k) = false -> s_writer cfg = Some wr ->
  forall w o, let '(r, _, _, tr) := run (get_or_update cfg k j pop) w o in r = Err InvalidInput /\ no_call_under roots tr.
Proof.
  intros roots cfg k j pop wr Hbad Hw w o.
  exact (allc_run _ _ _ (rej_get_or_update roots (k_name k) Hbad k eq_refl cfg j pop wr Hw) w o).
Qed.

(** Non-vacuity: names the rule rejects, and one it accepts. *)
Example C16_examples :
  valid_name "" = false /\ valid_name ".x" = false /\ valid_name "/abs" = false /\ valid_name "\b" = false /\
  valid_name "x/../../escaped" = false /\ valid_name "n/m" = false /\ valid_name "k3/" = false /\
  valid_name "ok-name_1" = true /\ valid_name "a..b" = true.
Proof. vm_compute. repeat split. Qed.
