(** C17 — Maintenance deletes only cache entries and stale temporary files.

    Kernel-checked, for ARBITRARY environment responses: every unlink issued by
    the maintenance step [definitely_cleanup] names a DIRECT entry that it has
    itself just listed in the cache directory or in its temp directory (it lists
    no other directory), and that entry is either (a) not dot-prefixed and was
    shown by stat to be a non-directory, or (b) was shown by stat to be older
    than the age limit relative to the clock reading taken before the scan.
    The age limit, regenerated from the source, is one hour.
    And the sweep is complete: for arbitrary responses it stats EVERY listed entry
    of the temp directory and each one measured older than the limit is
    immediately followed by the unlink of that very path
    ([C17_sweep_is_complete]); in the kernel model, fault-free, every entry that
    was measured as a stale non-directory is unbound when the sweep returns
    ([C17_stale_files_do_go]). *)
From Coq Require Import List NArith ZArith String Bool.
From Kismet Require Import Gen.Constants Gen.Agree Pure.Pinned FS.Fs FS.Prog Spec.Wp Ops.Ops Proofs.MaintScope Seq.Plain Seq.Sane Proofs.TempSweep.
Import ListNotations.

Theorem C17_maintenance_scope : forall d base s,
  wp (m_step [base; cd_temp d]) (definitely_cleanup d base) (fun _ s' => ext s s') s.
Proof.
  intros. apply definitely_cleanup_scope; cbn [existsb]; rewrite path_eqb_refl; rewrite ?orb_true_r; reflexivity.
Qed.

Theorem C17_maintenance_scope_on_every_run : forall d base w o,
  let '(_, _, _, tr) := run (definitely_cleanup d base) w o in
  exists s', mon_run (m_step [base; cd_temp d]) m_init tr = Some s'.
Proof. exact definitely_cleanup_scope_run. Qed.

(** The sweep is complete relative to what it measures (all responses). *)
Theorem C17_sweep_is_complete : forall temp s0, w_pend s0 = None ->
  wp (ws_step temp) (cleanup_temporary_directory temp)
     (fun r s' => match r with
                  | Ok _ => w_pend s' = None /\ (w_todo s' = Some [] \/ w_todo s' = w_todo s0)
                  | _ => True
                  end) s0.
Proof. exact sweep_is_complete. Qed.

(** In the kernel model, fault-free: what was measured stale and not a directory is gone. *)
Theorem C17_stale_files_do_go : forall temp w o, plainp temp = true ->
  o_fault o = None -> names_plain (w_fs w) ->
  let '(r, w', _, tr) := run (cleanup_temporary_directory temp) w o in
  exists s', mon_run (lift (ws_step temp)) (Some (mkW None None None [])) tr = Some (Some s') /\
    (forall p, In p (w_gone s') -> name_of (w_fs w') p = None) /\
    match r with Ok _ => w_pend s' = None /\ (w_todo s' = Some [] \/ w_todo s' = None) | _ => True end.
Proof. intros temp w o Ht. exact (stale_files_do_go temp Ht w o). Qed.

(** The sweep monitor: a stale measurement must be followed at once by the unlink
    of that path, and a non-directory so removed is recorded as gone. *)
Theorem C17_sweep_monitor_meaning : forall temp n rest st q,
  (st_mtime st <? 100)%Z = true ->
  ws_step temp (mkW (Some 100%Z) (Some (n :: rest)) None []) (EvCall (CStat (temp ++ [n]) false) (RStat st))
    = Some (mkW (Some 100%Z) (Some rest) (Some (temp ++ [n], st_dir st)) []) /\
  ws_step temp (mkW (Some 100%Z) (Some rest) (Some (temp ++ [n], false)) []) (EvCall (CUnlink (temp ++ [n])) ROk)
    = Some (mkW (Some 100%Z) (Some rest) None [temp ++ [n]]) /\
  ws_step temp (mkW (Some 100%Z) (Some rest) (Some (temp ++ [n], false)) []) (EvCall (CStat q false) (RStat st)) = None.
Proof.
  intros temp n rest st q H. cbn [ws_step w_pend w_todo w_thr w_gone]. rewrite !Proofs.PutNeverOverwrites.path_eqb_refl, H. repeat split.
Qed.

(** Reading the monitor: an unlink is accepted only under this condition. *)
Theorem C17_what_the_monitor_accepts : forall dirs s p r s',
  m_step dirs s (EvCall (CUnlink p) r) = Some s' ->
  exists d n, In (d, n) (m_listed s) /\ p = d ++ [n] /\
    ((dot_prefixed n = false /\ In p (m_files s)) \/ In p (m_stale s)).
Proof.
  intros dirs s p r s' H. cbn [m_step] in H. destruct (unlink_ok s p) eqn:Hok; [|discriminate].
  unfold unlink_ok in Hok. apply existsb_exists in Hok. destruct Hok as ([d n] & Hin & Hc).
  apply andb_true_iff in Hc. destruct Hc as (Hp & Hc).
  assert (Hpe : forall a b, path_eqb a b = true -> a = b) by (intros a b Hab; unfold path_eqb in Hab; destruct (path_eq_dec a b); congruence).
  exists d, n. split; [exact Hin|]. split; [apply Hpe, Hp|].
  apply orb_true_iff in Hc. destruct Hc as [Hc|Hc].
  - left. apply andb_true_iff in Hc. destruct Hc as (Hd & Hf). split; [destruct (dot_prefixed n); [discriminate|reflexivity]|].
    apply existsb_exists in Hf. destruct Hf as (x & Hx & He). apply Hpe in He. subst. exact Hx.
  - right. apply existsb_exists in Hc. destruct Hc as (x & Hx & He). apply Hpe in He. subst. exact Hx.
Qed.

Theorem C17_age_limit_one_hour : MAX_AGE_NS = 3600000000000%Z.
Proof. unfold MAX_AGE_NS. rewrite max_age_agrees. reflexivity. Qed.

(** Non-vacuity: a cache directory over capacity with an application dot-file and
    a sub-directory, and a temp directory holding one stale and one young file.
    Maintenance unlinks exactly the oldest unread entry and the stale temp file;
    the dot-file, the sub-directory and the young temp file are never named. *)
Example C17_example :
  let mkf (f : fs) (p : path) (m a : Z) :=
    let '(f1, i) := alloc_inode f (mkInode false [65%N] 292 m a 1 true) in
    set_names f1 ((p, i) :: names f1) in
  let mkd (f : fs) (p : path) :=
    let '(f1, i) := alloc_inode f (mkInode true [] 493 0%Z 0%Z 2 true) in
    set_names f1 ((p, i) :: names f1) in
  let f := mkd (mkd (mkd empty_fs ["w"%string]) ["w"; ".kismet_temp"]%string) ["w"; "sub"]%string in
  let f := mkf (mkf (mkf (mkf f ["w"; "a"]%string 100%Z 50%Z) ["w"; "b"]%string 101%Z 50%Z) ["w"; "c"]%string 102%Z 50%Z) ["w"; ".appdata"]%string 1%Z 1%Z in
  let now := 10000000000000%Z in
  let f := mkf (mkf f ["w"; ".kismet_temp"; ".tmpOLD"]%string 5%Z 5%Z) ["w"; ".kismet_temp"; ".tmpNEW"]%string (now - 1000)%Z (now - 1000)%Z in
  let d := mkCdir ["w"%string] 2 1 in
  let '(_, _, _, tr) := run (definitely_cleanup d ["w"%string]) (mkWorld f 0 []) (mkOracle [now; now] [] [] [] [] None 0 1%Z Relatime) in
  (exists s', mon_run (m_step [["w"%string]; ["w"; ".kismet_temp"]%string]) m_init tr = Some s') /\
  filter (fun ev => match ev with EvCall (CUnlink _) _ => true | _ => false end) tr
  = [EvCall (CUnlink ["w"; "a"]%string) ROk; EvCall (CUnlink ["w"; ".kismet_temp"; ".tmpOLD"]%string) ROk].
Proof. vm_compute. split; [eexists; reflexivity|reflexivity]. Qed.
