(** C17 — Maintenance deletes only cache entries and stale temporary files. (interim) *)
From Coq Require Import List NArith ZArith String Bool.
From Kismet Require Import Gen.Constants Gen.Agree Pure.Pinned Ops.Ops.
Theorem C17_age_limit_one_hour : MAX_AGE_NS = 3600000000000%Z.
Proof. unfold MAX_AGE_NS. rewrite max_age_agrees. reflexivity. Qed.
