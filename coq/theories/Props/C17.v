(** C17 — Maintenance deletes only cache entries and stale temporary files.

    Kernel-checked, for ARBITRARY environment responses: every unlink issued by
    the maintenance step [definitely_cleanup] names a DIRECT entry that it has
    itself just listed in the cache directory or in its temp directory (it lists
    no other directory), and that entry is either (a) not dot-prefixed and was
    shown by stat to be a non-directory, or (b) was shown by stat to be older
    than the age limit relative to the clock reading taken before the scan.
    The age limit, regenerated from the source, is one hour. *)
From Coq Require Import List NArith ZArith String Bool.
From Kismet Require Import Gen.Constants Gen.Agree Pure.Pinned FS.Fs FS.Prog Spec.Wp Ops.Ops Proofs.MaintScope.
Import ListNotations.

Theorem C17_maintenance_scope : forall d base s,
  wp (m_step [base; cd_temp d]) (definitely_cleanup d base) (fun _ s' => ext s s') s.
Proof.
  intros. apply definitely_cleanup_scope; cbn [existsb]; rewrite path_eqb_refl; rewrite ?orb_true_r; reflexivity.
Qed.

Theorem C17_maintenance_scope_on_every_run : forall d base w o,
  let '(_, _, _, tr) := run (definitely_cleanup d base) w o in
  exists s', mon_run (m_step [base; cd_temp d]) m_init tr = Some s'.
Proof. exact definitely_cleanup_scope_run. Qed.

(** Reading the monitor: an unlink is accepted only under this condition. *)
Theorem C17_what_the_monitor_accepts : forall dirs s p r s',
  m_step dirs s (EvCall (CUnlink p) r) = Some s' ->
  exists d n, In (d, n) (m_listed s) /\ p = d ++ [n] /\
    ((dot_prefixed n = false /\ In p (m_files s)) \/ In p (m_stale s)).
Proof.
  intros dirs s p r s' H. cbn [m_step] in H. destruct (unlink_ok s p) eqn:Hok; [|discriminate].
  unfold unlink_ok in Hok. apply existsb_exists in Hok. destruct Hok as ([d n] & Hin & Hc).
  apply andb_true_iff in Hc. destruct Hc as (Hp & Hc).
  assert (Hpe : forall a b, path_eqb a b = true -> a = b) by (intros a b Hab; unfold path_eqb in Hab; destruct (path_eq_dec a b); congruence).
  exists d, n. split; [exact Hin|]. split; [apply Hpe, Hp|].
  apply orb_true_iff in Hc. destruct Hc as [Hc|Hc].
  - left. apply andb_true_iff in Hc. destruct Hc as (Hd & Hf). split; [destruct (dot_prefixed n); [discriminate|reflexivity]|].
    apply existsb_exists in Hf. destruct Hf as (x & Hx & He). apply Hpe in He. subst. exact Hx.
  - right. apply existsb_exists in Hc. destruct Hc as (x & Hx & He). apply Hpe in He. subst. exact Hx.
Qed.

Theorem C17_age_limit_one_hour : MAX_AGE_NS = 3600000000000%Z.
Proof. unfold MAX_AGE_NS. rewrite max_age_agrees. reflexivity. Qed.
