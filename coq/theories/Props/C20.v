(** C20 — Per-operation resource use is constant.
    Statements only; proofs in Spec/FdMon.v and Spec/CountMon.v.

    Both monitors are evaluated along the complete call trace of an operation.
    The theorems are proved for ARBITRARY call results (Spec/Wp.v), so they hold
    for every directory population, every fault and every interference; the
    corollaries below restate them for every sequential run of the model. *)
From Coq Require Import List NArith ZArith String Bool Arith Lia.
From Kismet Require Import FS.Fs FS.Prog Ops.Ops Ops.Client Spec.Wp Spec.FdMon Spec.CountMon.
Import ListNotations.
Local Open Scope Z_scope.

(** ** Descriptors: peak and residual, for every world and oracle *)
Definition fd_profile {A} (p : prog A) (peak : Z) (residual : A -> Z) : Prop :=
  forall w o, let '(a, _, _, tr) := run p w o in
    exists cur pk, mon_run fd_step (0, 0) tr = Some (cur, pk) /\ cur = residual a /\ pk <= peak.

Lemma fdt_profile {A} (p : prog A) pk d : 0 <= pk -> fdt p pk d -> fd_profile p pk d.
Proof.
  intros Hpk H w o. pose proof (wp_run fd_step p _ (0, 0) w o (H 0 0)) as Hr.
  destruct (run p w o) as [[[a w'] o'] tr]. destruct Hr as ([cur pk'] & Hm & Hc & Hp). cbn [fst snd] in *.
  exists cur, pk'. repeat split; auto; lia.
Qed.

(** get: one descriptor (three while a checker compares copies), the returned
    handle is the only one left open. *)
Theorem C20_get_descriptors : forall cfg k, cfg_ok cfg ->
  fd_profile (cache_get cfg k) (1 + chk_extra cfg) some1.
Proof. intros. apply fdt_profile; [unfold chk_extra; destruct (s_checker cfg); lia|apply fdt_cache_get; auto]. Qed.

Theorem C20_touch_descriptors : forall cfg k, fd_profile (cache_touch cfg k) 1 (fun _ => 0).
Proof. intros. apply fdt_profile; [lia|apply fdt_cache_touch]. Qed.

(** set / put, including any maintenance they trigger: one at a time, none left open. *)
Theorem C20_set_descriptors : forall cfg k v, fd_profile (cache_set cfg k v) 1 (fun _ => 0).
Proof. intros. apply fdt_profile; [lia|apply fdt_cache_set]. Qed.
Theorem C20_put_descriptors : forall cfg k v, fd_profile (cache_put cfg k v) 1 (fun _ => 0).
Proof. intros. apply fdt_profile; [lia|apply fdt_cache_put]. Qed.

(** ensure / get_or_update, maintenance included: at most two, three when a
    checker is configured — whatever the judge, populate and checker do (as long
    as they neither leak nor hold descriptors of their own). *)
Theorem C20_get_or_update_descriptors : forall cfg k j pop,
  cfg_ok cfg -> judge_ok j -> pop_ok pop -> fd_profile (get_or_update cfg k j pop) (2 + chk1 cfg) ok1.
Proof. intros. apply fdt_profile; [unfold chk1; destruct (s_checker cfg); lia|apply fdt_get_or_update; auto]. Qed.
Theorem C20_ensure_descriptors : forall cfg k pop,
  cfg_ok cfg -> pop_ok pop -> fd_profile (ensure cfg k pop) (2 + chk1 cfg) ok1.
Proof. intros. apply fdt_profile; [unfold chk1; destruct (s_checker cfg); lia|apply fdt_ensure; auto]. Qed.

(** Maintenance alone: one descriptor at a time (the listing is closed before
    any entry is unlinked or re-stamped). *)
Theorem C20_prune_descriptors : forall dir cap, fd_profile (prune dir cap) 1 (fun _ => 0).
Proof. intros. apply fdt_profile; [lia|apply fdt_prune]. Qed.

(** Record of finding F5: the code as originally pinned applied the plan with
    the listing still open ([prune_pinned]); on a directory where one entry must
    be reprieved it holds the listing AND the descriptor used to re-stamp that
    entry — with the handle [ensure] returns, three.  Witness: a directory with
    an old, read entry and two newer ones, capacity 2. *)
Definition f5_world : world :=
  let mk (f : fs) (name : string) (m a : Z) :=
    let '(f1, i) := alloc_inode f (mkInode false [65%N] 292 m a 1 true) in
    set_names f1 ((["w"%string; name], i) :: names f1) in
  let '(f0, d) := alloc_inode empty_fs (mkInode true [] 493 0 0 2 true) in
  let f0 := set_names f0 ((["w"%string], d) :: names f0) in
  mkWorld (mk (mk (mk f0 "a"%string 100 200) "b"%string 101 50) "c"%string 102 50) 0 [].
Definition f5_oracle : oracle := mkOracle [1000; 1001] [] [] [] [] None 0 1 Relatime.

Example C20_peak_refuted_pinned :
  let '(_, _, _, tr) := run (prune_pinned ["w"%string] 2) f5_world f5_oracle in
  mon_run fd_step (0, 0) tr = Some (0, 2)
  /\ let '(_, _, _, tr') := run (prune ["w"%string] 2) f5_world f5_oracle in
     mon_run fd_step (0, 0) tr' = Some (0, 1).
Proof. vm_compute. split; reflexivity. Qed.

(** ** Calls: a budget that depends on the configuration only *)
Definition call_profile {A} (p : prog A) (budget : Z) : Prop :=
  forall w o, let '(_, _, _, tr) := run p w o in
    exists n quiet, mon_run c_step (0, true) tr = Some (n, quiet) /\ (quiet = true -> n <= budget).

Lemma cnt_profile {A} (p : prog A) K Q : cntq p K Q -> call_profile p K.
Proof.
  intros H w o. pose proof (wp_run c_step p _ (0, true) w o (H 0 true)) as Hr.
  destruct (run p w o) as [[[a w'] o'] tr]. destruct Hr as ([n q] & Hm & Hq). cbn [fst snd] in *.
  exists n, q. split; auto. intros Hq'. destruct (Hq Hq'). lia.
Qed.

(** While no maintenance is requested (the trigger does not fire, the sharded
    overload test does not ask for it) get, touch, set and put list no directory
    and issue at most [budget cfg] calls: a function of the configuration
    (front-end kinds, depth of the configured paths, number of read-only
    levels), not of the directory contents. *)
Theorem C20_get_calls : forall cfg k, s_checker cfg = None -> call_profile (cache_get cfg k) (stack_get_budget cfg).
Proof. intros. eapply cnt_profile, cnt_cache_get; auto. Qed.
Theorem C20_touch_calls : forall cfg k, call_profile (cache_touch cfg k) (stack_touch_budget cfg).
Proof. intros. eapply cnt_profile, cnt_cache_touch. Qed.
Theorem C20_set_calls : forall cfg k v, call_profile (cache_set cfg k v) (stack_write_budget cfg).
Proof. intros. eapply cnt_profile, cnt_cache_set. Qed.
Theorem C20_put_calls : forall cfg k v, call_profile (cache_put cfg k v) (stack_write_budget cfg).
Proof. intros. eapply cnt_profile, cnt_cache_put. Qed.

(** A lookup in one cache directory makes at most 3 calls (plain: open, fstat,
    futimens) or 6 (sharded: the same in each of the key's two shards), hence at
    most two open attempts per directory. *)
Theorem C20_lookup_calls_per_directory : forall f k, call_profile (f_get f k) (get_budget f) /\ get_budget f <= 6.
Proof. intros. split; [eapply cnt_profile, cnt_f_get|destruct f; cbn; lia]. Qed.

(** No lock: the call vocabulary of the model has no locking primitive, and a
    program can only issue calls from that vocabulary (the correspondence check
    fails any implementation trace containing flock/fcntl-lock/lockf). *)
Theorem C20_no_lock_in_vocabulary : forall c : call,
  match c with
  | COpen _ _ | CCreate _ _ | CCreateTrunc _ _ | COpenTmp _ | CClose _ | CFstat _ | CStat _ _ | CRead _ _
  | CWrite _ _ | CCopy _ _ | CSeek _ _ | CFchmod _ _ | CChmod _ _ | CFutimens _ _ _ | CFsync _
  | CRename _ _ | CLink _ _ | CUnlink _ | CMkdir _ | COpenDir _ | CReadDir _ | CCloseDir _ => True
  end.
Proof. intros c. destruct c; exact I. Qed.

(** Choosing between a key's two shards, and keeping the in-memory load estimates, makes no
    filesystem call at all (all responses): the estimates are consulted, never the directories. *)
From Kismet Require Import Spec.ClassMon Spec.Calm.
Theorem C20_choosing_a_shard_makes_no_call : forall h n t ids u,
  allc (fun _ => false) (sort_by_load h n t ids) anyc /\ allc (fun _ => false) (update_estimate h (fst ids) u) anyc.
Proof.
  intros h n t ids u. split.
  - unfold sort_by_load. allc_auto.
  - unfold update_estimate. allc_auto.
Qed.
