(** C07 — Maintenance evicts exactly what Second Chance prescribes, on disk.

    Kernel-checked, for ARBITRARY environment responses (every directory
    population, every interference, every fault): if [prune dir cap] reports
    success, the unlink calls it issued are — exactly and in order — the victims
    that the planner computes from what prune itself observed (the listed,
    non-dot, non-directory entries with the mtime and read mark stat returned,
    in listing order).  C08 proves that this planner IS the classical Second
    Chance clock for all inputs and capacities.  What a run of the real code
    observes and does is tied to this model by vlib/c07.py (populations x
    capacities, traces equal; the unlink order judged by the proved verdict). *)
From Coq Require Import List NArith ZArith String Bool.
From Kismet Require Import FS.Fs FS.Prog Ops.Ops Spec.Wp Pure.SecondChance Proofs.SecondChanceProofs Proofs.PruneExact Proofs.MaintScope.
Import ListNotations.

Theorem C07_prune_evicts_exactly_the_plan : forall dir cap,
  wp o_step (prune dir cap)
     (fun r s' => match r with
                  | Ok (est, nev) =>
                      exists ev mb, plan (entries_of (o_obs s')) cap = Some (ev, mb) /\
                        o_unl s' = map (fun e => dir ++ [name_at (o_obs s') e]) ev /\
                        nev = N.of_nat (List.length ev)
                  | _ => True
                  end) o_init.
Proof. exact prune_evicts_exactly_the_plan. Qed.

(** ... hence on every sequential run, from every filesystem state and oracle. *)
Theorem C07_on_every_run : forall dir cap w o,
  let '(r, _, _, tr) := run (prune dir cap) w o in
  exists s', mon_run o_step o_init tr = Some s' /\
    match r with
    | Ok (est, nev) =>
        exists ev mb, plan (entries_of (o_obs s')) cap = Some (ev, mb) /\
          o_unl s' = map (fun e => dir ++ [name_at (o_obs s') e]) ev /\ nev = N.of_nat (List.length ev)
    | _ => True
    end.
Proof. intros. apply (wp_run o_step _ _ o_init w o (prune_evicts_exactly_the_plan dir cap)). Qed.

(** The candidates handed to the planner are tagged with their listing position. *)
Theorem C07_entries_tagged : forall files, map eid (entries_of files) = seq 0 (List.length files).
Proof.
  intros files. unfold entries_of. rewrite map_map.
  assert (H : forall (l : list cfile) s, map (fun x : nat * cfile => eid (let '(i, f) := x in mkEntry i (cf_mtime f) (cf_acc f))) (combine (seq s (List.length l)) l) = seq s (List.length l)).
  { induction l as [|f l IH]; intros s; cbn; [reflexivity|]. f_equal. apply IH. }
  apply H.
Qed.

(** Non-vacuity: three old entries, one of them read, capacity 2: one eviction, the oldest unread. *)
Example C07_example :
  let mk (f : fs) (name : string) (m a : Z) :=
    let '(f1, i) := alloc_inode f (mkInode false [65%N] 292 m a 1 true) in
    set_names f1 ((["w"%string; name], i) :: names f1) in
  let '(f0, d) := alloc_inode empty_fs (mkInode true [] 493 0%Z 0%Z 2 true) in
  let f0 := set_names f0 ((["w"%string], d) :: names f0) in
  let w := mkWorld (mk (mk (mk f0 "a"%string 100 200) "b"%string 101 50) "c"%string 102 50)%Z 0 [] in
  let '(r, _, _, tr) := run (prune ["w"%string] 2) w (mkOracle [1000; 1001]%Z [] [] [] [] None 0 1%Z Relatime) in
  r = Ok (2%N, 1%N) /\ option_map o_unl (mon_run o_step o_init tr) = Some [["w"; "b"]%string].
Proof. vm_compute. split; reflexivity. Qed.
