(** C07 — Maintenance evicts exactly what Second Chance prescribes, on disk.

    Kernel-checked, for ARBITRARY environment responses (every directory
    population, every interference, every fault): if [prune dir cap] reports
    success, the unlink calls it issued are — exactly and in order — the victims
    that the planner computes from what prune itself observed (the listed,
    non-dot, non-directory entries with the mtime and read mark stat returned,
    in listing order).  C08 proves that this planner IS the classical Second
    Chance clock for all inputs and capacities.  Likewise for the reprieves: the
    entries prune sets out to re-stamp are, exactly and in order, those the
    planner moves back, after all evictions
    ([C07_prune_reprieves_exactly_the_plan]); and every two-time stamp issued by
    maintenance or by a writer carries (now - 120 s, now) for the last clock
    reading ([C07_restamp_values]): a reprieved entry becomes the youngest and
    loses its read mark.  What a run of the real code
    observes and does is tied to this model by vlib/c07.py (populations x
    capacities, traces equal; the unlink order judged by the proved verdict). *)
From Coq Require Import List NArith ZArith String Bool.
From Kismet Require Import FS.Fs FS.Prog Ops.Ops Spec.Wp Pure.SecondChance Proofs.SecondChanceProofs Proofs.PruneExact Proofs.MaintScope Proofs.ReprieveExact Proofs.Restamp.
Import ListNotations.

Theorem C07_prune_evicts_exactly_the_plan : forall dir cap,
  wp o_step (prune dir cap)
     (fun r s' => match r with
                  | Ok (est, nev) =>
                      exists ev mb, plan (entries_of (o_obs s')) cap = Some (ev, mb) /\
                        o_unl s' = map (fun e => dir ++ [name_at (o_obs s') e]) ev /\
                        nev = N.of_nat (List.length ev)
                  | _ => True
                  end) o_init.
Proof. exact prune_evicts_exactly_the_plan. Qed.

(** ... hence on every sequential run, from every filesystem state and oracle. *)
Theorem C07_on_every_run : forall dir cap w o,
  let '(r, _, _, tr) := run (prune dir cap) w o in
  exists s', mon_run o_step o_init tr = Some s' /\
    match r with
    | Ok (est, nev) =>
        exists ev mb, plan (entries_of (o_obs s')) cap = Some (ev, mb) /\
          o_unl s' = map (fun e => dir ++ [name_at (o_obs s') e]) ev /\ nev = N.of_nat (List.length ev)
    | _ => True
    end.
Proof. intros. apply (wp_run o_step _ _ o_init w o (prune_evicts_exactly_the_plan dir cap)). Qed.

(** The candidates handed to the planner are tagged with their listing position. *)
(** The reprieves: exactly the planner's move-back list, in order, after the evictions. *)
Theorem C07_prune_reprieves_exactly_the_plan : forall dir cap,
  wp r_step (prune dir cap)
     (fun r s' => match r with
                  | Ok (est, nev) =>
                      exists ev mb, plan (entries_of (r_obs s')) cap = Some (ev, mb) /\
                        r_unl s' = map (fun e => dir ++ [name_at (r_obs s') e]) ev /\
                        r_stp s' = map (fun e => dir ++ [name_at (r_obs s') e]) mb /\
                        r_late s' = false
                  | _ => True
                  end) r_init.
Proof. exact prune_reprieves_exactly_the_plan. Qed.

Theorem C07_reprieves_on_every_run : forall dir cap w o,
  let '(r, _, _, tr) := run (prune dir cap) w o in
  exists s', mon_run r_step r_init tr = Some s' /\
    match r with
    | Ok (est, nev) => exists ev mb, plan (entries_of (r_obs s')) cap = Some (ev, mb) /\
                         r_stp s' = map (fun e => dir ++ [name_at (r_obs s') e]) mb /\ r_late s' = false
    | _ => True
    end.
Proof.
  intros dir cap w o. pose proof (wp_run r_step (prune dir cap) _ r_init w o (prune_reprieves_exactly_the_plan dir cap)) as H.
  destruct (run (prune dir cap) w o) as [[[r w'] o'] tr]. destruct H as (s' & Hm & HQ). exists s'. split; [exact Hm|].
  destruct r as [[est nev]|e|]; auto. destruct HQ as (ev & mb & Hp & _ & Hs & Hl). exists ev, mb. auto.
Qed.

(** The values: every futimens that sets both times carries (t - 120 s, t) for the
    last clock reading t - in maintenance and in the writers, whatever the responses. *)
Theorem C07_restamp_values : forall dir cap d base (which : bool) name v,
  rs (prune dir cap) /\ rs (definitely_cleanup d base) /\
  rs (cd_publish (if which then insert_or_update else insert_or_touch) d name v).
Proof. intros. split; [apply rs_prune|split; [apply rs_definitely_cleanup|apply rs_cd_publish]]. Qed.

Theorem C07_restamp_values_on_every_run : forall dir cap w o s,
  let '(_, _, _, tr) := run (prune dir cap) w o in mon_run rs_step s tr <> None.
Proof. intros dir cap w o s. exact (restamp_run _ (rs_prune dir cap) w o s). Qed.

Theorem C07_restamp_monitor : forall fd a m t r,
  rs_step (Some t) (EvCall (CFutimens fd (Some a) (Some m)) r) =
  if ((m =? t) && (a =? t - 120 * 1000000000))%Z%bool then Some (Some t) else None.
Proof. intros. reflexivity. Qed.

Theorem C07_entries_tagged : forall files, map eid (entries_of files) = seq 0 (List.length files).
Proof.
  intros files. unfold entries_of. rewrite map_map.
  assert (H : forall (l : list cfile) s, map (fun x : nat * cfile => eid (let '(i, f) := x in mkEntry i (cf_mtime f) (cf_acc f))) (combine (seq s (List.length l)) l) = seq s (List.length l)).
  { induction l as [|f l IH]; intros s; cbn; [reflexivity|]. f_equal. apply IH. }
  apply H.
Qed.

(** Non-vacuity: three old entries, one of them read, capacity 2: one eviction, the oldest unread. *)
Example C07_example :
  let mk (f : fs) (name : string) (m a : Z) :=
    let '(f1, i) := alloc_inode f (mkInode false [65%N] 292 m a 1 true) in
    set_names f1 ((["w"%string; name], i) :: names f1) in
  let '(f0, d) := alloc_inode empty_fs (mkInode true [] 493 0%Z 0%Z 2 true) in
  let f0 := set_names f0 ((["w"%string], d) :: names f0) in
  let w := mkWorld (mk (mk (mk f0 "a"%string 100 200) "b"%string 101 50) "c"%string 102 50)%Z 0 [] in
  let '(r, _, _, tr) := run (prune ["w"%string] 2) w (mkOracle [1000; 1001]%Z [] [] [] [] None 0 1%Z Relatime) in
  r = Ok (2%N, 1%N) /\ option_map o_unl (mon_run o_step o_init tr) = Some [["w"; "b"]%string].
Proof. vm_compute. split; reflexivity. Qed.

(** What maintenance looks at (all responses): the whole behaviour of a prune - ranking,
    evictions, re-stamps, result - depends, for each listed entry, on its name, on whether it is
    a directory and on its two times; link count, inode number, size and permission bits are
    never inspected.  A cached file with a second hard link is a candidate like any other.
    (Proofs/ScanInputs.v) *)
From Kismet Require Import Proofs.ScanInputs.
Theorem C07_maintenance_looks_at_name_kind_and_times_only : forall dir cap, blind (prune dir cap).
Proof. exact maintenance_looks_at_name_kind_and_times_only. Qed.

Theorem C07_blind_meaning : forall A c (k : res -> prog A) ino dirb mode size mt at_ nl ino' mode' size' nl',
  blind (Call c k) ->
  k (RStat (mkStat ino dirb mode size mt at_ nl)) = k (RStat (mkStat ino' dirb mode' size' mt at_ nl')).
Proof. intros A c k. exact (link_count_is_not_looked_at c k). Qed.

(** ... and the predicate is not vacuous: a program that reads the link count is not blind. *)
Example C07_blind_is_not_trivial :
  ~ blind (Call (CStat [] false) (fun r => match r with RStat st => Ret (st_nlink st) | _ => Ret 0%nat end)).
Proof. intros [He _]. specialize (He (RStat (mkStat 0 false 0 0 0 0 2))). discriminate He. Qed.
