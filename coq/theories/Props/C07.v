(** C07 — Maintenance evicts exactly what Second Chance prescribes, on disk. (interim) *)
From Coq Require Import List NArith ZArith String Bool.
From Kismet Require Import FS.Fs FS.Prog Ops.Ops Pure.SecondChance Proofs.SecondChanceProofs.
Import ListNotations.
(** The candidates handed to the planner are tagged with their listing
    position, so the plan's entries name listed files (C08's partition theorem
    then says victims and reprieved entries are distinct listed files). *)
Theorem C07_entries_tagged : forall files, map eid (entries_of files) = seq 0 (List.length files).
Proof.
  intros files. unfold entries_of. rewrite map_map.
  assert (H : forall (l : list cfile) s, map (fun x : nat * cfile => eid (let '(i, f) := x in mkEntry i (cf_mtime f) (cf_acc f))) (combine (seq s (List.length l)) l) = seq s (List.length l)).
  { induction l as [|f l IH]; intros s; cbn; [reflexivity|]. f_equal. apply IH. }
  apply H.
Qed.
