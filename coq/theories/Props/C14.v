(** C14 — A configured consistency checker sees every redundant copy.
    The comparisons made, in order, are part of the abstract specification
    (Spec/StackSpec.v: [o_cmps]) and of the observation of the model (ghost
    [Mark 1] emitted by every checker invocation with both contents), so the
    matrix sweep proves them equal on the property's whole matrix; the general
    lemmas below are about the specification itself, for stacks of any depth. *)
From Coq Require Import List NArith ZArith String Bool.
From Kismet Require Import Ops.Ops Spec.StackSpec Proofs.StackSweep.
Import ListNotations.

(** Model = specification, comparisons included, on the whole matrix
    (4 checker settings: none, byte-equality, panicking, counting). *)
Theorem C14_comparisons_matrix :
  forall c op, In c configs -> In op ops ->
    eq_cmps (o_cmps (ob_out (observe_op c op))) (o_cmps (spec_of c op)) = true /\
    eq_ares (o_res (ob_out (observe_op c op))) (o_res (spec_of c op)) = true.
Proof.
  assert (H : forallb (fun c => forallb (fun op => agrees c op) ops) configs = true)
    by (vm_compute; reflexivity).
  intros c op Hc Hop. rewrite forallb_forall in H. specialize (H c Hc).
  rewrite forallb_forall in H. specialize (H op Hop). unfold agrees, eq_out in H.
  repeat (apply andb_prop in H; destruct H as [H ?]). auto.
Qed.

(** For a lookup, any depth: the first read-only copy is compared with every
    later read-only copy, and the write-side copy (if any) with the first
    read-only copy; with no checker nothing is compared. *)
Definition present_of (rs : list (option value)) : list value :=
  flat_map (fun o => match o with Some v => [v] | None => [] end) rs.
Definition ro_pairs (rs : list (option value)) : list (value * value) :=
  match present_of rs with [] => [] | f :: rest => map (fun v => (f, v)) rest end.
Definition lookup_pairs (hw : bool) (w : option value) (rs : list (option value)) : list (value * value) :=
  match (if hw then w else None), present_of rs with
  | Some wv, f :: _ => ro_pairs rs ++ [(wv, f)]
  | _, _ => ro_pairs rs
  end.

Theorem C14_lookup_comparisons : forall hw w rs ck,
  o_cmps (spec hw w rs ck AGet) = if has_checker ck then fst (run_cmps ck (lookup_pairs hw w rs) []) else [].
Proof.
  intros. unfold spec, ro_lookup, lookup_pairs, ro_pairs, present_of.
  destruct (flat_map _ rs) as [|f rest]; destruct ck, hw, w; cbn; try reflexivity;
    try (destruct (run_cmps _ _ _); reflexivity).
Qed.

(** Under byte equality the comparisons all pass iff they are all equalities;
    the first failing one fails the call. *)
Lemma run_cmps_byteeq cs : forall done,
  snd (run_cmps CkByteEq cs done) = None <-> forallb (fun '(a, b) => bytes_eq a b) cs = true.
Proof.
  induction cs as [|[a b] cs IH]; intros done; cbn [run_cmps forallb]; [tauto|].
  unfold cmp_fail. destruct (bytes_eq a b); cbn; [apply IH|split; discriminate].
Qed.

Theorem C14_no_checker_no_comparison : forall hw w rs op, o_cmps (spec hw w rs CkNone op) = [].
Proof.
  intros. unfold spec, ro_lookup.
  destruct (flat_map _ rs); destruct hw, w, op; cbn; try reflexivity;
    repeat match goal with |- context [match ?x with _ => _ end] => destruct x; cbn; try reflexivity end.
Qed.
