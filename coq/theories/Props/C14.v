(** C14 — A configured consistency checker sees every redundant copy.
    The comparisons made, in order, are part of the abstract specification
    (Spec/StackSpec.v: [o_cmps]) and of the observation of the model (ghost
    [Mark 1] emitted by every checker invocation with both contents), so the
    matrix sweep proves them equal on the property's whole matrix; the general
    lemmas below are about the specification itself, for stacks of any depth.
    And, for stacks of ANY depth and arbitrary environment responses: with a
    checker configured a successful lookup has walked the WHOLE itinerary - every
    level's copy was opened, in order, none skipped - and still returns the first
    handle obtained ([C14_every_copy_seen_any_depth]); the model's checkers open
    nothing by path themselves ([C14_checkers_open_nothing]); and the checker is
    invoked exactly once for every copy found beyond the first: (copies found) - 1
    invocations on success, none skipped ([C14_every_copy_is_compared_any_depth]). *)
From Coq Require Import List NArith ZArith String Bool.
From Kismet Require Import Pure.Hash FS.Fs FS.Prog Spec.Wp Spec.ClassMon Spec.Calm Ops.Ops Ops.Client Spec.StackSpec Proofs.StackSweep Proofs.LookupOrder Proofs.CompareAll.
Import ListNotations.

(** Model = specification, comparisons included, on the whole matrix
    (4 checker settings: none, byte-equality, panicking, counting). *)
Theorem C14_comparisons_matrix :
  forall c op, In c configs -> In op ops ->
    eq_cmps (o_cmps (ob_out (observe_op c op))) (o_cmps (spec_of c op)) = true /\
    eq_ares (o_res (ob_out (observe_op c op))) (o_res (spec_of c op)) = true.
Proof.
  assert (H : forallb (fun c => forallb (fun op => agrees c op) ops) configs = true)
    by (vm_compute; reflexivity).
  intros c op Hc Hop. rewrite forallb_forall in H. specialize (H c Hc).
  rewrite forallb_forall in H. specialize (H op Hop). unfold agrees, eq_out in H.
  repeat (apply andb_prop in H; destruct H as [H ?]). auto.
Qed.

(** For a lookup, any depth: the first read-only copy is compared with every
    later read-only copy, and the write-side copy (if any) with the first
    read-only copy; with no checker nothing is compared. *)
Definition present_of (rs : list (option value)) : list value :=
  flat_map (fun o => match o with Some v => [v] | None => [] end) rs.
Definition ro_pairs (rs : list (option value)) : list (value * value) :=
  match present_of rs with [] => [] | f :: rest => map (fun v => (f, v)) rest end.
Definition lookup_pairs (hw : bool) (w : option value) (rs : list (option value)) : list (value * value) :=
  match (if hw then w else None), present_of rs with
  | Some wv, f :: _ => ro_pairs rs ++ [(wv, f)]
  | _, _ => ro_pairs rs
  end.

Theorem C14_lookup_comparisons : forall hw w rs ck,
  o_cmps (spec hw w rs ck AGet) = if has_checker ck then fst (run_cmps ck (lookup_pairs hw w rs) []) else [].
Proof.
  intros. unfold spec, ro_lookup, lookup_pairs, ro_pairs, present_of.
  destruct (flat_map _ rs) as [|f rest]; destruct ck, hw, w; cbn; try reflexivity;
    try (destruct (run_cmps _ _ _); reflexivity).
Qed.

(** Under byte equality the comparisons all pass iff they are all equalities;
    the first failing one fails the call. *)
Lemma run_cmps_byteeq cs : forall done,
  snd (run_cmps CkByteEq cs done) = None <-> forallb (fun '(a, b) => bytes_eq a b) cs = true.
Proof.
  induction cs as [|[a b] cs IH]; intros done; cbn [run_cmps forallb]; [tauto|].
  unfold cmp_fail. destruct (bytes_eq a b); cbn; [apply IH|split; discriminate].
Qed.

Theorem C14_no_checker_no_comparison : forall hw w rs op, o_cmps (spec hw w rs CkNone op) = [].
Proof.
  intros. unfold spec, ro_lookup.
  destruct (flat_map _ rs); destruct hw, w, op; cbn; try reflexivity;
    repeat match goal with |- context [match ?x with _ => _ end] => destruct x; cbn; try reflexivity end.
Qed.

(** Every redundant copy is seen, for stacks of any depth, all responses. *)
Theorem C14_every_copy_seen_any_depth : forall ck cfg k,
  (forall a b, allc nopen (ck a b) anyc) -> s_checker cfg = Some ck ->
  wp (lo_step true) (cache_get cfg k)
     (fun r s' => match r with Ok x => s' = ([], x) | _ => True end) (itinerary cfg k, None).
Proof. intros ck cfg k H. exact (lookup_order_checked ck H cfg k). Qed.

Theorem C14_checkers_open_nothing : forall a b fail,
  allc nopen (chk_byteeq a b) anyc /\ allc nopen (chk_panic a b) anyc /\ allc nopen (chk_count fail a b) anyc /\ allc nopen (chk_count_nf a b) anyc.
Proof.
  intros a b fail. repeat split.
  all: unfold chk_byteeq, chk_panic, chk_count, chk_count_nf, read_all; allc_auto; apply allc_call; reflexivity.
Qed.

(** (copies found) - 1 checker invocations, any depth, all responses. *)
Theorem C14_every_copy_is_compared_any_depth : forall ck cfg k,
  (forall a b s, wp ca_step (ck a b) (fun _ s' => s' = (fst s, S (snd s))) s) ->
  s_checker cfg = Some ck ->
  wp ca_step (cache_get cfg k)
     (fun r s' => match r with
                  | Ok (Some _) => fst s' = S (snd s')
                  | Ok None => s' = (0, 0)%nat
                  | _ => True
                  end) (0, 0)%nat.
Proof. intros ck cfg k H. exact (every_copy_is_compared ck H cfg k). Qed.

Theorem C14_model_checkers_mark_once : forall a b fail s,
  wp ca_step (chk_byteeq a b) (fun _ s' => s' = (fst s, S (snd s))) s /\
  wp ca_step (chk_count fail a b) (fun _ s' => s' = (fst s, S (snd s))) s /\
  wp ca_step (chk_panic a b) (fun _ s' => s' = (fst s, S (snd s))) s.
Proof. exact model_checkers_mark_once. Qed.
