(** C08 — The eviction planner equals the classical Second Chance queue on
    every input.  This file contains only statements; proofs are in
    Proofs/SecondChanceProofs.v.  [plan] models second_chance.rs:61-111;
    [None] is its [assert!]; [clock] is the textbook queue algorithm. *)
From Coq Require Import List Arith ZArith Bool Permutation Sorted.
From Kismet Require Import Pure.SecondChance Proofs.SecondChanceProofs.
Import ListNotations.

(** Never panics (the assertion is unreachable), for every input and capacity. *)
Theorem C08_never_asserts : forall es cap, plan es cap <> None.
Proof. exact plan_never_asserts. Qed.

(** Evicts exactly max(0, n - capacity) entries; empty plan when n <= capacity. *)
Theorem C08_count : forall es cap ev mb,
  plan es cap = Some (ev, mb) ->
  if (N.of_nat (length es) <=? cap)%N then ev = [] /\ mb = []
  else length ev = N.to_nat (N.of_nat (length es) - cap).
Proof. exact plan_count. Qed.

(** Never invents, drops or duplicates an entry: evicted, reprieved and
    untouched entries partition the input. *)
Theorem C08_partition : forall es cap ev mb,
  plan es cap = Some (ev, mb) ->
  Permutation (ev ++ mb ++ plan_rest es cap) es.
Proof. exact plan_partition. Qed.

Theorem C08_no_duplicates : forall es cap ev mb,
  NoDup (map eid es) -> plan es cap = Some (ev, mb) ->
  NoDup (map eid (ev ++ mb ++ plan_rest es cap)).
Proof. exact plan_nodup. Qed.

(** Identical to the classical clock queue under some ordering [l] of equally
    ranked entries (here: the stable one, which keeps the input order of ties):
    same victims in the same order (second-pass victims had their flag cleared
    by the classical algorithm, hence [map clear]); the final queue is the
    unscanned suffix [r] followed by the reprieved entries in order, cleared. *)
Theorem C08_is_clock : forall es cap ev mb,
  (cap < N.of_nat (length es))%N ->
  plan es cap = Some (ev, mb) ->
  exists l evc r,
    Permutation l es /\ StronglySorted rank_le l /\
    (forall rk, of_rank rk l = of_rank rk es) /\
    clock (2 * length l) l cap = Some (evc, r ++ map clear mb) /\
    map clear evc = map clear ev /\
    (exists sc, l = sc ++ r /\ Permutation sc (ev ++ mb)).
Proof. exact plan_is_clock. Qed.

Theorem C08_within_capacity : forall es cap,
  (N.of_nat (length es) <= cap)%N ->
  plan es cap = Some ([], []) /\
  forall fuel l, Permutation l es -> clock fuel l cap = Some ([], l).
Proof. exact plan_within_capacity. Qed.

(** The run-time verdict applied to the implementation's output is sound: an
    accepted output is the classical queue's output on some rank-sorted
    arrangement of the input. *)
Theorem C08_valid_plan_sound : forall es cap ev mb,
  valid_plan es cap ev mb = true ->
  exists l evc q rest,
    Permutation l es /\ Sorted rank_le l /\
    clock (2 * length l) l cap = Some (evc, q) /\
    map clear evc = map clear ev /\
    q = rest ++ map clear mb /\
    Permutation es (ev ++ mb ++ rest).
Proof. exact valid_plan_sound. Qed.

(** Non-vacuity: a concrete over-capacity input with ties, a reprieve and a
    second-pass steal. *)
Example C08_example :
  let es := [mkEntry 0 5 true; mkEntry 1 3 true; mkEntry 2 3 false; mkEntry 3 9 true] in
  plan es 1 = Some ([mkEntry 2 3 false; mkEntry 1 3 true; mkEntry 0 5 true], [mkEntry 3 9 true])
  /\ (1 < N.of_nat (length es))%N
  /\ valid_plan es 1 [mkEntry 2 3 false; mkEntry 1 3 true; mkEntry 0 5 true] [mkEntry 3 9 true] = true.
Proof. vm_compute. repeat split. Qed.
