(** C04 — Plain-cache operations are linearizable per key: set overwrites, put never does.

    Kernel-checked here: "put never does", in three parts that compose: (a) for
    arbitrary environment responses, [cache_put] (and put_temp_file) issue no
    rename at all: they publish by link only; (b) in the kernel model no call
    other than a rename or an unlink changes the inode an existing name is bound
    to, and a link onto an existing name fails and changes nothing; (c) that
    inode's contents are immutable under every schedule (C01).  The
    linearizability statement itself (linearization points at rename / link /
    open) is decided by the exhaustive-schedule exploration with a Wing-Gong
    search (vlib/c04.py), each schedule replayed on the pool semantics. *)
From Coq Require Import List NArith ZArith String Bool.
From Kismet Require Import FS.Fs FS.Prog Ops.Ops Spec.ClassMon Spec.Calm Conc.Pool Proofs.PutNeverOverwrites.
Import ListNotations.

Theorem C04_put_never_renames : forall cfg k v, allc norename (cache_put cfg k v) anyc.
Proof. exact put_never_renames. Qed.
Theorem C04_put_temp_never_renames : forall cfg k fd p, allc norename (cache_write_temp false cfg k fd p) anyc.
Proof. exact put_temp_never_renames. Qed.

Theorem C04_only_rename_or_unlink_rebinds : forall f e c x j,
  rebinds c = false -> name_of f x = Some j -> name_of (fst (sem f e c)) x = Some j.
Proof. exact sem_keeps_binding. Qed.

Theorem C04_link_onto_existing_fails : forall f e p q cq j,
  resolve f q = inl cq -> name_of f cq = Some j ->
  fst (sem f e (CLink p q)) = f /\ snd (sem f e (CLink p q)) <> ROk.
Proof. exact link_onto_existing_fails. Qed.

(** On every sequential run of put: no rename in the trace. *)
Theorem C04_put_trace_has_no_rename : forall cfg k v w o,
  let '(_, _, _, tr) := run (cache_put cfg k v) w o in
  Forall (fun ev => match ev with EvCall c _ => norename c = true | _ => True end) tr.
Proof.
  intros. pose proof (allc_run norename _ _ (put_never_renames cfg k v) w o) as H.
  destruct (run (cache_put cfg k v) w o) as [[[a w'] o'] tr]. apply H.
Qed.

(** A participant that is not scheduled does not change. *)
Theorem C04_unscheduled_unchanged : forall A (pool : list (thread A)) f i,
  nth_error pool i = None -> pool_step i (pool, f) = (pool, f).
Proof. intros A pool f i H. unfold pool_step. rewrite H. reflexivity. Qed.

(** Non-vacuity: key "a" holds "A" (inode 2); put of a value file "v" (inode 3,
    "B"): no rename in the trace, the name still points to inode 2 whose
    contents are still "A", and the source path is consumed.  The same put on an
    absent key binds it to the value's inode. *)
Example C04_example :
  let mk (f : fs) (p : path) (c : N) :=
    let '(f1, i) := alloc_inode f (mkInode false [c] 292 100%Z 50%Z 1 true) in
    set_names f1 ((p, i) :: names f1) in
  let '(f0, d) := alloc_inode empty_fs (mkInode true [] 493 0%Z 0%Z 2 true) in
  let f0 := set_names f0 ((["w"%string], d) :: names f0) in
  let f := mk (mk f0 ["w"; "a"]%string 65%N) ["v"%string] 66%N in
  let cfg := mkStack 0 (Some (FPlain ["w"%string] 300)) [] None false ["systmp"%string] in
  let o := mkOracle [1000; 1001; 1002]%Z [18446744073709551615%N] [] [] [] None 0 1%Z Relatime in
  let go (name : string) :=
    let '(r, w', _, tr) := run (cache_put cfg (mkKey name 1 2) ["v"%string]) (mkWorld f 0 []) o in
    (r, name_of (w_fs w') ["w"; name]%string, name_of (w_fs w') ["v"%string],
     forallb (fun ev => match ev with EvCall c _ => norename c | _ => true end) tr) in
  go "a"%string = (Ok tt, Some 2%nat, None, true) /\ go "z"%string = (Ok tt, Some 3%nat, None, true).
Proof. vm_compute. split; reflexivity. Qed.
