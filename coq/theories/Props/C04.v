(** C04 — Plain-cache operations are linearizable per key. (interim: kernel-level atomicity facts) *)
From Coq Require Import List NArith ZArith String Bool.
From Kismet Require Import FS.Fs FS.Prog Conc.Pool.
Import ListNotations.
(** A participant that is not scheduled does not change. *)
Theorem C04_unscheduled_unchanged : forall A (pool : list (thread A)) f i,
  nth_error pool i = None -> pool_step i (pool, f) = (pool, f).
Proof. intros A pool f i H. unfold pool_step. rewrite H. reflexivity. Qed.
