(** C04 — Plain-cache operations are linearizable per key: set overwrites, put never does.

    Kernel-checked here: "put never does", in three parts that compose: (a) for
    arbitrary environment responses, [cache_put] (and put_temp_file) issue no
    rename at all: they publish by link only; (b) in the kernel model no call
    other than a rename or an unlink changes the inode an existing name is bound
    to, and a link onto an existing name fails and changes nothing; (c) that
    inode's contents are immutable under every schedule (C01).  The
    linearizability statement itself (linearization points at rename / link /
    open) is decided by the exhaustive-schedule exploration with a Wing-Gong
    search (vlib/c04.py), each schedule replayed on the pool semantics. *)
From Coq Require Import List NArith ZArith String Bool.
From Kismet Require Import Pure.Hash FS.Fs FS.Prog Ops.Ops Spec.ClassMon Spec.Calm Conc.Pool Proofs.PutNeverOverwrites Proofs.NeverMasked Seq.Plain Proofs.KvSeq.
Import ListNotations.

Theorem C04_put_never_renames : forall cfg k v, allc norename (cache_put cfg k v) anyc.
Proof. exact put_never_renames. Qed.
Theorem C04_put_temp_never_renames : forall cfg k fd p, allc norename (cache_write_temp false cfg k fd p) anyc.
Proof. exact put_temp_never_renames. Qed.

Theorem C04_only_rename_or_unlink_rebinds : forall f e c x j,
  rebinds c = false -> name_of f x = Some j -> name_of (fst (sem f e c)) x = Some j.
Proof. exact sem_keeps_binding. Qed.

Theorem C04_link_onto_existing_fails : forall f e p q cq j,
  resolve f q = inl cq -> name_of f cq = Some j ->
  fst (sem f e (CLink p q)) = f /\ snd (sem f e (CLink p q)) <> ROk.
Proof. exact link_onto_existing_fails. Qed.

(** The linearization points in the kernel model: set takes effect at its (single,
    atomic) rename, put at its link, get at its open - and the descriptor a get
    obtained keeps that inode whatever happens to the name afterwards. *)
Theorem C04_set_takes_effect_at_rename : forall f e p q cp cq i,
  resolve f p = inl cp -> resolve f q = inl cq -> name_of f cp = Some i ->
  snd (sem f e (CRename p q)) = ROk -> name_of (fst (sem f e (CRename p q))) cq = Some i.
Proof. exact rename_binds. Qed.
Theorem C04_put_takes_effect_at_link : forall f e p q cp cq i,
  resolve f p = inl cp -> resolve f q = inl cq -> name_of f cp = Some i ->
  snd (sem f e (CLink p q)) = ROk -> name_of (fst (sem f e (CLink p q))) cq = Some i.
Proof. exact link_binds. Qed.
Theorem C04_get_takes_effect_at_open : forall f e p a cp d,
  resolve f p = inl cp -> snd (sem f e (COpen p a)) = RFd d ->
  exists i, name_of f cp = Some i /\ Conc.Effect.fdino (fst (sem f e (COpen p a))) d = Some i.
Proof. exact open_reads_binding. Qed.

(** The sequential register, in the kernel model: once a set has returned, a later
    lookup that hits returns the set's inode (and, fault-free, does hit); a put
    that reports success leaves an existing entry exactly as it was. *)
Theorem C04_set_then_lookup : forall d name v i0 w o o2,
  plainp (cd_base d) = true -> valid_name name = true -> plainp v = true ->
  (forall q, v <> cd_base d ++ q) -> (forall q, cd_base d <> v ++ q) ->
  names_plain (w_fs w) -> name_of (w_fs w) v = Some i0 ->
  let '(r, w1, _, _) := run (cd_set d name v) w o in
  is_ok r = true ->
  let '(r2, w2, _, _) := run (cd_get d name) w1 o2 in
  (forall fd, r2 = Ok (Some fd) -> Conc.Effect.fdino (w_fs w2) fd = Some i0) /\
  (o_fault o2 = None -> resolve (w_fs w1) (cd_base d ++ [name]) = inl (cd_base d ++ [name]) ->
   inode_of (w_fs w1) i0 <> None -> r2 <> Ok None).
Proof. exact set_then_get. Qed.

Theorem C04_put_keeps_an_existing_entry : forall d name v i0 j w o,
  plainp (cd_base d) = true -> valid_name name = true -> plainp v = true ->
  (forall q, v <> cd_base d ++ q) -> (forall q, cd_base d <> v ++ q) ->
  o_fault o = None -> names_plain (w_fs w) ->
  name_of (w_fs w) v = Some i0 -> name_of (w_fs w) (cd_base d ++ [name]) = Some j ->
  let '(r, w', _, _) := run (cd_put d name v) w o in
  is_ok r = true -> name_of (w_fs w') (cd_base d ++ [name]) = Some i0 \/ name_of (w_fs w') (cd_base d ++ [name]) = Some j.
Proof.
  intros d name v i0 j w o Hb Hn Hv Ho Ha Hnf Hpl Hv0 Hj.
  pose proof (plain_put_binds d name v Hb Hn Hv Ho Ha i0 (Some j) w o Hnf Hpl Hv0 Hj) as H.
  destruct (run (cd_put d name v) w o) as [[[r w'] o'] tr]. intros Hok. destruct (H Hok) as [H1|(H1 & _)]; auto.
Qed.

Theorem C04_touch_reports_presence_truthfully : forall d name f0 w o,
  plainp (cd_base d) = true -> valid_name name = true ->
  (forall i, name_of f0 (cd_base d ++ [name]) = Some i -> resolve f0 (cd_base d ++ [name]) = inl (cd_base d ++ [name]) /\ inode_of f0 i <> None) ->
  w_fs w = f0 -> o_fault o = None -> names_plain f0 ->
  let '(r, w', _, _) := run (cd_touch d name) w o in
  (forall x, name_of (w_fs w') x = name_of f0 x) /\
  (r = Ok true -> name_of f0 (cd_base d ++ [name]) <> None) /\ (r = Ok false -> name_of f0 (cd_base d ++ [name]) = None).
Proof. intros d name f0 w o Hb Hn Hr. exact (plain_touch_truthful d name Hb Hn f0 Hr w o). Qed.

(** On every sequential run of put: no rename in the trace. *)
Theorem C04_put_trace_has_no_rename : forall cfg k v w o,
  let '(_, _, _, tr) := run (cache_put cfg k v) w o in
  Forall (fun ev => match ev with EvCall c _ => norename c = true | _ => True end) tr.
Proof.
  intros. pose proof (allc_run norename _ _ (put_never_renames cfg k v) w o) as H.
  destruct (run (cache_put cfg k v) w o) as [[[a w'] o'] tr]. apply H.
Qed.

(** A participant that is not scheduled does not change. *)
Theorem C04_unscheduled_unchanged : forall A (pool : list (thread A)) f i,
  nth_error pool i = None -> pool_step i (pool, f) = (pool, f).
Proof. intros A pool f i H. unfold pool_step. rewrite H. reflexivity. Qed.

(** Non-vacuity: key "a" holds "A" (inode 2); put of a value file "v" (inode 3,
    "B"): no rename in the trace, the name still points to inode 2 whose
    contents are still "A", and the source path is consumed.  The same put on an
    absent key binds it to the value's inode. *)
Example C04_example :
  let mk (f : fs) (p : path) (c : N) :=
    let '(f1, i) := alloc_inode f (mkInode false [c] 292 100%Z 50%Z 1 true) in
    set_names f1 ((p, i) :: names f1) in
  let '(f0, d) := alloc_inode empty_fs (mkInode true [] 493 0%Z 0%Z 2 true) in
  let f0 := set_names f0 ((["w"%string], d) :: names f0) in
  let f := mk (mk f0 ["w"; "a"]%string 65%N) ["v"%string] 66%N in
  let cfg := mkStack 0 (Some (FPlain ["w"%string] 300)) [] None false ["systmp"%string] in
  let o := mkOracle [1000; 1001; 1002]%Z [18446744073709551615%N] [] [] [] None 0 1%Z Relatime in
  let go (name : string) :=
    let '(r, w', _, tr) := run (cache_put cfg (mkKey name 1 2) ["v"%string]) (mkWorld f 0 []) o in
    (r, name_of (w_fs w') ["w"; name]%string, name_of (w_fs w') ["v"%string],
     forallb (fun ev => match ev with EvCall c _ => norename c | _ => true end) tr) in
  go "a"%string = (Ok tt, Some 2%nat, None, true) /\ go "z"%string = (Ok tt, Some 3%nat, None, true).
Proof. vm_compute. split; reflexivity. Qed.

(** Which call publishes (all responses, plain and sharded directories, with whatever
    maintenance runs inside): Cache::set never issues a link - it publishes by rename only,
    an unconditional overwrite that never degrades to "insert if absent"; Cache::put never
    issues a rename - it publishes by link only and can never replace an entry.
    (Proofs/PublishCall.v) *)
From Kismet Require Import Spec.ClassMon Spec.Calm Proofs.PublishCall.
Theorem C04_set_publishes_by_rename_only : forall cfg k v, allc nolink (cache_set cfg k v) anyc.
Proof. exact public_set_never_links. Qed.

Theorem C04_put_publishes_by_link_only : forall cfg k v, allc norename (cache_put cfg k v) anyc.
Proof. exact public_put_never_renames. Qed.

Theorem C04_set_never_links_on_every_run : forall cfg k v w o,
  let '(_, _, _, tr) := run (cache_set cfg k v) w o in
  Forall (fun ev => match ev with EvCall c _ => nolink c = true | _ => True end) tr.
Proof. exact public_set_never_links_run. Qed.

Theorem C04_put_never_renames_on_every_run : forall cfg k v w o,
  let '(_, _, _, tr) := run (cache_put cfg k v) w o in
  Forall (fun ev => match ev with EvCall c _ => norename c = true | _ => True end) tr.
Proof. exact public_put_never_renames_run. Qed.

Theorem C04_publishing_call_classes : forall p q,
  nolink (CLink p q) = false /\ nolink (CRename p q) = true /\ norename (CRename p q) = false /\ norename (CLink p q) = true.
Proof. intros. repeat split. Qed.
