(** The error kinds and errnos the library proper inspects, file by file (regenerated from
    /repo's source on every run), are exactly those the model's error handling knows:
    absence = NotFound / ESTALE (benign_error.rs, modelled by [is_absent]); InvalidInput
    for rejected names; AlreadyExists at put's link; populate's NotFound and Unsupported
    (no write side) in the stack; lib.rs's checker mismatch (Other).  Another kind
    tolerated or matched anywhere changes this list.  Kept apart from Gen/Agree.v so that
    only the properties about error handling (C05, C18) depend on it. *)
From Coq Require Import String List.
From Kismet Require Import Gen.Constants.
Import ListNotations.
Local Open Scope string_scope.

Lemma error_kinds_inspected :
  Constants.ERROR_KINDS_INSPECTED =
  ["benign_error.rs:ESTALE"; "benign_error.rs:NotFound"; "cache_dir.rs:InvalidInput"; "lib.rs:Other";
   "raw_cache.rs:AlreadyExists"; "stack.rs:NotFound"; "stack.rs:Unsupported"].
Proof. reflexivity. Qed.
