(** Obligations tying the regenerated constants to the pinned ones and to the
    side conditions the theorems need. *)
From Coq Require Import String NArith ZArith List Lia.
From Kismet Require Import Gen.Constants Pure.Pinned.

Lemma primary_key_agrees : Constants.PRIMARY_MIXER_KEY = Pinned.PRIMARY_MIXER_KEY. Proof. reflexivity. Qed.
Lemma secondary_key_agrees : Constants.SECONDARY_MIXER_KEY = Pinned.SECONDARY_MIXER_KEY. Proof. reflexivity. Qed.
Lemma shard_prefix_agrees : Constants.SHARD_PREFIX = Pinned.SHARD_PREFIX. Proof. reflexivity. Qed.
Lemma shard_width_agrees : Constants.SHARD_HEX_WIDTH = Pinned.SHARD_HEX_WIDTH. Proof. reflexivity. Qed.
Lemma shard_case_agrees : Constants.SHARD_HEX_UPPER = Pinned.SHARD_HEX_UPPER. Proof. reflexivity. Qed.
Lemma temp_subdir_agrees : Constants.TEMP_SUBDIR = Pinned.TEMP_SUBDIR. Proof. reflexivity. Qed.
Lemma max_age_agrees : Constants.MAX_TEMP_FILE_AGE_SEC = Pinned.MAX_TEMP_FILE_AGE_SEC. Proof. reflexivity. Qed.
Lemma plain_scale_agrees : Constants.PLAIN_MAINTENANCE_SCALE = Pinned.PLAIN_MAINTENANCE_SCALE. Proof. reflexivity. Qed.
Lemma reserved_agrees : Constants.RESERVED_FIRST_BYTES = Pinned.RESERVED_FIRST_BYTES. Proof. reflexivity. Qed.
Lemma empty_rejected : Constants.EMPTY_NAME_REJECTED = true. Proof. reflexivity. Qed.
Lemma separator_rejected : Constants.SEPARATOR_REJECTED = true. Proof. reflexivity. Qed.
Lemma reduce_shift_agrees : Constants.REDUCE_SHIFT = Pinned.REDUCE_SHIFT. Proof. reflexivity. Qed.

(** The library proper uses no blocking construct (mutex, once, condvar, barrier, sleep,
    park, advisory file lock, join, channel): scanned from the current source. *)
Lemma no_blocking_primitive : Constants.BLOCKING_PRIMITIVES = nil. Proof. reflexivity. Qed.
(* the one unbounded loop of the library: trigger.rs redraws until the random source yields a
   non-zero value (modelled: zero draws never occur, C10's assumption) *)
Lemma the_unbounded_loops : Constants.UNBOUNDED_LOOPS = ("trigger.rs:loop"%string :: nil). Proof. reflexivity. Qed.

(** Side conditions on constants the properties leave free. *)
Lemma delta_covers_granularity : (2 <= Constants.DELTA_SEC)%Z. Proof. unfold Constants.DELTA_SEC. lia. Qed.
Lemma sharded_scale_positive : (1 <= Constants.SHARDED_MAINTENANCE_SCALE)%N. Proof. unfold Constants.SHARDED_MAINTENANCE_SCALE. lia. Qed.
