(** The library's operations as programs over atomic filesystem calls: one
    Gallina function per Rust function, same names, same control flow, with the
    RAII drops written out as explicit [CClose]/[CUnlink] calls.
    Sources: raw_cache.rs, cache_dir.rs, plain.rs, sharded.rs, readonly.rs,
    stack.rs (see DESIGN.md Appendix F).  Executable definitions only. *)
From Coq Require Import List NArith ZArith String Ascii Bool Arith.
From Kismet Require Import Gen.Constants FS.Fs FS.Prog Pure.Trigger Pure.Hash Pure.SecondChance.
Import ListNotations.
Local Open Scope list_scope.

(** * Results *)
Inductive custom := CNotFound | COther | CMismatch.
Inductive ioerr := OsErr (e : errno) | InvalidInput | Unsupported | Custom (c : custom).
Inductive outcome (A : Type) := Ok (a : A) | Err (e : ioerr) | Panic.
Arguments Ok {A} a.
Arguments Err {A} e.
Arguments Panic {A}.

(** benign_error.rs: NotFound kind, or raw errno ESTALE *)
Definition is_absent (e : ioerr) : bool :=
  match e with
  | OsErr ENOENT | OsErr ESTALE | Custom CNotFound => true
  | _ => false
  end.

Definition try {A B} (p : prog (outcome A)) (f : A -> prog (outcome B)) : prog (outcome B) :=
  r <- p ;; match r with Ok a => f a | Err e => Ret (Err e) | Panic => Ret Panic end.

(** run [p]; on failure run [cleanup] (the drops) and propagate *)
Definition try_c {A B} (p : prog (outcome A)) (cleanup : prog unit) (f : A -> prog (outcome B)) : prog (outcome B) :=
  r <- p ;; match r with
            | Ok a => f a
            | Err e => cleanup ;;; Ret (Err e)
            | Panic => cleanup ;;; Ret Panic
            end.

Definition unit_call (c : call) : prog (outcome unit) :=
  r <- call1 c ;; Ret (match r with RErr e => Err (OsErr e) | _ => Ok tt end).
Definition fd_call (c : call) : prog (outcome nat) :=
  r <- call1 c ;; Ret (match r with RFd d => Ok d | RErr e => Err (OsErr e) | _ => Err (OsErr EINVAL) end).
Definition stat_call (c : call) : prog (outcome stat) :=
  r <- call1 c ;; Ret (match r with RStat s => Ok s | RErr e => Err (OsErr e) | _ => Err (OsErr EINVAL) end).
Definition quiet (c : call) : prog unit := _ <- call1 c ;; Ret tt.     (* result ignored *)
Definition skip : prog unit := Ret tt.

Definition NS : Z := 1000000000.
Definition DELTA_NS : Z := Constants.DELTA_SEC * NS.
Definition MAX_AGE_NS : Z := Constants.MAX_TEMP_FILE_AGE_SEC * NS.
Definition temp_subdir : string := Constants.TEMP_SUBDIR.

(** * raw_cache.rs *)

(** filetime::set_file_times / set_file_atime: open read-only, else write-only;
    futimens on the descriptor; close. *)
Definition set_times (p : path) (a m : option Z) : prog (outcome unit) :=
  r <- call1 (COpen p RDONLY) ;;
  let go (fd : nat) := x <- unit_call (CFutimens fd a m) ;; quiet (CClose fd) ;;; Ret x in
  match r with
  | RFd fd => go fd
  | _ => r2 <- call1 (COpen p WRONLY) ;;
         match r2 with
         | RFd fd => go fd
         | RErr e => Ret (Err (OsErr e))
         | _ => Ret (Err (OsErr EINVAL))
         end
  end.

Definition ensure_file_removed (p : path) : prog (outcome unit) :=
  r <- unit_call (CUnlink p) ;;
  Ret (match r with Err e => if is_absent e then Ok tt else Err e | x => x end).

Definition move_to_back_of_list (p : path) : prog (outcome unit) :=
  Now (fun t => set_times p (Some (t - DELTA_NS)%Z) (Some t)).

Definition set_read_only (p : path) : prog (outcome unit) :=
  try (stat_call (CStat p false)) (fun st =>
  unit_call (CChmod p (N.land (st_mode st) 3949))).      (* & !0o222, within 0o7777 *)

Definition touch (p : path) : prog (outcome bool) :=
  Now (fun t =>
  r <- set_times p (Some t) None ;;
  Ret (match r with
       | Ok _ => Ok true
       | Err e => if is_absent e then Ok false else Err e
       | Panic => Panic
       end)).

Definition ensure_file_touched (fd : nat) : prog (outcome unit) :=
  try (stat_call (CFstat fd)) (fun st =>
  if (st_atime st <? st_mtime st)%Z then unit_call (CFutimens fd (Some (st_mtime st)) None)
  else Ret (Ok tt)).

Definition insert_or_update (from to : path) : prog (outcome unit) :=
  try (move_to_back_of_list from) (fun _ =>
  try (set_read_only from) (fun _ =>
  try (unit_call (CRename from to)) (fun _ =>
  ensure_file_removed from))).

Definition insert_or_touch (from to : path) : prog (outcome unit) :=
  try (move_to_back_of_list from) (fun _ =>
  try (set_read_only from) (fun _ =>
  r <- call1 (CLink from to) ;;
  let fin := ensure_file_removed from in
  match r with
  | RErr EEXIST => try (touch to) (fun _ => fin)
  | RErr e => Ret (Err (OsErr e))
  | _ => fin
  end)).

(** collect_cached_files: returns the directory stream (still open), the
    candidate files in listing order and the entry count. *)
Record cfile := mkCfile { cf_name : string; cf_mtime : Z; cf_acc : bool }.

Definition dot_prefixed (n : string) : bool :=
  match n with String c _ => Ascii.eqb c "."%char | EmptyString => false end.

Fixpoint collect_loop (dir : path) (dh : nat) (names : list string) (acc : list cfile) (count : N)
  : prog (outcome (list cfile * N)) :=
  match names with
  | [] => Ret (Ok (rev acc, count))
  | n :: rest =>
      (* dot-prefixed entries are neither counted nor candidates (repair of F2) *)
      if dot_prefixed n then collect_loop dir dh rest acc count else
      r <- call1 (CStat (dir ++ [n]) false) ;;
      match r with
      | RStat st =>
          if st_dir st then collect_loop dir dh rest acc count
          else collect_loop dir dh rest (mkCfile n (st_mtime st) (st_mtime st <=? st_atime st)%Z :: acc) (count + 1)%N
      | RErr e =>
          if is_absent (OsErr e) then collect_loop dir dh rest acc (count + 1)%N
          else quiet (CCloseDir dh) ;;; Ret (Err (OsErr e))
      | _ => quiet (CCloseDir dh) ;;; Ret (Err (OsErr EINVAL))
      end
  end.

Definition collect_cached_files (dir : path) : prog (outcome (nat * list cfile * N)) :=
  try (fd_call (COpenDir dir)) (fun dh =>
  r <- call1 (CReadDir dh) ;;
  match r with
  | RNames names => try (collect_loop dir dh names [] 0%N) (fun '(files, count) => Ret (Ok (dh, files, count)))
  | RErr e => quiet (CCloseDir dh) ;;; Ret (Err (OsErr e))
  | _ => quiet (CCloseDir dh) ;;; Ret (Err (OsErr EINVAL))
  end).

Definition entries_of (files : list cfile) : list entry :=
  map (fun '(i, f) => mkEntry i (cf_mtime f) (cf_acc f)) (combine (seq 0 (List.length files)) files).

Definition name_at (files : list cfile) (e : entry) : string :=
  cf_name (nth (eid e) files (mkCfile EmptyString 0 false)).

Fixpoint evict_loop (dir : path) (names : list string) : prog (outcome unit) :=
  match names with
  | [] => Ret (Ok tt)
  | n :: rest => try (ensure_file_removed (dir ++ [n])) (fun _ => evict_loop dir rest)
  end.

Fixpoint move_back_loop (dir : path) (names : list string) : prog (outcome unit) :=
  match names with
  | [] => Ret (Ok tt)
  | n :: rest =>
      r <- move_to_back_of_list (dir ++ [n]) ;;
      match r with
      | Err e => if is_absent e then move_back_loop dir rest else Ret (Err e)
      | Panic => Ret Panic
      | Ok _ => move_back_loop dir rest
      end
  end.

(** prune: (remaining estimate, number evicted).  The listing is closed before
    the plan is applied: apply_update keeps only the file names and drops the
    DirEntry values first (repair of finding F5). *)
Definition prune (dir : path) (cap : N) : prog (outcome (N * N)) :=
  try (collect_cached_files dir) (fun '(dh, files, count) =>
  match plan (entries_of files) cap with
  | None => quiet (CCloseDir dh) ;;; Ret Panic                       (* the assert! *)
  | Some (ev, mb) =>
      let nev := N.of_nat (List.length ev) in
      quiet (CCloseDir dh) ;;;
      r <- (try (evict_loop dir (map (name_at files) ev)) (fun _ =>
            move_back_loop dir (map (name_at files) mb))) ;;
      Ret (match r with Ok _ => Ok ((count - nev)%N, nev) | Err e => Err e | Panic => Panic end)
  end).

(** The same as shipped before the repair (kept for the record of finding F5):
    the listing stays open while the plan is applied. *)
Definition prune_pinned (dir : path) (cap : N) : prog (outcome (N * N)) :=
  try (collect_cached_files dir) (fun '(dh, files, count) =>
  match plan (entries_of files) cap with
  | None => quiet (CCloseDir dh) ;;; Ret Panic
  | Some (ev, mb) =>
      let nev := N.of_nat (List.length ev) in
      match ev, mb with
      | [], [] => quiet (CCloseDir dh) ;;; Ret (Ok ((count - nev)%N, nev))
      | _, _ =>
          r <- (try (evict_loop dir (map (name_at files) ev)) (fun _ =>
                move_back_loop dir (map (name_at files) mb))) ;;
          quiet (CCloseDir dh) ;;;
          Ret (match r with Ok _ => Ok ((count - nev)%N, nev) | Err e => Err e | Panic => Panic end)
      end
  end).

(** * cache_dir.rs *)

Fixpoint cleanup_temp_loop (temp : path) (names : list string) (thr : Z) : prog unit :=
  match names with
  | [] => Ret tt
  | n :: rest =>
      r <- call1 (CStat (temp ++ [n]) false) ;;
      match r with
      | RStat st => (if (st_mtime st <? thr)%Z then quiet (CUnlink (temp ++ [n])) else skip) ;;; cleanup_temp_loop temp rest thr
      | _ => cleanup_temp_loop temp rest thr
      end
  end.

Definition cleanup_temporary_directory (temp : path) : prog (outcome unit) :=
  Now (fun t =>
  if (t <? MAX_AGE_NS)%Z then Ret (Ok tt) else
  let thr := (t - MAX_AGE_NS)%Z in
  r <- call1 (COpenDir temp) ;;
  match r with
  | RFd dh =>
      l <- call1 (CReadDir dh) ;;
      (match l with RNames names => cleanup_temp_loop temp names thr | _ => skip end) ;;;
      quiet (CCloseDir dh) ;;; Ret (Ok tt)
  | RErr e => Ret (if is_absent (OsErr e) then Ok tt else Err (OsErr e))
  | _ => Ret (Err (OsErr EINVAL))
  end).

Definition is_dir_follow (p : path) : prog bool :=
  r <- call1 (CStat p true) ;; Ret (match r with RStat st => st_dir st | _ => false end).

(** std::fs::create_dir_all (DirBuilder::create_dir_all), by recursion on the
    reversed path: mkdir; NotFound -> create the parents first, then mkdir again;
    AlreadyExists is fine when the path is a directory; any other error is
    returned as is. *)
Fixpoint create_dir_all_rev (rp : list string) : prog (outcome unit) :=
  match rp with
  | [] => Ret (Ok tt)
  | _ :: rparent =>
      let p := rev rp in
      let settle (e : errno) :=
        match e with
        | EEXIST => (b <- is_dir_follow p ;; Ret (if b then Ok tt else Err (OsErr e)))
        | _ => Ret (Err (OsErr e))
        end in
      r <- call1 (CMkdir p) ;;
      match r with
      | RErr ENOENT =>
          try (create_dir_all_rev rparent) (fun _ =>
          r2 <- call1 (CMkdir p) ;;
          match r2 with RErr e => settle e | _ => Ret (Ok tt) end)
      | RErr e => settle e
      | _ => Ret (Ok tt)
      end
  end.
Definition create_dir_all (p : path) : prog (outcome unit) := create_dir_all_rev (rev p).

Definition ensure_directory (p : path) : prog (outcome unit) :=
  b <- is_dir_follow p ;; if b then Ret (Ok tt) else create_dir_all p.

Definition validate (name : string) : outcome unit :=
  if valid_name name then Ok tt else Err InvalidInput.

Record cdir := mkCdir { cd_base : path; cd_cap : N; cd_weight : N }.
Definition cd_temp (d : cdir) : path := cd_base d ++ [temp_subdir].

Definition ensure_temp_dir (d : cdir) : prog (outcome path) :=
  try (ensure_directory (cd_temp d)) (fun _ => Ret (Ok (cd_temp d))).

(** CacheDir::get: the returned descriptor is the handle. *)
Definition cd_get (d : cdir) (name : string) : prog (outcome (option nat)) :=
  match validate name with
  | Err e => Ret (Err e) | Panic => Ret Panic
  | Ok _ =>
      r <- call1 (COpen (cd_base d ++ [name]) RDONLY) ;;
      match r with
      | RFd fd => _ <- ensure_file_touched fd ;; Ret (Ok (Some fd))
      | RErr e => Ret (if is_absent (OsErr e) then Ok None else Err (OsErr e))
      | _ => Ret (Err (OsErr EINVAL))
      end
  end.

Definition definitely_cleanup (d : cdir) (base : path) : prog (outcome N) :=
  r <- prune base (cd_cap d) ;;
  match r with
  | Ok (est, _) => try (cleanup_temporary_directory (cd_temp d)) (fun _ => Ret (Ok est))
  | Err e => Ret (if is_absent e then Ok 0%N else Err e)
  | Panic => Ret Panic
  end.

Definition maybe_cleanup (d : cdir) : prog (outcome (option N)) :=
  Trigger (cd_weight d) (fun fired =>
  if fired then try (definitely_cleanup d (cd_base d)) (fun est => Ret (Ok (Some est)))
  else Ret (Ok None)).

Definition cd_publish (ins : path -> path -> prog (outcome unit)) (d : cdir) (name : string) (value : path)
  : prog (outcome (option N)) :=
  match validate name with
  | Err e => Ret (Err e) | Panic => Ret Panic
  | Ok _ =>
      try (maybe_cleanup d) (fun ret =>
      let dst := cd_base d ++ [name] in
      r <- ins value dst ;;
      match r with
      | Ok _ => Ret (Ok ret)
      | _ => try (create_dir_all (removelast dst)) (fun _ =>
             try (ins value dst) (fun _ => Ret (Ok ret)))
      end)
  end.
Definition cd_set := cd_publish insert_or_update.
Definition cd_put := cd_publish insert_or_touch.

Definition cd_touch (d : cdir) (name : string) : prog (outcome bool) :=
  match validate name with
  | Err e => Ret (Err e) | Panic => Ret Panic
  | Ok _ => touch (cd_base d ++ [name])
  end.

(** * plain.rs / sharded.rs *)
Inductive front :=
| FPlain (dir : path) (cap : N)
| FSharded (dir : path) (nshards total : N).

(** CacheBuilder::writer and ReadOnlyCacheBuilder::cache / CacheBuilder::reader: the strategy
    is chosen by the shard count alone (plain for at most one shard, sharded otherwise). *)
Definition builder_writer (dir : path) (nshards total : N) : front :=
  if (nshards <=? 1)%N then FPlain dir total else FSharded dir nshards total.

Definition builder_reader (dir : path) (nshards : N) : front :=
  builder_writer dir nshards 18446744073709551615%N.

Definition plain_cdir (dir : path) (cap : N) : cdir :=
  mkCdir dir cap (weight (plain_period cap Constants.PLAIN_MAINTENANCE_SCALE) 1).

Definition shard_cdir (dir : path) (nshards total id : N) : cdir :=
  mkCdir (dir ++ [format_id id]) (sharded_shard_capacity nshards total)
         (weight (sharded_period nshards total Constants.SHARDED_MAINTENANCE_SCALE) 1).

Record key := mkKey { k_name : string; k_hash : N; k_sec : N }.

Definition clampN (x lo hi : N) : N := N.max lo (N.min x hi).

Definition sort_by_load (h nshards total : N) (ids : N * N) : prog (N * N) :=
  LoadGet h (fst ids) (fun l1 => LoadGet h (snd ids) (fun l2 =>
  let cap := sharded_shard_capacity nshards total in
  Ret (if (clampN l1 0 cap <=? clampN l2 0 cap)%N then ids else (snd ids, fst ids)))).

(** Shard::file_exists: only missing-file errors mean "absent"; the name is
    validated before it is used to build a path (repair of finding F4). *)
Definition file_exists (dirp : path) (name : string) : prog (outcome bool) :=
  match validate name with
  | Err e => Ret (Err e) | Panic => Ret Panic
  | Ok _ =>
      r <- call1 (CStat (dirp ++ [name]) true) ;;
      Ret (match r with
           | RStat _ => Ok true
           | RErr e => if is_absent (OsErr e) then Ok false else Err (OsErr e)
           | _ => Err (OsErr EINVAL)
           end)
  end.

(** The same as shipped before the repair (kept for the record of finding F4). *)
Definition file_exists_pinned (p : path) : prog bool :=
  r <- call1 (CStat p true) ;; Ret (match r with RStat _ => true | _ => false end).

Definition update_estimate (h id : N) (upd : option N) : prog unit :=
  match upd with
  | Some remaining => LoadSet h id (clampN remaining 0 254 + 1)%N (Ret tt)
  | None => LoadGet h id (fun i => if (i <? 255)%N then LoadSet h id (i + 1)%N (Ret tt) else Ret tt)
  end.

Definition force_maintain_shard (h : N) (dir : path) (nshards total id : N) : prog (outcome unit) :=
  let d := shard_cdir dir nshards total id in
  try (definitely_cleanup d (cd_base d)) (fun est =>
  LoadSet h id (clampN est 0 255)%N (Ret (Ok tt))).

Definition sh_publish (ins : cdir -> string -> path -> prog (outcome (option N)))
           (h : N) (dir : path) (nshards total : N) (k : key) (value : path) : prog (outcome unit) :=
  let n := eff_shards nshards in
  ids <- sort_by_load h nshards total (shard_ids (k_hash k) (k_sec k) nshards) ;;
  let '(h1, h2) := ids in
  try (file_exists (dir ++ [format_id h2]) (k_name k)) (fun ex =>
  let sid := if ex then h2 else h1 in
  try (ins (shard_cdir dir nshards total sid) (k_name k) value) (fun upd =>
  update_estimate h h1 upd ;;;
  match upd with
  | Some _ =>
      RandShard n (fun r =>
      force_maintain_shard h dir nshards total (other_shard_id n sid r))
  | None =>
      LoadGet h h1 (fun l =>
      if (sharded_shard_capacity nshards total <? l / 2)%N
      then Mark 20 [] (force_maintain_shard h dir nshards total sid)    (* ghost: overload maintenance *)
      else Ret (Ok tt))
  end)).

Definition sh_get (dir : path) (nshards total : N) (k : key) : prog (outcome (option nat)) :=
  let '(h1, h2) := shard_ids (k_hash k) (k_sec k) nshards in
  try (cd_get (shard_cdir dir nshards total h1) (k_name k)) (fun r =>
  match r with
  | Some fd => Ret (Ok (Some fd))
  | None => cd_get (shard_cdir dir nshards total h2) (k_name k)
  end).

Definition sh_touch (dir : path) (nshards total : N) (k : key) : prog (outcome bool) :=
  let '(h1, h2) := shard_ids (k_hash k) (k_sec k) nshards in
  try (cd_touch (shard_cdir dir nshards total h1) (k_name k)) (fun b =>
  if b then Ret (Ok true) else cd_touch (shard_cdir dir nshards total h2) (k_name k)).

Definition sh_temp_dir (h : N) (dir : path) (nshards total : N) (k : option key) : prog (outcome path) :=
  sid <- match k with
         | Some k => ids <- sort_by_load h nshards total (shard_ids (k_hash k) (k_sec k) nshards) ;; Ret (fst ids)
         | None => RandShard (eff_shards nshards) (fun r => Ret r)
         end ;;
  let d := shard_cdir dir nshards total sid in
  Trigger (cd_weight d) (fun fired =>
  try (if fired then cleanup_temporary_directory (cd_temp d) else Ret (Ok tt)) (fun _ =>
  ensure_temp_dir d)).

(** FullCache / ReadSide dispatch *)
Definition f_get (f : front) (k : key) : prog (outcome (option nat)) :=
  match f with
  | FPlain dir cap => cd_get (plain_cdir dir cap) (k_name k)
  | FSharded dir n t => sh_get dir n t k
  end.
Definition f_touch (f : front) (k : key) : prog (outcome bool) :=
  match f with
  | FPlain dir cap => cd_touch (plain_cdir dir cap) (k_name k)
  | FSharded dir n t => sh_touch dir n t k
  end.
Definition f_temp_dir (h : N) (f : front) (k : key) : prog (outcome path) :=
  match f with
  | FPlain dir cap => ensure_temp_dir (plain_cdir dir cap)
  | FSharded dir n t => sh_temp_dir h dir n t (Some k)
  end.
Definition drop_opt {A} (p : prog (outcome (option A))) : prog (outcome unit) :=
  try p (fun _ => Ret (Ok tt)).
Definition f_set (h : N) (f : front) (k : key) (v : path) : prog (outcome unit) :=
  match f with
  | FPlain dir cap => drop_opt (cd_set (plain_cdir dir cap) (k_name k) v)
  | FSharded dir n t => sh_publish cd_set h dir n t k v
  end.
Definition f_put (h : N) (f : front) (k : key) (v : path) : prog (outcome unit) :=
  match f with
  | FPlain dir cap => drop_opt (cd_put (plain_cdir dir cap) (k_name k) v)
  | FSharded dir n t => sh_publish cd_put h dir n t k v
  end.

(** * readonly.rs *)
Definition checker := nat -> nat -> prog (outcome unit).

Fixpoint ro_get_loop (stack : list front) (chk : option checker) (k : key) (ret : option nat)
  : prog (outcome (option nat)) :=
  let drop_ret := match ret with Some p => quiet (CClose p) | None => skip end in
  match stack with
  | [] => Ret (Ok ret)
  | c :: rest =>
      try_c (f_get c k) drop_ret (fun hit =>
      match hit with
      | None => ro_get_loop rest chk k ret
      | Some hfd =>
          match chk with
          | None => Ret (Ok (Some hfd))
          | Some ck =>
              match ret with
              | None => ro_get_loop rest chk k (Some hfd)
              | Some prev =>
                  let drops := quiet (CClose hfd) ;;; quiet (CClose prev) in
                  try_c (ck prev hfd) drops (fun _ =>
                  try_c (unit_call (CSeek prev 0)) drops (fun _ =>
                  quiet (CClose hfd) ;;; ro_get_loop rest chk k ret))
              end
          end
      end)
  end.

Definition ro_get (stack : list front) (chk : option checker) (k : key) : prog (outcome (option nat)) :=
  match stack with [] => Ret (Ok None) | _ => ro_get_loop stack chk k None end.

Fixpoint ro_touch (stack : list front) (k : key) : prog (outcome bool) :=
  match stack with
  | [] => Ret (Ok false)
  | c :: rest => try (f_touch c k) (fun b => if b then Ret (Ok true) else ro_touch rest k)
  end.

(** * stack.rs *)
Record stack_cfg := mkStack {
  s_handle : N;
  s_writer : option front;
  s_readers : list front;
  s_checker : option checker;
  s_autosync : bool;
  s_systmp : path
}.

(** finalize_tempfile: on failure the NamedTempFile / TempPath drops unlink the
    path, and the descriptor is closed. *)
Definition finalize_tempfile (fd : nat) (p : path) (sync : bool) : prog (outcome unit) :=
  let drops := quiet (CUnlink p) ;;; quiet (CClose fd) in
  try_c (unit_call (CFchmod fd 292)) drops (fun _ =>          (* 0o444 *)
  try_c (if sync then unit_call (CFsync fd) else Ret (Ok tt)) drops (fun _ =>
  try_c (unit_call (CClose fd)) (quiet (CUnlink p)) (fun _ => Ret (Ok tt)))).

Definition maybe_sync_path (cfg : stack_cfg) (p : path) : prog (outcome unit) :=
  if s_autosync cfg then
    try (fd_call (COpen p RDONLY)) (fun fd =>
    r <- call1 (CFsync fd) ;;
    match r with
    | RErr _ => quiet (CClose fd) ;;; Ret Panic
    | _ => quiet (CClose fd) ;;; Ret (Ok tt)
    end)
  else Ret (Ok tt).

Definition with_checked (cfg : stack_cfg) (k : key) (f : nat) (cont : prog (outcome nat)) : prog (outcome nat) :=
  match s_checker cfg with
  | None => cont
  | Some ck =>
      try_c (ro_get (s_readers cfg) (s_checker cfg) k) (quiet (CClose f)) (fun rh =>
      match rh with
      | None => cont
      | Some rd =>
          let drops := quiet (CClose rd) ;;; quiet (CClose f) in
          try_c (ck f rd) drops (fun _ =>
          try_c (unit_call (CSeek f 0)) drops (fun _ =>
          quiet (CClose rd) ;;; cont))
      end)
  end.

Definition cache_get (cfg : stack_cfg) (k : key) : prog (outcome (option nat)) :=
  let ro := ro_get (s_readers cfg) (s_checker cfg) k in
  match s_writer cfg with
  | None => ro
  | Some w =>
      try (f_get w k) (fun r =>
      match r with
      | Some f => try (with_checked cfg k f (Ret (Ok f))) (fun f => Ret (Ok (Some f)))
      | None => ro
      end)
  end.

Definition cache_touch (cfg : stack_cfg) (k : key) : prog (outcome bool) :=
  match s_writer cfg with
  | None => ro_touch (s_readers cfg) k
  | Some w => try (f_touch w k) (fun b => if b then Ret (Ok true) else ro_touch (s_readers cfg) k)
  end.

Definition write_impl (which : bool) (cfg : stack_cfg) (k : key) (v : path) : prog (outcome unit) :=
  match s_writer cfg with
  | Some w => if which then f_set (s_handle cfg) w k v else f_put (s_handle cfg) w k v
  | None => Ret (Err Unsupported)
  end.

Definition cache_set (cfg : stack_cfg) (k : key) (v : path) : prog (outcome unit) :=
  try (maybe_sync_path cfg v) (fun _ => write_impl true cfg k v).
Definition cache_put (cfg : stack_cfg) (k : key) (v : path) : prog (outcome unit) :=
  try (maybe_sync_path cfg v) (fun _ => write_impl false cfg k v).

(** set_temp_file / put_temp_file: [fd]/[p] are the caller's NamedTempFile. *)
Definition cache_write_temp (which : bool) (cfg : stack_cfg) (k : key) (fd : nat) (p : path) : prog (outcome unit) :=
  try (finalize_tempfile fd p (s_autosync cfg)) (fun _ =>
  r <- write_impl which cfg k p ;;
  quiet (CUnlink p) ;;; Ret r).

Inductive action := Accept | Promote | Replace.
Definition judge := bool -> nat -> prog action.                   (* primary? -> hit -> verdict *)
Definition populate := nat -> option nat -> prog (outcome unit).  (* dst -> old -> result; closes old *)

Definition new_named_temp (dir : path) : prog (outcome (nat * path)) :=
  Fresh (fun name =>
  let p := dir ++ [name] in
  try (fd_call (CCreate p 384)) (fun fd => Ret (Ok (fd, p)))).         (* 0o600 *)

Definition get_tempfile (cfg : stack_cfg) (k : key) : prog (outcome nat) :=
  match s_writer cfg with
  | Some w => try (f_temp_dir (s_handle cfg) w k) (fun td => fd_call (COpenTmp td))
  | None => fd_call (COpenTmp (s_systmp cfg))
  end.

Definition promote (cfg : stack_cfg) (w : front) (k : key) (f : nat) : prog (outcome nat) :=
  let cf := quiet (CClose f) in
  try_c (f_temp_dir (s_handle cfg) w k) cf (fun td =>
  try_c (new_named_temp td) cf (fun '(fd, p) =>
  try_c (unit_call (CCopy f fd)) (quiet (CUnlink p) ;;; quiet (CClose fd) ;;; cf) (fun _ =>
  try_c (finalize_tempfile fd p (s_autosync cfg)) cf (fun _ =>
  try_c (f_put (s_handle cfg) w k p) (quiet (CUnlink p) ;;; cf) (fun _ =>
  try_c (unit_call (CSeek f 0)) (quiet (CUnlink p) ;;; cf) (fun _ =>
  quiet (CUnlink p) ;;; Ret (Ok f))))))).

(** After Accept/Promote on a hit [f]: rewind, compare with a freshly populated
    value when a checker is configured; [None] = populate said NotFound. *)
Definition accept_checks (cfg : stack_cfg) (k : key) (pop : populate) (f : nat) : prog (outcome bool) :=
  let cf := quiet (CClose f) in
  try_c (unit_call (CSeek f 0)) cf (fun _ =>
  match s_checker cfg with
  | None => Ret (Ok true)
  | Some ck =>
      try_c (get_tempfile cfg k) cf (fun t =>
      let drops := quiet (CClose t) ;;; cf in
      r <- pop t None ;;
      match r with
      | Err (Custom CNotFound) => quiet (CClose t) ;;; Ret (Ok false)
      | Err e => drops ;;; Ret (Err e)
      | Panic => drops ;;; Ret Panic
      | Ok _ =>
          try_c (unit_call (CSeek t 0)) drops (fun _ =>
          try_c (ck f t) drops (fun _ =>
          try_c (unit_call (CSeek f 0)) drops (fun _ =>
          quiet (CClose t) ;;; Ret (Ok true))))
      end)
  end).

Definition populate_phase (cfg : stack_cfg) (k : key) (pop : populate) (old : option nat) : prog (outcome nat) :=
  let drop_old := match old with Some o => quiet (CClose o) | None => skip end in
  match s_writer cfg with
  | None =>
      try_c (fd_call (COpenTmp (s_systmp cfg))) drop_old (fun t =>
      try_c (pop t old) (quiet (CClose t)) (fun _ =>
      try_c (unit_call (CSeek t 0)) (quiet (CClose t)) (fun _ => Ret (Ok t))))
  | Some w =>
      try_c (f_temp_dir (s_handle cfg) w k) drop_old (fun td =>
      try_c (new_named_temp td) drop_old (fun '(fd, p) =>
      try_c (pop fd old) (quiet (CUnlink p) ;;; quiet (CClose fd)) (fun _ =>
      try (finalize_tempfile fd p (s_autosync cfg)) (fun _ =>
      try_c (fd_call (COpen p RDONLY)) (quiet (CUnlink p)) (fun ret =>
      match old with
      | Some _ =>
          try_c (f_set (s_handle cfg) w k p) (quiet (CClose ret) ;;; quiet (CUnlink p)) (fun _ =>
          quiet (CUnlink p) ;;; Ret (Ok ret))
      | None =>
          try_c (f_put (s_handle cfg) w k p) (quiet (CClose ret) ;;; quiet (CUnlink p)) (fun _ =>
          g <- f_get w k ;;
          match g with
          | Ok (Some file) => quiet (CClose ret) ;;; quiet (CUnlink p) ;;; Ret (Ok file)
          | _ => quiet (CUnlink p) ;;; Ret (Ok ret)
          end)
      end)))))
  end.

Definition get_or_update (cfg : stack_cfg) (k : key) (j : judge) (pop : populate) : prog (outcome nat) :=
  try (match s_writer cfg with Some w => f_get w k | None => Ret (Ok None) end) (fun r1 =>
  match r1 with
  | Some f =>
      try (with_checked cfg k f (Ret (Ok f))) (fun f =>
      a <- j true f ;;
      match a with
      | Replace => populate_phase cfg k pop (Some f)
      | _ => try (accept_checks cfg k pop f) (fun _ => Ret (Ok f))
      end)
  | None =>
      try (ro_get (s_readers cfg) (s_checker cfg) k) (fun r2 =>
      match r2 with
      | None => populate_phase cfg k pop None
      | Some f =>
          a <- j false f ;;
          match a with
          | Replace => populate_phase cfg k pop (Some f)
          | _ =>
              try (accept_checks cfg k pop f) (fun _ =>
              (* NotFound from populate only skips the comparison (repair of F3) *)
              match a, s_writer cfg with
              | Promote, Some w => promote cfg w k f
              | _, _ => Ret (Ok f)
              end)
          end
      end)
  end).

Definition ensure (cfg : stack_cfg) (k : key) (pop : populate) : prog (outcome nat) :=
  get_or_update cfg k (fun _ _ => Ret Promote) pop.
