(** What callers do around the library (staging a value in a private file,
    populate / judge / checker callbacks), as programs over the same calls.
    These mirror the harness's clients so that whole scenarios can be run on
    the model; the concurrent development quantifies over arbitrary clients of
    this shape (any number of chunks). *)
From Coq Require Import List NArith ZArith String Bool Arith.
From Kismet Require Import FS.Fs FS.Prog Ops.Ops.
Import ListNotations.
Local Open Scope list_scope.

Fixpoint write_chunks (fd : nat) (chunks : list (list N)) : prog (outcome unit) :=
  match chunks with
  | [] => Ret (Ok tt)
  | c :: rest => try (unit_call (CWrite fd c)) (fun _ => write_chunks fd rest)
  end.

(** File::create(path); write_all per chunk; drop *)
Definition stage_path (p : path) (mode : N) (chunks : list (list N)) : prog (outcome unit) :=
  try (fd_call (CCreateTrunc p mode)) (fun fd =>
  r <- write_chunks fd chunks ;; quiet (CClose fd) ;;; Ret r).

(** NamedTempFile in a staging directory; stays open, owned by the caller *)
Definition stage_temp (p : path) (chunks : list (list N)) : prog (outcome nat) :=
  try (fd_call (CCreate p 384)) (fun fd =>
  try_c (write_chunks fd chunks) (quiet (CUnlink p) ;;; quiet (CClose fd)) (fun _ => Ret (Ok fd))).

Definition BIG : N := 1099511627776.

(** Read::read_to_end on a File: fstat for the size hint, then reads *)
Definition read_all (fd : nat) : prog (list N) :=
  quiet (CFstat fd) ;;;
  r <- call1 (CRead fd BIG) ;; Ret (match r with RData d => d | _ => [] end).

Fixpoint bytes_eqb (a b : list N) : bool :=
  match a, b with
  | [], [] => true
  | x :: a', y :: b' => (N.eqb x y && bytes_eqb a' b')%bool
  | _, _ => false
  end.

(** kismet_cache::byte_equality_checker and its panicking variant; a counting
    checker that records both contents (ghost [Mark 1]) and optionally fails. *)
Definition chk_byteeq : checker := fun a b =>
  da <- read_all a ;; db <- read_all b ;;
  Mark 1 [da; db] (Ret (if bytes_eqb da db then Ok tt else Err (Custom CMismatch))).
Definition chk_panic : checker := fun a b =>
  da <- read_all a ;; db <- read_all b ;;
  Mark 1 [da; db] (Ret (if bytes_eqb da db then Ok tt else Panic)).
(** a checker that reports a mismatch with an error of kind NotFound (the kind populate
    uses for "no such value"): a checker's verdict must reach the caller whatever its kind *)
Definition chk_count_nf : checker := fun a b =>
  da <- read_all a ;; db <- read_all b ;;
  Mark 1 [da; db] (Ret (if negb (bytes_eqb da db) then Err (Custom CNotFound) else Ok tt)).
Definition chk_count (fail : bool) : checker := fun a b =>
  da <- read_all a ;; db <- read_all b ;;
  Mark 1 [da; db] (Ret (if (fail && negb (bytes_eqb da db))%bool then Err (Custom CMismatch) else Ok tt)).

(** The harness's populate: inspects [old] (rewinds and reads it, ghost [Mark 2]
    with its content and previous offset), then fails or writes the value. *)
(* PopPartialNF: writes the chunks it has, then reports NotFound (a streamed source that vanished) *)
Inductive pop_kind := PopValue (chunks : list (list N)) | PopNotFound | PopOther | PopPartialNF (chunks : list (list N)).

Definition client_populate (pk : pop_kind) : populate := fun dst old =>
  (match old with
   | Some o =>
       Call (CSeek o 0) (fun _ => d <- read_all o ;; Mark 2 [d] (quiet (CClose o)))
   | None => skip
   end) ;;;
  Mark 3 [] (
  match pk with
  | PopNotFound => Ret (Err (Custom CNotFound))
  | PopOther => Ret (Err (Custom COther))
  | PopValue chunks => write_chunks dst chunks
  | PopPartialNF chunks => try (write_chunks dst chunks) (fun _ => Ret (Err (Custom CNotFound)))
  end).

Definition client_judge (a : action) (readn : N) : judge := fun primary f =>
  Mark (if primary then 4 else 5)%N [] (
  (if (0 <? readn)%N then quiet (CRead f readn) else skip) ;;; Ret a).

(** Whole client operations (stage, then call the library). *)
Definition client_set_path (which : bool) (cfg : stack_cfg) (k : key) (src : path) (mode : N)
           (chunks : list (list N)) : prog (outcome unit) :=
  try (stage_path src mode chunks) (fun _ => Mark 9 [] (if which then cache_set cfg k src else cache_put cfg k src)).

Definition client_set_temp (which : bool) (cfg : stack_cfg) (k : key) (src : path)
           (chunks : list (list N)) : prog (outcome unit) :=
  try (stage_temp src chunks) (fun fd => Mark 9 [] (cache_write_temp which cfg k fd src)).

(** Direct plain / sharded front-end clients *)
Definition client_front_write (which : bool) (h : N) (f : front) (k : key) (src : path) (mode : N)
           (chunks : list (list N)) : prog (outcome unit) :=
  try (stage_path src mode chunks) (fun _ => Mark 9 [] (if which then f_set h f k src else f_put h f k src)).
