/* kshim: LD_PRELOAD interposer used by the kismet-cache correspondence checks.
 *
 * Modes (environment):
 *   KSHIM_ROOT=<abs dir>      only calls that name a path under this prefix, or a
 *                             descriptor opened under it, are "tracked"
 *   KSHIM_LOG=<file>          append one line per tracked call (O_APPEND, one write each)
 *   KSHIM_FAULT=<n>:<errno>   fail the n-th tracked call (1-based) with errno, once
 *   KSHIM_FAULT=<name>:<errno>:p   fail EVERY tracked call of that name (persistent)
 *   KSHIM_PID=<n>                  getpid() answers n (processes of different PID namespaces sharing a cache)
 *   KSHIM_CRASH_AT=<n>        _exit(77) just before the n-th tracked call
 *   KSHIM_CLOCK=<base_ns>:<tick_ns>  CLOCK_REALTIME returns base + k*tick on its k-th read
 *   KSHIM_NOATIME=1           add O_NOATIME to tracked opens (emulates "no automatic atime")
 *   KSHIM_GRAN_NS=<g>         truncate timestamps set/read on tracked files to multiples of g
 *   KGATE_OUT=<fd> KGATE_IN=<fd>   before every tracked call write "AT <seq> <tid> <call> <path>\n"
 *                             to KGATE_OUT and block until one byte arrives on KGATE_IN
 *
 * Log line:  <seq> <tid> <call> <args...> = <ret> <errno-name|->
 * Paths are printed as given (the harness always uses absolute paths); descriptors
 * as fd numbers followed by the path they were opened with: 7<path>.
 */
#define _GNU_SOURCE
#include <dlfcn.h>
#include <dirent.h>
#include <errno.h>
#include <fcntl.h>
#include <pthread.h>
#include <stdarg.h>
#include <stdio.h>
#include <stdlib.h>
#include <string.h>
#include <sys/stat.h>
#include <sys/syscall.h>
#include <sys/types.h>
#include <sys/file.h>
#include <time.h>
#include <unistd.h>

#define MAXFD 4096
static char *fd_path[MAXFD];
static pthread_mutex_t mu = PTHREAD_MUTEX_INITIALIZER;
static int inited = 0;
static const char *root = NULL;
static size_t rootlen = 0;
static int logfd = -1;
static long seq = 0;
static long fault_n = -1;
static int fault_errno = 0;
static char fault_name[32] = "";
static int fault_persistent = 0;
static long crash_at = -1;
static int clock_on = 0;
static long long clock_base = 0, clock_tick = 0, clock_k = 0;
static int noatime = 0;
static long long gran = 0;
static int gate_out = -1, gate_in = -1;
static __thread int in_shim = 0;

static const char *ename(int e) {
    switch (e) {
    case 0: return "-";
    case ENOENT: return "ENOENT"; case EEXIST: return "EEXIST"; case ENOTDIR: return "ENOTDIR";
    case EISDIR: return "EISDIR"; case EACCES: return "EACCES"; case EIO: return "EIO";
    case ENOSPC: return "ENOSPC"; case EMFILE: return "EMFILE"; case ESTALE: return "ESTALE";
    case EINVAL: return "EINVAL"; case ENAMETOOLONG: return "ENAMETOOLONG"; case EPERM: return "EPERM";
    case ENOTEMPTY: return "ENOTEMPTY"; case EXDEV: return "EXDEV"; case EBADF: return "EBADF";
    case EOPNOTSUPP: return "EOPNOTSUPP"; case ELOOP: return "ELOOP"; case EROFS: return "EROFS"; case EINTR: return "EINTR";
    default: { static __thread char b[16]; snprintf(b, sizeof b, "E%d", e); return b; }
    }
}
static int eval(const char *s) {
    if (!strcmp(s, "ENOENT")) return ENOENT; if (!strcmp(s, "EEXIST")) return EEXIST;
    if (!strcmp(s, "ENOTDIR")) return ENOTDIR; if (!strcmp(s, "EISDIR")) return EISDIR;
    if (!strcmp(s, "EACCES")) return EACCES; if (!strcmp(s, "EIO")) return EIO;
    if (!strcmp(s, "ENOSPC")) return ENOSPC; if (!strcmp(s, "EMFILE")) return EMFILE;
    if (!strcmp(s, "ESTALE")) return ESTALE; if (!strcmp(s, "EINVAL")) return EINVAL;
    if (!strcmp(s, "EPERM")) return EPERM; if (!strcmp(s, "EXDEV")) return EXDEV;
    if (!strcmp(s, "EROFS")) return EROFS; if (!strcmp(s, "EINTR")) return EINTR;
    return atoi(s);
}

/* KSHIM_PID=<n>: getpid() answers n.  Processes in different PID namespaces that share a
   cache volume (containers: everybody is pid 1) are a legitimate environment; anything the
   library derives from its pid must not make such processes collide. */
static pid_t fake_pid = -1;
pid_t getpid(void) {
    if (fake_pid == -1) { const char *e = getenv("KSHIM_PID"); fake_pid = e ? (pid_t)atoi(e) : 0; }
    if (fake_pid > 0) return fake_pid;
    return (pid_t)syscall(SYS_getpid);
}

static void init(void) {
    if (inited) return;
    inited = 1;
    const char *s;
    root = getenv("KSHIM_ROOT");
    if (root) rootlen = strlen(root);
    if ((s = getenv("KSHIM_LOG"))) {
        int (*ropen)(const char *, int, ...) = dlsym(RTLD_NEXT, "open");
        logfd = ropen(s, O_WRONLY | O_CREAT | O_APPEND | O_CLOEXEC, 0644);
    }
    if ((s = getenv("KSHIM_FAULT"))) {
        char buf[96]; strncpy(buf, s, 95); buf[95] = 0;
        char *c1 = strchr(buf, ':');
        if (c1) {
            *c1 = 0; char *c2 = strchr(c1 + 1, ':');
            if (c2) { *c2 = 0; fault_persistent = 1; strncpy(fault_name, buf, 31); fault_errno = eval(c1 + 1); }
            else { fault_n = atol(buf); fault_errno = eval(c1 + 1); }
        }
    }
    if ((s = getenv("KSHIM_CRASH_AT"))) crash_at = atol(s);
    if ((s = getenv("KSHIM_CLOCK"))) { clock_on = 1; sscanf(s, "%lld:%lld", &clock_base, &clock_tick); }
    if ((s = getenv("KSHIM_NOATIME"))) noatime = atoi(s);
    if ((s = getenv("KSHIM_GRAN_NS"))) gran = atoll(s);
    if ((s = getenv("KGATE_OUT"))) gate_out = atoi(s);
    if ((s = getenv("KGATE_IN"))) gate_in = atoi(s);
}

static int under_root(const char *p) {
    return root && p && strncmp(p, root, rootlen) == 0 && (p[rootlen] == '/' || p[rootlen] == 0);
}
static int fd_tracked(int fd) { return fd >= 0 && fd < MAXFD && fd_path[fd] != NULL; }
static const char *fdp(int fd) { return fd_tracked(fd) ? fd_path[fd] : "?"; }
static void fdtab_set(int fd, const char *p) {
    if (fd < 0 || fd >= MAXFD) return;
    pthread_mutex_lock(&mu);
    free(fd_path[fd]); fd_path[fd] = p ? strdup(p) : NULL;
    pthread_mutex_unlock(&mu);
}

/* Called before a tracked call.  Returns errno to inject (0 = run for real). */
static int pre(const char *call, const char *path, long *myseq) {
    pthread_mutex_lock(&mu);
    long n = ++seq;
    pthread_mutex_unlock(&mu);
    *myseq = n;
    if (gate_out >= 0 && gate_in >= 0) {
        char b[4400]; int l = snprintf(b, sizeof b, "AT %ld %ld %s %s\n", n, (long)syscall(SYS_gettid), call, path ? path : "-");
        ssize_t (*rw)(int, const void *, size_t) = dlsym(RTLD_NEXT, "write");
        ssize_t (*rr)(int, void *, size_t) = dlsym(RTLD_NEXT, "read");
        rw(gate_out, b, l);
        char c; while (rr(gate_in, &c, 1) < 0 && errno == EINTR) {}
    }
    if (crash_at > 0 && n == crash_at) {
        if (logfd >= 0) { char b[64]; int l = snprintf(b, sizeof b, "%ld %ld CRASH\n", n, (long)syscall(SYS_gettid));
            ssize_t (*rw)(int, const void *, size_t) = dlsym(RTLD_NEXT, "write"); rw(logfd, b, l); }
        _exit(77);
    }
    if (fault_n > 0 && n == fault_n) return fault_errno;
    if (fault_persistent && !strcmp(fault_name, call)) return fault_errno;
    return 0;
}

/* Paths are logged with whitespace, control bytes and '%' percent-escaped, so
   that log lines stay space-separated. */
static const char *E(const char *p) {
    static __thread char ring[6][4400]; static __thread int idx = 0;
    if (!p) return "?";
    char *o = ring[idx = (idx + 1) % 6]; size_t k = 0;
    for (const unsigned char *c = (const unsigned char *)p; *c && k < 4390; c++) {
        if (*c <= 0x20 || *c == '%' || *c >= 0x7f) { k += snprintf(o + k, 4, "%%%02x", *c); }
        else o[k++] = (char)*c;
    }
    o[k] = 0; return o;
}

static void logf_(long n, const char *fmt, ...) {
    if (logfd < 0) return;
    char b[9000];
    int l = snprintf(b, sizeof b, "%ld %ld ", n, (long)syscall(SYS_gettid));
    va_list ap; va_start(ap, fmt);
    l += vsnprintf(b + l, sizeof b - l - 2, fmt, ap);
    va_end(ap);
    if (l > (int)sizeof b - 2) l = sizeof b - 2;
    b[l++] = '\n';
    ssize_t (*rw)(int, const void *, size_t) = dlsym(RTLD_NEXT, "write");
    rw(logfd, b, l);
}

#define REAL(name) static __typeof__(name) *real_##name = NULL; if (!real_##name) real_##name = dlsym(RTLD_NEXT, #name)
#define RET(r) ((r) < 0 ? errno : 0)

static long long trunc_ns(long long sec, long long nsec, long long *osec) {
    if (gran <= 1) { *osec = sec; return nsec; }
    long long t = sec * 1000000000LL + nsec; t -= t % gran;
    *osec = t / 1000000000LL; return t % 1000000000LL;
}

/* ---- open family ---- */
static int do_open(const char *name, int dirfd, const char *path, int flags, mode_t mode) {
    init();
    static int (*ropenat)(int, const char *, int, ...) = NULL;
    if (!ropenat) ropenat = dlsym(RTLD_NEXT, "openat");
    if (in_shim || !under_root(path)) return ropenat(dirfd, path, flags, mode);
    long n; int e = pre("open", path, &n);
    int fl = flags; if (noatime && !(flags & O_PATH)) fl |= O_NOATIME;
    int r;
    if (e) { r = -1; errno = e; } else {
        r = ropenat(dirfd, path, fl, mode);
        if (r < 0 && (fl & O_NOATIME) && errno == EPERM) r = ropenat(dirfd, path, flags, mode);
    }
    int se = errno;
    const char *kind = ((flags & O_TMPFILE) == O_TMPFILE) ? "opentmp" : (flags & O_CREAT) ? "create" : "open";
    const char *acc = (flags & O_ACCMODE) == O_RDONLY ? "RDONLY" : (flags & O_ACCMODE) == O_WRONLY ? "WRONLY" : "RDWR";
    if (r >= 0) fdtab_set(r, path);
    logf_(n, "%s %s %s%s%s%s 0%o = %d %s", kind, E(path), acc, (flags & O_EXCL) ? "|EXCL" : "", (flags & O_TRUNC) ? "|TRUNC" : "",
          (flags & O_DIRECTORY) ? "|DIR" : "", (flags & O_CREAT) || kind[4] == 't' ? mode : 0, r, ename(r < 0 ? se : 0));
    (void)name; errno = se; return r;
}
int open(const char *p, int flags, ...) { mode_t m = 0; if (flags & (O_CREAT | __O_TMPFILE)) { va_list a; va_start(a, flags); m = va_arg(a, mode_t); va_end(a); } return do_open("open", AT_FDCWD, p, flags, m); }
int open64(const char *p, int flags, ...) { mode_t m = 0; if (flags & (O_CREAT | __O_TMPFILE)) { va_list a; va_start(a, flags); m = va_arg(a, mode_t); va_end(a); } return do_open("open64", AT_FDCWD, p, flags | O_LARGEFILE, m); }
int openat(int d, const char *p, int flags, ...) { mode_t m = 0; if (flags & (O_CREAT | __O_TMPFILE)) { va_list a; va_start(a, flags); m = va_arg(a, mode_t); va_end(a); } return do_open("openat", d, p, flags, m); }
int openat64(int d, const char *p, int flags, ...) { mode_t m = 0; if (flags & (O_CREAT | __O_TMPFILE)) { va_list a; va_start(a, flags); m = va_arg(a, mode_t); va_end(a); } return do_open("openat64", d, p, flags | O_LARGEFILE, m); }

int close(int fd) {
    init(); REAL(close);
    if (in_shim || !fd_tracked(fd)) return real_close(fd);
    long n; int e = pre("close", fdp(fd), &n);
    int r; if (e) { real_close(fd); r = -1; errno = e; } else r = real_close(fd);
    int se = errno;
    logf_(n, "close %d<%s> = %d %s", fd, E(fdp(fd)), r, ename(r < 0 ? se : 0));
    fdtab_set(fd, NULL);
    if (e) {
        /* KSHIM_PEER_OPENS: after a close that released the descriptor but reported a failure, another
           thread of the process opens this file; it is given the lowest free number, i.e. the one just
           released.  The peer's descriptor is tracked, so that whatever the caller does to it is logged. */
        const char *peer = getenv("KSHIM_PEER_OPENS");
        if (peer && *peer) {
            char pb[4096]; snprintf(pb, sizeof pb, "%s/%s", root ? root : "", peer);
            in_shim++; int v = (int)syscall(SYS_openat, AT_FDCWD, pb, O_RDONLY, 0); in_shim--;
            if (v >= 0) { fdtab_set(v, pb); logf_(n, "peeropen %s = %d", E(pb), v); }
        }
    }
    errno = se; return r;
}

/* ---- stat family ---- */
static const char *launder(const char *p) { const char *volatile v = p; return v; }
int statx(int dirfd, const char *path_, int flags, unsigned int mask, struct statx *st) {
    const char *path = launder(path_);   /* std probes statx(0, NULL, ...): the header's nonnull attribute must not elide our checks */
    init(); REAL(statx);
    int byfd = (path == NULL || path[0] == 0) && (flags & AT_EMPTY_PATH);
    char full[4400]; const char *shown = path;
    int tracked = 0;
    if (!in_shim) {
        if (byfd) tracked = fd_tracked(dirfd);
        else if (path && path[0] == '/') tracked = under_root(path);
        else if (path && fd_tracked(dirfd)) { snprintf(full, sizeof full, "%s/%s", fdp(dirfd), path); shown = full; tracked = 1; }
    }
    if (!tracked) return real_statx(dirfd, path, flags, mask, st);
    long n; int e = pre(byfd ? "fstat" : "stat", byfd ? fdp(dirfd) : shown, &n);
    int r; if (e) { r = -1; errno = e; } else r = real_statx(dirfd, path, flags, mask, st);
    int se = errno;
    if (r == 0 && gran > 1) {
        long long s;
        st->stx_mtime.tv_nsec = trunc_ns(st->stx_mtime.tv_sec, st->stx_mtime.tv_nsec, &s); st->stx_mtime.tv_sec = s;
        st->stx_atime.tv_nsec = trunc_ns(st->stx_atime.tv_sec, st->stx_atime.tv_nsec, &s); st->stx_atime.tv_sec = s;
    }
    if (byfd) {
        if (r == 0) logf_(n, "fstat %d<%s> = 0 - ino=%llu mode=0%o size=%llu mtime=%lld.%09u atime=%lld.%09u", dirfd, E(fdp(dirfd)),
                          (unsigned long long)st->stx_ino, st->stx_mode, (unsigned long long)st->stx_size,
                          (long long)st->stx_mtime.tv_sec, st->stx_mtime.tv_nsec, (long long)st->stx_atime.tv_sec, st->stx_atime.tv_nsec);
        else logf_(n, "fstat %d<%s> = -1 %s", dirfd, E(fdp(dirfd)), ename(se));
    } else {
        const char *fl = (flags & AT_SYMLINK_NOFOLLOW) ? "NOFOLLOW" : "FOLLOW";
        if (r == 0) logf_(n, "stat %s %s = 0 - ino=%llu mode=0%o size=%llu mtime=%lld.%09u atime=%lld.%09u", E(shown), fl,
                          (unsigned long long)st->stx_ino, st->stx_mode, (unsigned long long)st->stx_size,
                          (long long)st->stx_mtime.tv_sec, st->stx_mtime.tv_nsec, (long long)st->stx_atime.tv_sec, st->stx_atime.tv_nsec);
        else logf_(n, "stat %s %s = -1 %s", E(shown), fl, ename(se));
    }
    errno = se; return r;
}

#define PATH1(fname, callname, proto, args, pathvar, fmt, ...) \
    int fname proto { init(); REAL(fname); \
        if (in_shim || !under_root(pathvar)) return real_##fname args; \
        long n; int e = pre(callname, pathvar, &n); int r; \
        if (e) { r = -1; errno = e; } else r = real_##fname args; \
        int se = errno; logf_(n, fmt " = %d %s", __VA_ARGS__, r, ename(r < 0 ? se : 0)); errno = se; return r; }

PATH1(mkdir, "mkdir", (const char *p, mode_t m), (p, m), p, "mkdir %s 0%o", E(p), m)
PATH1(unlink, "unlink", (const char *p), (p), p, "unlink %s", E(p))
PATH1(rmdir, "rmdir", (const char *p), (p), p, "rmdir %s", E(p))
PATH1(chmod, "chmod", (const char *p, mode_t m), (p, m), p, "chmod %s 0%o", E(p), m)
PATH1(truncate, "truncate", (const char *p, off_t l), (p, l), p, "truncate %s %ld", E(p), (long)l)

int unlinkat(int d, const char *p, int fl) {
    init(); REAL(unlinkat);
    if (in_shim || !under_root(p)) return real_unlinkat(d, p, fl);
    long n; int e = pre((fl & AT_REMOVEDIR) ? "rmdir" : "unlink", p, &n); int r;
    if (e) { r = -1; errno = e; } else r = real_unlinkat(d, p, fl);
    int se = errno; logf_(n, "%s %s = %d %s", (fl & AT_REMOVEDIR) ? "rmdir" : "unlink", E(p), r, ename(r < 0 ? se : 0)); errno = se; return r;
}
int rename(const char *a, const char *b) {
    init(); REAL(rename);
    if (in_shim || !(under_root(a) || under_root(b))) return real_rename(a, b);
    long n; int e = pre("rename", b, &n); int r;
    if (e) { r = -1; errno = e; } else r = real_rename(a, b);
    int se = errno; logf_(n, "rename %s %s = %d %s", E(a), E(b), r, ename(r < 0 ? se : 0)); errno = se; return r;
}
int renameat(int d1, const char *a, int d2, const char *b) {
    init(); REAL(renameat);
    if (in_shim || !(under_root(a) || under_root(b))) return real_renameat(d1, a, d2, b);
    long n; int e = pre("rename", b, &n); int r;
    if (e) { r = -1; errno = e; } else r = real_renameat(d1, a, d2, b);
    int se = errno; logf_(n, "rename %s %s = %d %s", E(a), E(b), r, ename(r < 0 ? se : 0)); errno = se; return r;
}
int link(const char *a, const char *b) {
    init(); REAL(link);
    if (in_shim || !(under_root(a) || under_root(b))) return real_link(a, b);
    long n; int e = pre("link", b, &n); int r;
    if (e) { r = -1; errno = e; } else r = real_link(a, b);
    int se = errno; logf_(n, "link %s %s = %d %s", E(a), E(b), r, ename(r < 0 ? se : 0)); errno = se; return r;
}
int linkat(int d1, const char *a, int d2, const char *b, int fl) {
    init(); REAL(linkat);
    if (in_shim || !(under_root(a) || under_root(b))) return real_linkat(d1, a, d2, b, fl);
    long n; int e = pre("link", b, &n); int r;
    if (e) { r = -1; errno = e; } else r = real_linkat(d1, a, d2, b, fl);
    int se = errno; logf_(n, "link %s %s = %d %s", E(a), E(b), r, ename(r < 0 ? se : 0)); errno = se; return r;
}
int fchmod(int fd, mode_t m) {
    init(); REAL(fchmod);
    if (in_shim || !fd_tracked(fd)) return real_fchmod(fd, m);
    long n; int e = pre("fchmod", fdp(fd), &n); int r;
    if (e) { r = -1; errno = e; } else r = real_fchmod(fd, m);
    int se = errno; logf_(n, "fchmod %d<%s> 0%o = %d %s", fd, E(fdp(fd)), m, r, ename(r < 0 ? se : 0)); errno = se; return r;
}
int fchmodat(int d, const char *p, mode_t m, int fl) {
    init(); REAL(fchmodat);
    if (in_shim || !under_root(p)) return real_fchmodat(d, p, m, fl);
    long n; int e = pre("chmod", p, &n); int r;
    if (e) { r = -1; errno = e; } else r = real_fchmodat(d, p, m, fl);
    int se = errno; logf_(n, "chmod %s 0%o = %d %s", E(p), m, r, ename(r < 0 ? se : 0)); errno = se; return r;
}

static void fmt_ts(char *b, size_t n, const struct timespec *t) {
    if (!t) { snprintf(b, n, "now"); return; }
    if (t->tv_nsec == UTIME_OMIT) snprintf(b, n, "omit");
    else if (t->tv_nsec == UTIME_NOW) snprintf(b, n, "now");
    else snprintf(b, n, "%lld.%09ld", (long long)t->tv_sec, t->tv_nsec);
}
static void gran_ts(struct timespec *t) {
    if (gran > 1 && t->tv_nsec != UTIME_OMIT && t->tv_nsec != UTIME_NOW) {
        long long s; t->tv_nsec = trunc_ns(t->tv_sec, t->tv_nsec, &s); t->tv_sec = s;
    }
}
int futimens(int fd, const struct timespec ts[2]) {
    init(); REAL(futimens);
    if (in_shim || !fd_tracked(fd)) return real_futimens(fd, ts);
    long n; int e = pre("futimens", fdp(fd), &n); int r;
    struct timespec t2[2]; const struct timespec *use = ts;
    if (ts) { t2[0] = ts[0]; t2[1] = ts[1]; gran_ts(&t2[0]); gran_ts(&t2[1]); use = t2; }
    if (e) { r = -1; errno = e; } else r = real_futimens(fd, use);
    int se = errno; char a[48], m[48]; fmt_ts(a, sizeof a, ts ? &ts[0] : NULL); fmt_ts(m, sizeof m, ts ? &ts[1] : NULL);
    logf_(n, "futimens %d<%s> atime=%s mtime=%s = %d %s", fd, E(fdp(fd)), a, m, r, ename(r < 0 ? se : 0)); errno = se; return r;
}
int utimensat(int d, const char *p, const struct timespec ts[2], int fl) {
    init(); REAL(utimensat);
    if (in_shim || !(p ? under_root(p) : fd_tracked(d))) return real_utimensat(d, p, ts, fl);
    long n; int e = pre(p ? "utimens" : "futimens", p ? p : fdp(d), &n); int r;
    struct timespec t2[2]; const struct timespec *use = ts;
    if (ts) { t2[0] = ts[0]; t2[1] = ts[1]; gran_ts(&t2[0]); gran_ts(&t2[1]); use = t2; }
    if (e) { r = -1; errno = e; } else r = real_utimensat(d, p, use, fl);
    int se = errno; char a[48], m[48]; fmt_ts(a, sizeof a, ts ? &ts[0] : NULL); fmt_ts(m, sizeof m, ts ? &ts[1] : NULL);
    if (p) logf_(n, "utimens %s atime=%s mtime=%s = %d %s", E(p), a, m, r, ename(r < 0 ? se : 0));
    else logf_(n, "futimens %d<%s> atime=%s mtime=%s = %d %s", d, E(fdp(d)), a, m, r, ename(r < 0 ? se : 0));
    errno = se; return r;
}

#define FD1(fname, proto, args, fdvar, fmt, ...) \
    int fname proto { init(); REAL(fname); \
        if (in_shim || !fd_tracked(fdvar)) return real_##fname args; \
        long n; int e = pre(#fname, fdp(fdvar), &n); int r; \
        if (e) { r = -1; errno = e; } else r = real_##fname args; \
        int se = errno; logf_(n, fmt " = %d %s", __VA_ARGS__, r, ename(r < 0 ? se : 0)); errno = se; return r; }
FD1(fsync, (int fd), (fd), fd, "fsync %d<%s>", fd, E(fdp(fd)))
FD1(fdatasync, (int fd), (fd), fd, "fdatasync %d<%s>", fd, E(fdp(fd)))
FD1(ftruncate, (int fd, off_t l), (fd, l), fd, "ftruncate %d<%s> %ld", fd, E(fdp(fd)), (long)l)
FD1(ftruncate64, (int fd, off64_t l), (fd, l), fd, "ftruncate %d<%s> %ld", fd, E(fdp(fd)), (long)l)
FD1(flock, (int fd, int op), (fd, op), fd, "flock %d<%s> %d", fd, E(fdp(fd)), op)

int fcntl(int fd, int cmd, ...) {
    init();
    static int (*rf)(int, int, ...) = NULL; if (!rf) rf = dlsym(RTLD_NEXT, "fcntl");
    va_list a; va_start(a, cmd); void *arg = va_arg(a, void *); va_end(a);
    int locky = (cmd == F_SETLK || cmd == F_SETLKW || cmd == F_GETLK || cmd == F_OFD_SETLK || cmd == F_OFD_SETLKW || cmd == F_OFD_GETLK);
    if (in_shim || !fd_tracked(fd) || !locky) {
        int r = rf(fd, cmd, arg);
        if (r >= 0 && (cmd == F_DUPFD || cmd == F_DUPFD_CLOEXEC) && fd_tracked(fd)) fdtab_set(r, fdp(fd));
        return r;
    }
    long n; pre("fcntl-lock", fdp(fd), &n);
    int r = rf(fd, cmd, arg); int se = errno;
    logf_(n, "fcntl-lock %d<%s> %d = %d %s", fd, E(fdp(fd)), cmd, r, ename(r < 0 ? se : 0)); errno = se; return r;
}
int fcntl64(int fd, int cmd, ...) {
    va_list a; va_start(a, cmd); void *arg = va_arg(a, void *); va_end(a);
    return fcntl(fd, cmd, arg);
}
int lockf(int fd, int cmd, off_t len) {
    init(); REAL(lockf);
    if (in_shim || !fd_tracked(fd)) return real_lockf(fd, cmd, len);
    long n; pre("lockf", fdp(fd), &n); int r = real_lockf(fd, cmd, len); int se = errno;
    logf_(n, "lockf %d<%s> %d = %d %s", fd, E(fdp(fd)), cmd, r, ename(r < 0 ? se : 0)); errno = se; return r;
}

/* ---- data ---- */
ssize_t read(int fd, void *buf, size_t cnt) {
    init(); REAL(read);
    if (in_shim || !fd_tracked(fd)) return real_read(fd, buf, cnt);
    long n; int e = pre("read", fdp(fd), &n); ssize_t r;
    if (e) { r = -1; errno = e; } else r = real_read(fd, buf, cnt);
    int se = errno; logf_(n, "read %d<%s> %zu = %zd %s", fd, E(fdp(fd)), cnt, r, ename(r < 0 ? se : 0)); errno = se; return r;
}
ssize_t write(int fd, const void *buf, size_t cnt) {
    init(); REAL(write);
    if (in_shim || !fd_tracked(fd)) return real_write(fd, buf, cnt);
    long n; int e = pre("write", fdp(fd), &n); ssize_t r;
    if (e) { r = -1; errno = e; } else r = real_write(fd, buf, cnt);
    int se = errno; logf_(n, "write %d<%s> %zu = %zd %s", fd, E(fdp(fd)), cnt, r, ename(r < 0 ? se : 0)); errno = se; return r;
}
off_t lseek(int fd, off_t off, int wh) {
    init(); REAL(lseek);
    if (in_shim || !fd_tracked(fd)) return real_lseek(fd, off, wh);
    long n; int e = pre("lseek", fdp(fd), &n); off_t r;
    if (e) { r = -1; errno = e; } else r = real_lseek(fd, off, wh);
    int se = errno; logf_(n, "lseek %d<%s> %ld %d = %ld %s", fd, E(fdp(fd)), (long)off, wh, (long)r, ename(r < 0 ? se : 0)); errno = se; return r;
}
off64_t lseek64(int fd, off64_t off, int wh) {
    init(); REAL(lseek64);
    if (in_shim || !fd_tracked(fd)) return real_lseek64(fd, off, wh);
    long n; int e = pre("lseek", fdp(fd), &n); off64_t r;
    if (e) { r = -1; errno = e; } else r = real_lseek64(fd, off, wh);
    int se = errno; logf_(n, "lseek %d<%s> %ld %d = %ld %s", fd, E(fdp(fd)), (long)off, wh, (long)r, ename(r < 0 ? se : 0)); errno = se; return r;
}
ssize_t copy_file_range(int fi, off64_t *oi, int fo, off64_t *oo, size_t len, unsigned fl) {
    init(); REAL(copy_file_range);
    if (in_shim || !(fd_tracked(fi) || fd_tracked(fo))) return real_copy_file_range(fi, oi, fo, oo, len, fl);
    long n; int e = pre("copy_file_range", fdp(fo), &n); ssize_t r;
    if (e) { r = -1; errno = e; } else r = real_copy_file_range(fi, oi, fo, oo, len, fl);
    int se = errno; logf_(n, "copy_file_range %d<%s> %d<%s> %zu = %zd %s", fi, E(fdp(fi)), fo, E(fdp(fo)), len, r, ename(r < 0 ? se : 0)); errno = se; return r;
}

/* ---- directory streams ---- */
#define MAXDIR 256
static DIR *dirs[MAXDIR]; static char *dirpaths[MAXDIR];
static const char *dirp_path(DIR *d) { for (int i = 0; i < MAXDIR; i++) if (dirs[i] == d) return dirpaths[i]; return NULL; }
DIR *opendir(const char *p) {
    init(); REAL(opendir);
    if (in_shim || !under_root(p)) return real_opendir(p);
    long n; int e = pre("opendir", p, &n); DIR *d;
    if (e) { d = NULL; errno = e; } else { in_shim++; d = real_opendir(p); in_shim--; }
    int se = errno;
    if (d) { pthread_mutex_lock(&mu); for (int i = 0; i < MAXDIR; i++) if (!dirs[i]) { dirs[i] = d; dirpaths[i] = strdup(p); break; } pthread_mutex_unlock(&mu);
             fdtab_set(dirfd(d), p); }
    logf_(n, "opendir %s = %d %s", E(p), d ? dirfd(d) : -1, ename(d ? 0 : se)); errno = se; return d;
}
struct dirent64 *readdir64(DIR *d) {
    init(); REAL(readdir64);
    const char *p = in_shim ? NULL : dirp_path(d);
    if (!p) return real_readdir64(d);
    in_shim++; errno = 0; struct dirent64 *r = real_readdir64(d); int se = errno; in_shim--;
    if (r && (strcmp(r->d_name, ".") == 0 || strcmp(r->d_name, "..") == 0)) { errno = se; return r; }
    pthread_mutex_lock(&mu); long n = ++seq; pthread_mutex_unlock(&mu);   /* not a gate/fault point: batched by the kernel */
    logf_(n, "readdir %s = %s %s", E(p), r ? E(r->d_name) : "<end>", ename(r ? 0 : se)); errno = se; return r;
}
struct dirent *readdir(DIR *d) {
    init(); REAL(readdir);
    const char *p = in_shim ? NULL : dirp_path(d);
    if (!p) return real_readdir(d);
    in_shim++; errno = 0; struct dirent *r = real_readdir(d); int se = errno; in_shim--;
    if (r && (strcmp(r->d_name, ".") == 0 || strcmp(r->d_name, "..") == 0)) { errno = se; return r; }
    pthread_mutex_lock(&mu); long n = ++seq; pthread_mutex_unlock(&mu);
    logf_(n, "readdir %s = %s %s", E(p), r ? E(r->d_name) : "<end>", ename(r ? 0 : se)); errno = se; return r;
}
int closedir(DIR *d) {
    init(); REAL(closedir);
    const char *p = in_shim ? NULL : dirp_path(d);
    if (!p) return real_closedir(d);
    long n; int e = pre("closedir", p, &n); (void)e;
    int fd = dirfd(d);
    in_shim++; int r = real_closedir(d); int se = errno; in_shim--;
    logf_(n, "closedir %s = %d %s", E(p), r, ename(r < 0 ? se : 0));
    pthread_mutex_lock(&mu); for (int i = 0; i < MAXDIR; i++) if (dirs[i] == d) { dirs[i] = NULL; free(dirpaths[i]); dirpaths[i] = NULL; } pthread_mutex_unlock(&mu);
    fdtab_set(fd, NULL);
    errno = se; return r;
}

/* ---- clock ---- */
int clock_gettime(clockid_t id, struct timespec *ts) {
    init(); REAL(clock_gettime);
    if (in_shim || id != CLOCK_REALTIME) return real_clock_gettime(id, ts);
    if (!clock_on) {
        int r = real_clock_gettime(id, ts);
        if (logfd >= 0 && r == 0) { pthread_mutex_lock(&mu); long n = ++seq; pthread_mutex_unlock(&mu);
            logf_(n, "clock %lld.%09ld", (long long)ts->tv_sec, ts->tv_nsec); }
        return r;
    }
    pthread_mutex_lock(&mu); long long t = clock_base + clock_tick * (clock_k++); long n = ++seq; pthread_mutex_unlock(&mu);
    ts->tv_sec = t / 1000000000LL; ts->tv_nsec = t % 1000000000LL;
    logf_(n, "clock %lld.%09ld", (long long)ts->tv_sec, ts->tv_nsec);
    return 0;
}

/* Lets the harness suspend tracking (planting, snapshots, its own bookkeeping). */
/* A gate point of the harness itself (operation begin / return), so that the
   scheduler knows where operations start and end in its global order. */
void kshim_note(const char *s) {
    init();
    if (gate_out >= 0 && gate_in >= 0) {
        char b[600]; int l = snprintf(b, sizeof b, "NOTE %ld %s\n", (long)syscall(SYS_gettid), s);
        ssize_t (*rw)(int, const void *, size_t) = dlsym(RTLD_NEXT, "write");
        ssize_t (*rr)(int, void *, size_t) = dlsym(RTLD_NEXT, "read");
        rw(gate_out, b, l);
        char c; while (rr(gate_in, &c, 1) < 0 && errno == EINTR) {}
    }
}
void kshim_pause(int on) { if (on) in_shim++; else if (in_shim > 0) in_shim--; }
